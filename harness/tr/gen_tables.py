"""Source -> Gallina translator (fail-closed).  Regenerates coq/theories/Gen/Tables.v from
/repo's working tree on every check.  Each *item* is extracted by one small function that
either returns Gallina text or raises Refuse; a refused item falls back to the committed
hand-written copy in Gen/Fallback.v and is reported (the properties depending on it then
treat their tie as broken).
"""
import ast
import hashlib
import json
import os
import re
import subprocess
import sys

from harness.vlib import paths

OUT = os.path.join(paths.THEORIES, "Gen", "Tables.v")


class Refuse(Exception):
    pass


def _src(rel):
    return open(os.path.join(paths.REPO, rel), encoding="utf-8").read()


def _find_class_fn(tree, cls, fn):
    for node in tree.body:
        if isinstance(node, ast.ClassDef) and node.name == cls:
            for sub in node.body:
                if isinstance(sub, ast.FunctionDef) and sub.name == fn:
                    return sub
    raise Refuse(f"{cls}.{fn} not found")


def _find_fn(tree, fn):
    for node in tree.body:
        if isinstance(node, ast.FunctionDef) and node.name == fn:
            return node
    raise Refuse(f"function {fn} not found")


def _find_assign(tree, name):
    for node in tree.body:
        if isinstance(node, ast.Assign) and len(node.targets) == 1 and \
                isinstance(node.targets[0], ast.Name) and node.targets[0].id == name:
            return node.value
        if isinstance(node, ast.AnnAssign) and isinstance(node.target, ast.Name) and \
                node.target.id == name and node.value is not None:
            return node.value
    raise Refuse(f"assignment {name} not found")


def gstr(s):
    """Python str -> Gallina list N literal."""
    if not s:
        return "(@nil N)"
    return "[" + "; ".join(f"{ord(c)}%N" for c in s) + "]"


# ------------------------------------------------------------------------------------
# __lt__ of Keyword / Symbol : straight-line `if c: return e` over ns/name comparisons
# ------------------------------------------------------------------------------------
class LtTranslator:
    """Translates the body of Keyword.__lt__/Symbol.__lt__ to
         fun (ns1 : option str) (nm1 : str) (ns2 : option str) (nm2 : str) => bool
    in the context `other` is an instance of the same class and not None."""

    def __init__(self, clsname):
        self.cls = clsname

    def attr(self, e):
        if isinstance(e, ast.Attribute) and isinstance(e.value, ast.Name):
            who = {"self": "1", "other": "2"}.get(e.value.id)
            fld = {"_ns": "ns", "ns": "ns", "_name": "nm", "name": "nm"}.get(e.attr)
            if who and fld:
                return fld + who, ("ostr" if fld == "ns" else "str")
        raise Refuse(f"unsupported operand {ast.dump(e)}")

    def operand(self, e):
        if isinstance(e, ast.Tuple):
            return [self.attr(x) for x in e.elts]
        return [self.attr(e)]

    def cmp1(self, op, a, b):
        (na, ta), (nb, tb) = a, b
        if ta != tb:
            raise Refuse("comparison between ns and name")
        pre = "ostr" if ta == "ostr" else "str"
        if op == "lt":
            return f"({pre}_ltb {na} {nb})"
        if op == "eq":
            return f"({pre}_eqb {na} {nb})"
        raise Refuse(op)

    def lex(self, xs, ys, strict_last):
        # tuple comparison (a, b) < (c, d)
        if len(xs) != len(ys) or not xs:
            raise Refuse("tuple length")
        if len(xs) == 1:
            return strict_last(xs[0], ys[0])
        return (f"(orb {self.cmp1('lt', xs[0], ys[0])} (andb {self.cmp1('eq', xs[0], ys[0])} "
                f"{self.lex(xs[1:], ys[1:], strict_last)}))")

    def expr(self, e):
        if isinstance(e, ast.Constant) and isinstance(e.value, bool):
            return "true" if e.value else "false"
        if isinstance(e, ast.Name) and e.id == "NotImplemented":
            return "false"
        if isinstance(e, ast.UnaryOp) and isinstance(e.op, ast.Not):
            return f"(negb {self.expr(e.operand)})"
        if isinstance(e, ast.BoolOp):
            f = "andb" if isinstance(e.op, ast.And) else "orb"
            parts = [self.expr(v) for v in e.values]
            out = parts[-1]
            for p in reversed(parts[:-1]):
                out = f"({f} {p} {out})"
            return out
        if isinstance(e, ast.Call) and isinstance(e.func, ast.Name) and e.func.id == "isinstance":
            if (len(e.args) == 2 and isinstance(e.args[0], ast.Name) and e.args[0].id == "other"
                    and isinstance(e.args[1], ast.Name) and e.args[1].id == self.cls):
                return "true"
            raise Refuse("isinstance of something else")
        if isinstance(e, ast.Compare) and len(e.ops) == 1:
            op, l, r = e.ops[0], e.left, e.comparators[0]
            if isinstance(op, (ast.Is, ast.IsNot)) and isinstance(r, ast.Constant) and r.value is None:
                if isinstance(l, ast.Name) and l.id == "other":
                    v = "false"
                else:
                    n, t = self.attr(l)
                    if t != "ostr":
                        raise Refuse("is None on name")
                    v = f"(onone {n})"
                return v if isinstance(op, ast.Is) else f"(negb {v})"
            xs, ys = self.operand(l), self.operand(r)
            if isinstance(op, ast.Lt):
                return self.lex(xs, ys, lambda a, b: self.cmp1("lt", a, b))
            if isinstance(op, ast.Gt):
                return self.lex(ys, xs, lambda a, b: self.cmp1("lt", a, b))
            if isinstance(op, ast.LtE):
                return self.lex(xs, ys, lambda a, b: f"(orb {self.cmp1('lt', a, b)} {self.cmp1('eq', a, b)})")
            if isinstance(op, ast.Eq):
                if len(xs) != len(ys):
                    raise Refuse("tuple length")
                parts = [self.cmp1("eq", a, b) for a, b in zip(xs, ys)]
                out = parts[-1]
                for p in reversed(parts[:-1]):
                    out = f"(andb {p} {out})"
                return out
            if isinstance(op, ast.NotEq):
                parts = [self.cmp1("eq", a, b) for a, b in zip(xs, ys)]
                out = parts[-1]
                for p in reversed(parts[:-1]):
                    out = f"(andb {p} {out})"
                return f"(negb {out})"
        raise Refuse(f"unsupported expression {ast.dump(e)[:120]}")

    def block(self, stmts):
        stmts = [s for s in stmts if not (isinstance(s, ast.Expr) and isinstance(s.value, ast.Constant))]
        if not stmts:
            raise Refuse("fall off the end of __lt__")
        s = stmts[0]
        if isinstance(s, ast.Return):
            if s.value is None:
                raise Refuse("bare return")
            return self.expr(s.value)
        if isinstance(s, ast.If):
            c = self.expr(s.test)
            if not _returns(s.body):
                raise Refuse("if branch that falls through")
            then = self.block(s.body)
            if s.orelse:
                if not _returns(s.orelse):
                    raise Refuse("else branch that falls through")
                els = self.block(s.orelse)
            else:
                els = self.block(stmts[1:])
            return f"(if {c} then {then} else {els})"
        raise Refuse(f"unsupported statement {type(s).__name__}")


def _returns(stmts):
    return bool(stmts) and isinstance(stmts[-1], (ast.Return,)) or (
        bool(stmts) and isinstance(stmts[-1], ast.If) and _returns(stmts[-1].body) and _returns(stmts[-1].orelse))


def item_lt(rel, cls, name):
    def f():
        fn = _find_class_fn(ast.parse(_src(rel)), cls, "__lt__")
        body = LtTranslator(cls).block(fn.body)
        return (f"Definition {name} (ns1 : option str) (nm1 : str) (ns2 : option str) (nm2 : str) : bool :=\n"
                f"  {body}.\n")
    return f


def item_vector_lt():
    """PersistentVector.__lt__ must have the shape: length test, then the zip loop."""
    fn = _find_class_fn(ast.parse(_src("src/basilisp/lang/vector.py")), "PersistentVector", "__lt__")
    body = [s for s in fn.body if not (isinstance(s, ast.Expr) and isinstance(s.value, ast.Constant))]
    norm = "\n".join(ast.unparse(s) for s in body)
    expected = (
        "if other is None:\n    return False\n"
        "if not isinstance(other, PersistentVector):\n    return NotImplemented\n"
        "if len(self) != len(other):\n    return len(self) < len(other)\n"
        "for x, y in zip(self, other):\n    if x < y:\n        return True\n    elif y < x:\n        return False\n"
        "return False")
    if norm != expected:
        raise Refuse("PersistentVector.__lt__ no longer has the modelled shape:\n" + norm)
    return ("Definition vector_lt_shape : N := 1%N. "
            "(* 1 = length first, then first strictly ordered pair decides, equal => false *)\n")


# ------------------------------------------------------------------------------------
# plain dict / constant tables
# ------------------------------------------------------------------------------------
def _literal_dict(node):
    try:
        v = ast.literal_eval(node)
    except Exception as e:
        raise Refuse(f"not a literal: {e}")
    if not isinstance(v, dict):
        raise Refuse("not a dict")
    return v


def item_munge():
    tree = ast.parse(_src("src/basilisp/lang/util.py"))
    d = _literal_dict(_find_assign(tree, "_MUNGE_REPLACEMENTS"))
    rows = ";\n  ".join(f"({ord(k)}%N, {gstr(v)})" for k, v in d.items())
    txt = f"Definition munge_replacements : list (N * str) := [\n  {rows}\n].\n"
    import builtins, keyword
    kws = sorted(keyword.kwlist)
    bts = sorted(n for n in dir(builtins))
    txt += "Definition py_keywords : list str := [\n  " + ";\n  ".join(gstr(k) for k in kws) + "\n].\n"
    txt += "Definition py_builtins : list str := [\n  " + ";\n  ".join(gstr(k) for k in bts) + "\n].\n"
    return txt


ITEMS = [
    ("kw_lt", item_lt("src/basilisp/lang/keyword.py", "Keyword", "kw_lt")),
    ("sym_lt", item_lt("src/basilisp/lang/symbol.py", "Symbol", "sym_lt")),
    ("vector_lt_shape", item_vector_lt),
    ("munge_replacements", item_munge),
]

HEADER = """(** GENERATED by harness/tr/gen_tables.py from /repo's working tree. Do not edit. *)
From Coq Require Import List NArith ZArith Bool.
Import ListNotations.
From Verif Require Import Common.ListX Gen.Prims Gen.Fallback.

"""


def extra_items():
    """Items contributed by other translator modules (kept separate per property)."""
    items = []
    for modname in ("harness.tr.tr_reader", "harness.tr.tr_importer", "harness.tr.tr_optimizer",
                    "harness.tr.tr_numbers", "harness.tr.tr_codecs", "harness.tr.tr_conc",
                    "harness.tr.tr_bindings", "harness.tr.tr_arity", "harness.tr.tr_equality",
                    "harness.tr.tr_printer",
                    "harness.tr.tr_lazyseq", "harness.tr.tr_syntaxquote",
                    "harness.tr.tr_collections"):
        try:
            mod = __import__(modname, fromlist=["ITEMS"])
        except ImportError:
            continue
        except Exception as e:      # a broken translator module must not take the others down
            IMPORT_ERRORS[modname] = f"{type(e).__name__}: {e}"[:300]
            continue
        items.extend(mod.ITEMS)
    return items


IMPORT_ERRORS = {}


def regenerate():
    parts, refused, ok = [HEADER], {}, []
    for name, fn in ITEMS + extra_items():
        try:
            parts.append(f"(* ---- {name} ---- *)\n" + fn() + "\n")
            ok.append(name)
        except Refuse as e:
            refused[name] = str(e)[:500]
            parts.append(f"(* ---- {name}: REFUSED ({str(e)[:200].replace('*)', '* )')}) ---- *)\n"
                         f"Definition {name} := Fallback.{name}.\n\n")
        except Exception as e:  # the source does not even parse, etc.
            refused[name] = f"{type(e).__name__}: {e}"[:500]
            parts.append(f"(* ---- {name}: REFUSED ---- *)\nDefinition {name} := Fallback.{name}.\n\n")
    text = "".join(parts)
    old = open(OUT).read() if os.path.exists(OUT) else None
    changed = old != text
    if changed:
        os.makedirs(os.path.dirname(OUT), exist_ok=True)
        tmp = OUT + ".tmp"
        open(tmp, "w").write(text)
        os.replace(tmp, OUT)
    for k, v in IMPORT_ERRORS.items():
        refused["module:" + k] = v
    return {"items": ok, "refused": refused, "changed": changed,
            "sha1": hashlib.sha1(text.encode()).hexdigest()}


if __name__ == "__main__":
    print(json.dumps(regenerate(), indent=1))
