"""C05 translator items (fail closed): which classes of the anchored files define their own
`__eq__`/`__hash__`, which hash *family* each sequential type uses, and the statement shape
of every equality body the Coq model (coq/theories/C05/Model.v) transcribes.

Re-derived from /repo's working tree on every check:

* `c05_eq_hash_classes` : list of "file:Class.__eq__" / "file:Class.__hash__" strings for
      interfaces.py, keyword.py, symbol.py, vector.py, list.py, queue.py, map.py, set.py
      (a new class with its own equality, or a removed `__hash__`, changes the list and breaks
      the obligation `C05_table_eq_hash_classes`).
* `c05_vec_hash_family`, `c05_list_hash_family`, `c05_queue_hash_family`,
  `c05_iseq_hash_family` : 1 = the type hashes as `hash(tuple(elements))`,
      2 = it hashes as pyrsistent's `hash(pvector)` (a different algorithm).  The model's
      `hash_of` is *defined* through these, and `C05_eq_hash` needs all four to be 1.
      (`hash(plist)` and `hash(pdeque)` are `hash(tuple(self))` inside pyrsistent: trusted,
      and exercised by the correspondence run.)
* `c05_*_shape` : 1 iff the body has exactly the modelled text (docstrings and comments
      dropped, `ast.unparse` normal form); anything else is refused.
"""
import ast
import re

from harness.tr.gen_tables import Refuse, _src, _find_class_fn, _find_fn, gstr

LANG = "src/basilisp/lang/"
FILES = ["interfaces.py", "keyword.py", "list.py", "map.py", "queue.py", "set.py", "symbol.py", "vector.py"]


def _body(fn):
    return [s for s in fn.body if not (isinstance(s, ast.Expr) and isinstance(s.value, ast.Constant)
                                       and isinstance(s.value.value, str))]


def _norm(fn):
    return "\n".join(ast.unparse(s) for s in _body(fn))


def eq_hash_classes():
    rows = []
    for f in FILES:
        tree = ast.parse(_src(LANG + f))
        for node in tree.body:
            if isinstance(node, ast.ClassDef):
                for sub in node.body:
                    if isinstance(sub, ast.FunctionDef) and sub.name in ("__eq__", "__hash__", "__ne__"):
                        rows.append(f"{f}:{node.name}.{sub.name}")
                    if isinstance(sub, ast.Assign) and any(
                            isinstance(t, ast.Name) and t.id in ("__eq__", "__hash__", "__ne__") for t in sub.targets):
                        rows.append(f"{f}:{node.name}.{sub.targets[0].id}=")
    rows.sort()
    return ("Definition c05_eq_hash_classes : list str := [\n  "
            + ";\n  ".join(f"{gstr(r)} (* {r} *)" for r in rows) + "\n].\n")


TUPLE_HASHES = {"return hash(tuple(self))", "return hash(tuple(self._inner))"}


def hash_family(rel, cls, name, inner_is_pvector):
    def f():
        fn = _find_class_fn(ast.parse(_src(LANG + rel)), cls, "__hash__")
        text = _norm(fn)
        if text in TUPLE_HASHES:
            fam = 1
        elif text == "return hash(self._inner)":
            # pyrsistent: hash(plist) = hash(pdeque) = hash(tuple(self)); hash(pvector) is its own
            fam = 2 if inner_is_pvector else 1
        else:
            raise Refuse(f"{cls}.__hash__ has an unmodelled body: {text}")
        return f"Definition {name} : N := {fam}%N. (* {cls}.__hash__: {text} *)\n"
    return f


def shape(name, getter, expected):
    def f():
        text = getter()
        if text != expected:
            raise Refuse(f"{name}: body no longer has the modelled shape:\n{text}")
        return f"Definition {name} : N := 1%N.\n"
    return f


def _cls(rel, cls, fn):
    return lambda: _norm(_find_class_fn(ast.parse(_src(LANG + rel)), cls, fn))


def _fn(rel, fn):
    return lambda: _norm(_find_fn(ast.parse(_src(LANG + rel)), fn))


SEQ_EQUALS = (
    "assert isinstance(s1, (ISeq, ISequential))\n"
    "if not isinstance(s2, (ISeq, ISequential)):\n    return NotImplemented\n"
    "sentinel = object()\n"
    "for e1, e2 in itertools.zip_longest(s1, s2, fillvalue=sentinel):\n"
    "    if bool(e1 is sentinel) or bool(e2 is sentinel):\n        return False\n"
    "    if e1 != e2:\n        return False\n"
    "return True")
ISEQ_EQ = "if self is other:\n    return True\nreturn seq_equals(self, other)"
LEN_EQ = ("if self is other:\n    return True\n"
          "if hasattr(other, '__len__') and len(self) != len(other):\n    return False\n"
          "return seq_equals(self, other)")
MAP_EQ = ("if self is other:\n    return True\n"
          "if not isinstance(other, Mapping):\n    return NotImplemented\n"
          "if len(self._inner) != len(other):\n    return False\n"
          "return self._inner == other")
SET_EQ = ("if self is other:\n    return True\n"
          "if not isinstance(other, AbstractSet):\n    return NotImplemented\n"
          "return AbstractSet.__eq__(self, other)")
KW_EQ = ("return self is other or (isinstance(other, Keyword) and "
         "(self._name, self._ns) == (other._name, other._ns))")
SYM_EQ = ("if not isinstance(other, Symbol):\n    return False\n"
          "return self._ns == other._ns and self._name == other._name")
EQUALS = ("if isinstance(v1, (bool, type(None))) or isinstance(v2, (bool, type(None))):\n"
          "    return v1 is v2\nreturn v1 == v2")
HASH_KW = "return hash((name, ns))"
MAP_HASH = "return hash(self._inner)"
SET_HASH = "return self._hash()"
MAP_CONTAINS = "return item in self._inner"


def _sym_hash():
    fn = _find_class_fn(ast.parse(_src(LANG + "symbol.py")), "Symbol", "__init__")
    lines = [ast.unparse(s) for s in _body(fn) if "_hash" in ast.unparse(s)]
    return "\n".join(lines) + "\n" + _cls("symbol.py", "Symbol", "__hash__")()


def _kw_hash():
    fn = _find_class_fn(ast.parse(_src(LANG + "keyword.py")), "Keyword", "__init__")
    lines = [ast.unparse(s) for s in _body(fn) if "_hash" in ast.unparse(s)]
    return ("\n".join(lines) + "\n" + _cls("keyword.py", "Keyword", "__hash__")() + "\n"
            + _fn("keyword.py", "hash_kw")())


def _lisp_form(start_pat, text):
    """The balanced form starting at the first match of start_pat, whitespace-normalised,
    `;` comments dropped (string literals in these forms contain no parentheses or `;`...
    anything surprising changes the text and is refused by the comparison)."""
    m = re.search(start_pat, text, re.M)
    if not m:
        raise Refuse(f"form {start_pat!r} not found in core.lpy")
    i, depth, in_str, out = m.start(), 0, False, []
    while i < len(text):
        c = text[i]
        if in_str:
            out.append(c)
            if c == "\\":
                out.append(text[i + 1])
                i += 1
            elif c == '"':
                in_str = False
        elif c == '"':
            in_str = True
            out.append(c)
        elif c == ";":
            while i < len(text) and text[i] != "\n":
                i += 1
            continue
        elif c in "([{":
            depth += 1
            out.append(c)
        elif c in ")]}":
            depth -= 1
            out.append(c)
            if depth == 0:
                break
        else:
            out.append(c)
        i += 1
    if depth != 0:
        raise Refuse("unbalanced form")
    return re.sub(r"\s+", " ", "".join(out)).strip()


def _core_eq():
    form = _lisp_form(r"^\(defn =\n", _src("src/basilisp/core.lpy"))
    # drop the docstring
    return re.sub(r'^\(defn = "(?:[^"\\]|\\.)*" ', "(defn = ", form)


CORE_EQ = ("(defn = ([_] true) ([x & args] (if (seq (rest args)) "
           "(if (basilisp.lang.runtime/equals x (first args)) (recur (first args) (rest args)) false) "
           "(basilisp.lang.runtime/equals x (first args)))))")
CORE_HASH = "(defn ^:inline hash \"Return the hash code for its argument.\" [x] (python/hash x))"
REC_EQ = ("(~'__eq__ [~this-gs ~other-gs] (or (identical? ~this-gs ~other-gs) "
          "(and (instance? (python/type ~this-gs) ~other-gs) "
          "(= [~@fields ~'_recmap] [~@(map (fn [field] `(.- ~other-gs ~field)) fields) "
          "(.- ~other-gs ~'_recmap)]))))")
REC_HASH = "(~'__hash__ [~this-gs] (hash [~@fields ~'_recmap]))"


def _record():
    src = _src("src/basilisp/core.lpy")
    m = re.search(r"^\(defmacro defrecord\n", src, re.M)
    if not m:
        raise Refuse("defrecord not found")
    rest = src[m.start():]
    return _lisp_form(r"\(~'__eq__ ", rest) + "\n" + _lisp_form(r"\(~'__hash__ ", rest)


def _core_form(pat):
    return lambda: _lisp_form(pat, _src("src/basilisp/core.lpy"))


ITEMS = [
    ("c05_eq_hash_classes", eq_hash_classes),
    ("c05_vec_hash_family", hash_family("vector.py", "PersistentVector", "c05_vec_hash_family", True)),
    ("c05_list_hash_family", hash_family("list.py", "PersistentList", "c05_list_hash_family", False)),
    ("c05_queue_hash_family", hash_family("queue.py", "PersistentQueue", "c05_queue_hash_family", False)),
    ("c05_iseq_hash_family", hash_family("interfaces.py", "ISeq", "c05_iseq_hash_family", False)),
    ("c05_seq_equals_shape", shape("c05_seq_equals_shape", _fn("interfaces.py", "seq_equals"), SEQ_EQUALS)),
    ("c05_iseq_eq_shape", shape("c05_iseq_eq_shape", _cls("interfaces.py", "ISeq", "__eq__"), ISEQ_EQ)),
    ("c05_vec_eq_shape", shape("c05_vec_eq_shape", _cls("vector.py", "PersistentVector", "__eq__"), LEN_EQ)),
    ("c05_queue_eq_shape", shape("c05_queue_eq_shape", _cls("queue.py", "PersistentQueue", "__eq__"), LEN_EQ)),
    ("c05_map_eq_shape", shape("c05_map_eq_shape",
                               lambda: _cls("map.py", "PersistentMap", "__eq__")() + "\n"
                               + _cls("map.py", "PersistentMap", "__hash__")() + "\n"
                               + _cls("map.py", "PersistentMap", "__contains__")(),
                               MAP_EQ + "\n" + MAP_HASH + "\n" + MAP_CONTAINS)),
    ("c05_set_eq_shape", shape("c05_set_eq_shape",
                               lambda: _cls("set.py", "PersistentSet", "__eq__")() + "\n"
                               + _cls("set.py", "PersistentSet", "__hash__")() + "\n"
                               + _cls("set.py", "PersistentSet", "__contains__")(),
                               SET_EQ + "\n" + SET_HASH + "\n" + MAP_CONTAINS)),
    ("c05_kw_eq_shape", shape("c05_kw_eq_shape",
                              lambda: _cls("keyword.py", "Keyword", "__eq__")() + "\n" + _kw_hash(),
                              KW_EQ + "\nself._hash = hash_kw(name, ns)\nreturn self._hash\n" + HASH_KW)),
    ("c05_sym_eq_shape", shape("c05_sym_eq_shape",
                               lambda: _cls("symbol.py", "Symbol", "__eq__")() + "\n" + _sym_hash(),
                               SYM_EQ + "\nself._hash = hash((ns, name))\nreturn self._hash")),
    ("c05_equals_shape", shape("c05_equals_shape", _fn("runtime.py", "equals"), EQUALS)),
    ("c05_core_eq_shape", shape("c05_core_eq_shape",
                                lambda: _core_eq() + "\n" + _core_form(r"^\(defn \^:inline hash\n")(),
                                CORE_EQ + "\n" + CORE_HASH)),
    ("c05_record_eq_shape", shape("c05_record_eq_shape", _record, REC_EQ + "\n" + REC_HASH)),
]
