"""C09 translator items (fail closed), re-read from /repo's working tree on every check.

* `sq_special_forms : list str`  the names in runtime._SPECIAL_FORMS (the symbols the
      resolver -- hence syntax-quote -- leaves unqualified).  Every member must be a module
      constant assigned `sym.symbol("<literal>")` with no namespace; anything else is refused.
* `sq_builders : list (str * str)`  (namespace, name) of the reader constants _SEQ, _CONCAT,
      _LIST, _APPLY, _VECTOR, _HASH_MAP, _HASH_SET, _QUOTE (in this order) out of which
      _process_syntax_quoted_form builds its output ("" = no namespace).
* `sq_resolve_shape : N`  1 iff runtime.resolve_alias has exactly the statement shape the model
      SyntaxQuote.resolve_alias transcribes (docstring ignored); any other text is refused.
* `sq_expand_shape : N`   1 iff reader._expand_syntax_quote and _process_syntax_quoted_form have
      the modelled statement shape (docstrings and `# type: ignore` comments ignored).
"""
import ast

from harness.tr.gen_tables import Refuse, _src, _find_fn, _find_assign, gstr

RUNTIME = "src/basilisp/lang/runtime.py"
READER = "src/basilisp/lang/reader.py"


def _sym_const(tree, name):
    """(ns or None, name) of a module constant `NAME = sym.symbol("lit"[, ns="lit"])`."""
    v = _find_assign(tree, name)
    if not (isinstance(v, ast.Call) and isinstance(v.func, ast.Attribute) and v.func.attr == "symbol"
            and isinstance(v.func.value, ast.Name) and v.func.value.id == "sym"):
        raise Refuse(f"{name} is not sym.symbol(...)")
    if len(v.args) != 1 or not (isinstance(v.args[0], ast.Constant) and isinstance(v.args[0].value, str)):
        raise Refuse(f"{name}: unsupported arguments")
    ns = None
    for k in v.keywords:
        if k.arg == "ns" and isinstance(k.value, ast.Constant) and isinstance(k.value.value, str):
            ns = k.value.value
        else:
            raise Refuse(f"{name}: unsupported keyword {k.arg}")
    return ns, v.args[0].value


def item_special_forms():
    tree = ast.parse(_src(RUNTIME))
    v = _find_assign(tree, "_SPECIAL_FORMS")
    if not (isinstance(v, ast.Call) and isinstance(v.func, ast.Attribute) and v.func.attr == "s"
            and isinstance(v.func.value, ast.Name) and v.func.value.id == "lset" and not v.keywords):
        raise Refuse("_SPECIAL_FORMS is not lset.s(...)")
    names = []
    for a in v.args:
        if not isinstance(a, ast.Name):
            raise Refuse(f"_SPECIAL_FORMS member {ast.dump(a)[:80]}")
        ns, nm = _sym_const(tree, a.id)
        if ns is not None:
            raise Refuse(f"special form {a.id} has a namespace")
        names.append(nm)
    return ("Definition sq_special_forms : list str :=\n  [" +
            ";\n   ".join(gstr(n) for n in names) + "].\n")


def item_builders():
    tree = ast.parse(_src(READER))
    out = []
    for c in ("_SEQ", "_CONCAT", "_LIST", "_APPLY", "_VECTOR", "_HASH_MAP", "_HASH_SET", "_QUOTE"):
        ns, nm = _sym_const(tree, c)
        out.append(f"({gstr(ns or '')}, {gstr(nm)})")
    return "Definition sq_builders : list (str * str) :=\n  [" + ";\n   ".join(out) + "].\n"


def _norm(fn):
    body = [s for s in fn.body if not (isinstance(s, ast.Expr) and isinstance(s.value, ast.Constant)
                                       and isinstance(s.value.value, str))]
    return "\n".join(ast.unparse(s) for s in body)


RESOLVE_SHAPE = """if s in _SPECIAL_FORMS:
    return s
ns = Maybe(ns).or_else(get_current_ns)
if s.ns is not None:
    aliased_ns = ns.get_alias(sym.symbol(s.ns))
    if aliased_ns is not None:
        return sym.symbol(s.name, aliased_ns.name)
    else:
        return s
else:
    which_var = ns.find(sym.symbol(s.name))
    if which_var is not None:
        return sym.symbol(which_var.name.name, which_var.ns.name)
    else:
        return sym.symbol(s.name, ns=ns.name)"""

EXPAND_SHAPE = """expanded = []
for elem in form:
    if _is_unquote(elem):
        expanded.append(llist.l(_LIST, elem[1]))
    elif _is_unquote_splicing(elem):
        expanded.append(elem[1])
    else:
        expanded.append(llist.l(_LIST, _process_syntax_quoted_form(ctx, elem)))
return expanded"""

PROCESS_SHAPE = """lconcat = lambda v: llist.list(v).cons(_CONCAT)
if _is_unquote(form):
    return form[1]
elif _is_unquote_splicing(form):
    raise ctx.syntax_error('Cannot splice outside collection')
elif isinstance(form, llist.PersistentList):
    return llist.l(_SEQ, lconcat(_expand_syntax_quote(ctx, form)))
elif isinstance(form, vec.PersistentVector):
    return llist.l(_APPLY, _VECTOR, lconcat(_expand_syntax_quote(ctx, form)))
elif isinstance(form, lset.PersistentSet):
    return llist.l(_APPLY, _HASH_SET, lconcat(_expand_syntax_quote(ctx, form)))
elif isinstance(form, lmap.PersistentMap):
    flat_kvs = list(chain.from_iterable(form.items()))
    return llist.l(_APPLY, _HASH_MAP, lconcat(_expand_syntax_quote(ctx, flat_kvs)))
elif isinstance(form, sym.Symbol):
    if form.ns is None and form.name.endswith('#'):
        try:
            return llist.l(_QUOTE, ctx.gensym_env[form.name])
        except KeyError:
            genned = sym.symbol(langutil.genname(form.name[:-1])).with_meta(form.meta)
            ctx.gensym_env[form.name] = genned
            return llist.l(_QUOTE, genned)
    return llist.l(_QUOTE, form)
else:
    return form"""


def item_resolve_shape():
    tree = ast.parse(_src(RUNTIME))
    text = _norm(_find_fn(tree, "resolve_alias"))
    if text != RESOLVE_SHAPE:
        raise Refuse("resolve_alias has a shape the model does not transcribe:\n" + text[:400])
    return "Definition sq_resolve_shape : N := 1%N.\n"


def item_expand_shape():
    tree = ast.parse(_src(READER))
    a = _norm(_find_fn(tree, "_expand_syntax_quote"))
    b = _norm(_find_fn(tree, "_process_syntax_quoted_form"))
    if a != EXPAND_SHAPE:
        raise Refuse("_expand_syntax_quote has a shape the model does not transcribe:\n" + a[:400])
    if b != PROCESS_SHAPE:
        raise Refuse("_process_syntax_quoted_form has a shape the model does not transcribe:\n" + b[:600])
    return "Definition sq_expand_shape : N := 1%N.\n"


ITEMS = [
    ("sq_special_forms", item_special_forms),
    ("sq_builders", item_builders),
    ("sq_resolve_shape", item_resolve_shape),
    ("sq_expand_shape", item_expand_shape),
]

if __name__ == "__main__":
    for n, f in ITEMS:
        try:
            print(f())
        except Refuse as e:
            print("REFUSED", n, e)
