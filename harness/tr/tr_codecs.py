"""Translator items for C19: the escape tables of basilisp/edn.lpy and the byte constants of
basilisp/contrib/bencode.lpy, read from the .lpy *text* with a tiny fail-closed parser (the
harness process has not bootstrapped basilisp).  Anything outside the grammar
   (def ^:private NAME "docstring"? <literal>)
with <literal> a map / #py map / set of plain string literals is refused."""
import os
import re

from harness.vlib import paths
from harness.tr.gen_tables import Refuse, gstr

EDN = "src/basilisp/edn.lpy"
BENCODE = "src/basilisp/contrib/bencode.lpy"

_ESC = {'"': '"', "\\": "\\", "a": "\a", "b": "\b", "f": "\f", "n": "\n", "r": "\r", "t": "\t", "v": "\v"}


def _src(rel):
    return open(os.path.join(paths.REPO, rel), encoding="utf-8").read()


class P:
    """Cursor over source text."""

    def __init__(self, text, pos):
        self.t, self.i = text, pos

    def ws(self):
        while self.i < len(self.t) and (self.t[self.i].isspace() or self.t[self.i] == ","):
            self.i += 1

    def peek(self):
        return self.t[self.i] if self.i < len(self.t) else ""

    def expect(self, s):
        self.ws()
        if not self.t.startswith(s, self.i):
            raise Refuse(f"expected {s!r} at offset {self.i}: {self.t[self.i:self.i + 30]!r}")
        self.i += len(s)

    def string(self):
        self.ws()
        if self.peek() != '"':
            raise Refuse(f"expected a string literal at offset {self.i}: {self.t[self.i:self.i + 30]!r}")
        self.i += 1
        out = []
        while True:
            c = self.peek()
            if c == "":
                raise Refuse("unterminated string literal")
            self.i += 1
            if c == '"':
                return "".join(out)
            if c == "\\":
                e = self.peek()
                self.i += 1
                if e not in _ESC:
                    raise Refuse(f"escape \\{e} outside the translator's grammar")
                out.append(_ESC[e])
            else:
                out.append(c)

    def strings_until(self, close):
        items = []
        while True:
            self.ws()
            if self.peek() == close:
                self.i += 1
                return items
            items.append(self.string())


def _def_body(text, name):
    """Cursor just after `(def ^:private NAME` and an optional docstring."""
    ms = list(re.finditer(r"\(def\s+\^:private\s+" + re.escape(name) + r"(?=\s)", text))
    if len(ms) != 1:
        raise Refuse(f"(def ^:private {name} ...) found {len(ms)} times")
    p = P(text, ms[0].end())
    p.ws()
    if p.peek() == '"':
        p.string()
    p.ws()
    return p


def _pairs(strs, what):
    if len(strs) % 2:
        raise Refuse(f"{what}: odd number of forms in map literal")
    pairs = list(zip(strs[0::2], strs[1::2]))
    if len({k for k, _ in pairs}) != len(pairs):
        raise Refuse(f"{what}: duplicate key")
    return pairs


def item_edn_str_escape_chars():
    p = _def_body(_src(EDN), "str-escape-chars")
    p.expect("{")
    pairs = _pairs(p.strings_until("}"), "str-escape-chars")
    p.expect(")")
    for k, v in pairs:
        if len(k) != 1 or len(v) != 1:
            raise Refuse(f"str-escape-chars entry {k!r} -> {v!r} is not char -> char")
    rows = "; ".join(f"({ord(k)}, {ord(v)})" for k, v in pairs)
    return f"Definition edn_str_escape_chars : list (N * N) := [{rows}]%N.\n"


def item_edn_write_escapes():
    p = _def_body(_src(EDN), "str-escape-chars-translation")
    p.expect("(python.str/maketrans")
    p.expect("#py")
    p.expect("{")
    pairs = _pairs(p.strings_until("}"), "str-escape-chars-translation")
    p.expect(")")
    p.expect(")")
    for k, _ in pairs:
        if len(k) != 1:
            raise Refuse(f"translation key {k!r} is not one character")
    rows = ";\n  ".join(f"({ord(k)}%N, {gstr(v)})" for k, v in pairs)
    return f"Definition edn_write_escapes : list (N * str) := [\n  {rows}\n].\n"


def item_edn_dispatch_chars():
    p = _def_body(_src(EDN), "dispatch-chars")
    p.expect("#{")
    items = p.strings_until("}")
    p.expect(")")
    if any(len(s) != 1 for s in items) or len(set(items)) != len(items):
        raise Refuse("dispatch-chars is not a set of distinct one-character strings")
    rows = "; ".join(str(c) for c in sorted(ord(s) for s in items))
    return f"Definition edn_dispatch_chars : list N := [{rows}]%N.\n"


def item_bencode_tokens():
    text = _src(BENCODE)
    m = re.search(r'\(defn \^:private decode\*\s+\[data opts\]\s+\(case \(slice data 0 1\)\s+'
                  r'#b "(.)" \(decode-int data\)\s+#b "(.)" \(decode-list data opts\)\s+'
                  r'#b "(.)" \(decode-dict data opts\)\s+;; byte string\s+\(decode-byte-string data opts\)\)\)', text)
    if not m:
        raise Refuse("decode* no longer has the modelled shape (case on the first byte: int, list, dict, else string)")
    ends = re.findall(r'\(if \(= \(slice data 0 1\) #b "(.)"\)', text)
    if len(ends) != 2 or ends[0] != ends[1]:
        raise Refuse(f"expected the same terminator test in decode-list and decode-dict, found {ends}")
    ints = re.findall(r'\(index-of data #b "(.)"\)', text)
    if len(ints) != 2:
        raise Refuse(f"expected two index-of searches (int terminator, string separator), found {ints}")
    if ints[0] != ends[0]:
        raise Refuse("decode-int terminator differs from the list/dict terminator")
    toks = [m.group(1), m.group(2), m.group(3), ends[0], ints[1]]
    rows = "; ".join(str(ord(c)) for c in toks)
    return ("Definition bencode_tokens : list N := "
            f"[{rows}]%N. (* int, list, dict prefixes; terminator; length separator *)\n")


ITEMS = [
    ("edn_str_escape_chars", item_edn_str_escape_chars),
    ("edn_write_escapes", item_edn_write_escapes),
    ("edn_dispatch_chars", item_edn_dispatch_chars),
    ("bencode_tokens", item_bencode_tokens),
]
