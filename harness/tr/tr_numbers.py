"""C20 translator items (fail closed).

Three sources are re-translated into Gallina on every check:

* src/basilisp/lang/numbers.py -- `add/subtract/multiply/divide/trunc`: the single-dispatch
  registration table and every handler body, composed into one Gallina function per
  operation (`c20_num_add` ...), plus the `_normalize_fraction_result` decorator
  (`c20_num_normalize`).  The functions are abstracted over the Python primitives they use
  (`binop`, `isinstance`, `float()`, `decimal.Decimal()`, `Fraction()` ...), which
  C20/Model.v instantiates with its model of CPython's numeric tower.
* src/basilisp/core.lpy -- the bodies of `+ - * /` (arities 1/2), `quot rem mod inc dec inc'
  dec' abs zero?`, read with a tiny s-expression reader and emitted as Gallina functions
  abstracted over `lit`, `call` (by *name*, a code-point string), `ifte` and `bind`.
* src/basilisp/lang/compiler/optimizer.py -- the `binop` / `compareop` dictionaries of
  `_optimize_operator_call_attr` together with the operand order of the node they build
  (`c20_opt_ops`).

Anything outside the small grammars below raises Refuse: the item then falls back to the
hand-written copy in Gen/Fallback.v and the refusal is reported.
"""
import ast
import re

from harness.tr.gen_tables import Refuse, _src, _find_fn, gstr

NUMBERS = "src/basilisp/lang/numbers.py"
CORE = "src/basilisp/core.lpy"
OPTIMIZER = "src/basilisp/lang/compiler/optimizer.py"

# ------------------------------------------------------------------------------------
# numbers.py
# ------------------------------------------------------------------------------------
NUM_PRIMS_SIG = ("(R : Type) (binop : N -> R -> R -> R) (isinst : N -> R -> bool) (un : N -> R -> R) "
                 "(fraction2 : R -> R -> R) (den_is_one : R -> bool) (try_zde : R -> R -> R) "
                 "(ftest : N -> R -> bool) (fconst : N -> R)")
NUM_PRIMS_APP = "R binop isinst un fraction2 den_is_one try_zde ftest fconst"

BINOPS = {ast.Add: 0, ast.Sub: 1, ast.Mult: 2, ast.Div: 3}
# isinstance / register type codes
TYPES = {"int": 0, "float": 1, "decimal.Decimal": 2, "Fraction": 3, "fractions.Fraction": 3}
# unary primitives
UN_FLOAT, UN_DECIMAL, UN_TO_DECIMAL, UN_TRUNC, UN_NUMERATOR, UN_FRACTION1, UN_NEG = range(7)


def _dotted(e):
    if isinstance(e, ast.Name):
        return e.id
    if isinstance(e, ast.Attribute) and isinstance(e.value, ast.Name):
        return f"{e.value.id}.{e.attr}"
    return None


def _tycode(e):
    d = _dotted(e)
    if d not in TYPES:
        raise Refuse(f"unsupported type {ast.dump(e)[:80]}")
    return TYPES[d]


class NumTr:
    """Translate one handler of numbers.py.  `env` is the set of local names in scope."""

    def __init__(self, params, call_hook=None):
        self.env = set(params)
        self.call_hook = call_hook

    def var(self, name):
        if name not in self.env:
            raise Refuse(f"free name {name}")
        return f"v_{name}"

    def test(self, e):
        if isinstance(e, ast.UnaryOp) and isinstance(e.op, ast.Not):
            return f"(negb {self.test(e.operand)})"
        if isinstance(e, ast.BoolOp) and isinstance(e.op, ast.Or):
            parts = [self.test(v) for v in e.values]
            out = parts[-1]
            for p in reversed(parts[:-1]):
                out = f"(orb {p} {out})"
            return out
        if isinstance(e, ast.BoolOp) and isinstance(e.op, ast.And):
            parts = [self.test(v) for v in e.values]
            out = parts[-1]
            for p in reversed(parts[:-1]):
                out = f"(andb {p} {out})"
            return out
        if isinstance(e, ast.Call) and _dotted(e.func) == "isinstance" and len(e.args) == 2 and not e.keywords:
            return f"(isinst {_tycode(e.args[1])}%N {self.expr(e.args[0])})"
        if isinstance(e, ast.Call) and _dotted(e.func) == "math.isnan" and len(e.args) == 1 and not e.keywords:
            return f"(ftest 0%N {self.expr(e.args[0])})"
        if isinstance(e, ast.Compare) and len(e.ops) == 1:
            l, op, r = e.left, e.ops[0], e.comparators[0]
            if isinstance(op, ast.Eq) and isinstance(l, ast.Attribute) and l.attr == "denominator" \
                    and isinstance(r, ast.Constant) and r.value == 1 and type(r.value) is int:
                return f"(den_is_one {self.expr(l.value)})"
            if isinstance(op, ast.GtE) and isinstance(r, ast.Constant) and r.value == 0 and type(r.value) is int:
                return f"(ftest 1%N {self.expr(l)})"
        raise Refuse(f"unsupported test {ast.dump(e)[:120]}")

    def expr(self, e):
        if isinstance(e, ast.Name):
            return self.var(e.id)
        if isinstance(e, ast.BinOp) and type(e.op) in BINOPS:
            return f"(binop {BINOPS[type(e.op)]}%N {self.expr(e.left)} {self.expr(e.right)})"
        if isinstance(e, ast.UnaryOp) and isinstance(e.op, ast.USub):
            return f"(un {UN_NEG}%N {self.expr(e.operand)})"
        if isinstance(e, ast.IfExp):
            return f"(if {self.test(e.test)} then {self.expr(e.body)} else {self.expr(e.orelse)})"
        if isinstance(e, ast.Attribute):
            d = _dotted(e)
            if d == "math.nan":
                return "(fconst 0%N)"
            if d == "math.inf":
                return "(fconst 1%N)"
            if e.attr == "numerator":
                return f"(un {UN_NUMERATOR}%N {self.expr(e.value)})"
            raise Refuse(f"unsupported attribute {ast.dump(e)[:80]}")
        if isinstance(e, ast.Call) and not e.keywords:
            d = _dotted(e.func)
            if self.call_hook is not None:
                r = self.call_hook(self, e, d)
                if r is not None:
                    return r
            args = e.args
            one = {"float": UN_FLOAT, "decimal.Decimal": UN_DECIMAL, "_to_decimal": UN_TO_DECIMAL,
                   "math.trunc": UN_TRUNC}
            if d in one and len(args) == 1:
                return f"(un {one[d]}%N {self.expr(args[0])})"
            if d in ("Fraction", "fractions.Fraction"):
                if len(args) == 1:
                    return f"(un {UN_FRACTION1}%N {self.expr(args[0])})"
                if len(args) == 2:
                    return f"(fraction2 {self.expr(args[0])} {self.expr(args[1])})"
        raise Refuse(f"unsupported expression {ast.dump(e)[:120]}")

    def block(self, stmts):
        stmts = [s for s in stmts if not (isinstance(s, ast.Expr) and isinstance(s.value, ast.Constant))]
        if not stmts:
            raise Refuse("falls off the end")
        s, rest = stmts[0], stmts[1:]
        if isinstance(s, ast.Return):
            if s.value is None or rest:
                raise Refuse("bare return / code after return")
            return self.expr(s.value)
        if isinstance(s, ast.Assign) and len(s.targets) == 1 and isinstance(s.targets[0], ast.Name):
            val = self.expr(s.value)
            name = s.targets[0].id
            inner = NumTr(self.env | {name}, self.call_hook)
            return f"(let v_{name} := {val} in {inner.block(rest)})"
        if isinstance(s, ast.If):
            c = self.test(s.test)
            then = self.block(s.body)
            if s.orelse:
                if rest:
                    raise Refuse("code after if/else")
                els = self.block(s.orelse)
            else:
                els = self.block(rest)
            return f"(if {c} then {then} else {els})"
        if isinstance(s, ast.Try):
            if rest or s.orelse or s.finalbody or len(s.handlers) != 1:
                raise Refuse("unsupported try shape")
            h = s.handlers[0]
            if _dotted(h.type) != "ZeroDivisionError" or h.name is not None:
                raise Refuse("unsupported except clause")
            return f"(try_zde {self.block(s.body)} {self.block(h.body)})"
        raise Refuse(f"unsupported statement {type(s).__name__}")


def _params(fn):
    a = fn.args
    if a.posonlyargs or a.kwonlyargs or a.vararg or a.kwarg or a.defaults:
        raise Refuse(f"unsupported signature of {fn.name}")
    return [p.arg for p in a.args]


def _decorators(fn):
    """-> (kind, arg, normalized); kind 'generic' | 'register'."""
    kind, arg, norm = None, None, False
    for d in fn.decorator_list:
        dd = _dotted(d)
        if dd == "functools.singledispatch":
            kind = "generic"
        elif dd == "_normalize_fraction_result":
            norm = True
        elif isinstance(d, ast.Call) and isinstance(d.func, ast.Attribute) and d.func.attr == "register" \
                and isinstance(d.func.value, ast.Name) and len(d.args) == 1 and not d.keywords:
            kind, arg = "register", (d.func.value.id, _tycode(d.args[0]))
        else:
            raise Refuse(f"unsupported decorator on {fn.name}: {ast.dump(d)[:80]}")
    # the normalising decorator must be the innermost one (applied to the handler itself)
    if norm and _dotted(fn.decorator_list[-1]) != "_normalize_fraction_result":
        raise Refuse(f"decorator order on {fn.name}")
    return kind, arg, norm


def item_num_normalize():
    tree = ast.parse(_src(NUMBERS))
    outer = _find_fn(tree, "_normalize_fraction_result")
    if _params(outer) != ["f"]:
        raise Refuse("decorator signature")
    body = [s for s in outer.body if not (isinstance(s, ast.Expr) and isinstance(s.value, ast.Constant))]
    if len(body) != 2 or not isinstance(body[0], ast.FunctionDef) or not isinstance(body[1], ast.Return) \
            or _dotted(body[1].value) != body[0].name:
        raise Refuse("decorator shape")
    inner = body[0]
    ps = _params(inner)
    if len(ps) != 2:
        raise Refuse("inner signature")
    for d in inner.decorator_list:
        if not (isinstance(d, ast.Call) and _dotted(d.func) == "functools.wraps"):
            raise Refuse("inner decorator")

    def hook(tr, e, d):
        # result = f(x, y): the wrapped handler applied to the same arguments, in order
        if d == "f" and [getattr(a, "id", None) for a in e.args] == ps:
            return "v_result__in"
        return None

    txt = NumTr(ps, hook).block(inner.body)
    return (f"Definition c20_num_normalize {NUM_PRIMS_SIG} (v_result__in : R) : R :=\n  {txt}.\n")


def _num_op(opname, nparams, normalize_allowed=True):
    tree = ast.parse(_src(NUMBERS))
    generic, handlers = None, []
    for node in tree.body:
        if not isinstance(node, ast.FunctionDef):
            continue
        try:
            kind, arg, norm = _decorators(node)
        except Refuse:
            if node.name in ("_normalize_fraction_result", "_to_decimal"):
                continue
            raise
        if kind == "generic" and node.name == opname:
            generic = (node, norm)
        elif kind == "register" and arg[0] == opname:
            handlers.append((arg[1], node, norm))
    if generic is None:
        raise Refuse(f"{opname}: no singledispatch generic function")
    # a later rebinding of the name (e.g. `add = something`) would invalidate the table
    for node in ast.walk(tree):
        if isinstance(node, ast.Assign):
            for t in node.targets:
                if isinstance(t, ast.Name) and t.id == opname and node in tree.body:
                    raise Refuse(f"{opname} rebound at module level")
    seen = set()

    def body(fn, norm):
        ps = _params(fn)
        if len(ps) != nparams:
            raise Refuse(f"{fn.name}: arity")
        names = ["x", "y"][:nparams]
        # rename the parameters to x / y
        ren = dict(zip(ps, names))

        class Ren(ast.NodeTransformer):
            def visit_Name(self, n):
                return ast.copy_location(ast.Name(ren.get(n.id, n.id), n.ctx), n)
        fn2 = Ren().visit(ast.parse(ast.unparse(fn)).body[0])
        txt = NumTr(names).block(fn2.body)
        if norm:
            if not normalize_allowed:
                raise Refuse("unexpected normalising decorator")
            txt = f"(c20_num_normalize {NUM_PRIMS_APP} {txt})"
        return txt

    out = body(*generic)
    for code, fn, norm in reversed(handlers):
        if code in seen:
            raise Refuse(f"{opname}: type registered twice")
        seen.add(code)
        out = f"(if (isinst {code}%N v_x) then {body(fn, norm)}\n   else {out})"
    args = "(v_x v_y : R)" if nparams == 2 else "(v_x : R)"
    return f"Definition c20_num_{opname} {NUM_PRIMS_SIG} {args} : R :=\n  {out}.\n"


def item_num(opname, nparams):
    return lambda: _num_op(opname, nparams)


def item_num_to_decimal():
    """_to_decimal is a primitive of the model (`un 2`): pin its shape."""
    fn = _find_fn(ast.parse(_src(NUMBERS)), "_to_decimal")
    body = [s for s in fn.body if not (isinstance(s, ast.Expr) and isinstance(s.value, ast.Constant))]
    norm = "\n".join(ast.unparse(s) for s in body)
    expected = ("if isinstance(x, Fraction):\n"
                "    numerator, denominator = x.as_integer_ratio()\n"
                "    return decimal.Decimal(numerator) / decimal.Decimal(denominator)\n"
                "return decimal.Decimal(x)")
    if norm != expected:
        raise Refuse("_to_decimal no longer has the modelled shape:\n" + norm)
    return ("Definition c20_num_to_decimal_shape : N := 1%N. "
            "(* 1 = Fraction -> Decimal(n)/Decimal(d); anything else -> Decimal(x) *)\n")


# ------------------------------------------------------------------------------------
# core.lpy : a tiny s-expression reader for the arithmetic defns
# ------------------------------------------------------------------------------------
class Sym(str):
    pass


class Kw(str):
    pass


class Vec(list):
    pass


_DELIM = set("()[]{}\"; \t\n\r,")


def _read(text, i):
    """Read one form starting at text[i]; returns (form, next index)."""
    n = len(text)
    while i < n:
        c = text[i]
        if c in " \t\n\r,":
            i += 1
        elif c == ";":
            while i < n and text[i] != "\n":
                i += 1
        else:
            break
    if i >= n:
        raise Refuse("unexpected end of form")
    c = text[i]
    if c in "([":
        close = ")" if c == "(" else "]"
        items = Vec() if c == "[" else []
        i += 1
        while True:
            while i < n and (text[i] in " \t\n\r," or text[i] == ";"):
                if text[i] == ";":
                    while i < n and text[i] != "\n":
                        i += 1
                else:
                    i += 1
            if i >= n:
                raise Refuse("unbalanced form")
            if text[i] == close:
                return items, i + 1
            if text[i] in ")]":
                raise Refuse("mismatched bracket")
            f, i = _read(text, i)
            items.append(f)
    if c == '"':
        j = i + 1
        buf = []
        while j < n and text[j] != '"':
            if text[j] == "\\":
                j += 1
            buf.append(text[j])
            j += 1
        if j >= n:
            raise Refuse("unterminated string")
        return "".join(buf), j + 1
    if c == "^":
        meta, i = _read(text, i + 1)
        if not isinstance(meta, Kw):
            raise Refuse("unsupported metadata")
        form, i = _read(text, i)
        return form, i            # metadata is dropped (only ^:inline / ^:no-inline occur)
    if c in "{}#'`~@\\":
        raise Refuse(f"unsupported reader syntax {c!r}")
    j = i
    while j < n and text[j] not in _DELIM:
        j += 1
    tok = text[i:j]
    if re.fullmatch(r"[+-]?\d+", tok):
        return int(tok), j
    if tok.startswith(":"):
        return Kw(tok[1:]), j
    if re.fullmatch(r"[+-]?\d.*", tok):
        raise Refuse(f"unsupported numeric literal {tok}")
    return Sym(tok), j


_core_cache = {}


def _core_defn(name):
    """The (defn name ...) form of core.lpy as nested lists (exactly one must exist)."""
    text = _src(CORE)
    key = hash(text)
    if _core_cache.get("key") != key:
        _core_cache.clear()
        _core_cache["key"] = key
    if name in _core_cache:
        return _core_cache[name]
    pat = re.compile(r"^\(defn\s+(?:\^:[a-z-]+\s+)*" + re.escape(name) + r"(?=[\s)])", re.M)
    hits = [m.start() for m in pat.finditer(text)]
    if len(hits) != 1:
        raise Refuse(f"core.lpy: {len(hits)} definitions of {name}")
    form, _ = _read(text, hits[0])
    # a later (def name ...) / alter-var-root / alter-meta :inline would change what runs
    later = re.compile(r"\((?:def|defmacro|defn-?)\s+(?:\^\S+\s+)*" + re.escape(name) + r"[\s)]")
    if len(later.findall(text)) != 1:
        raise Refuse(f"core.lpy: {name} is defined more than once")
    if re.search(r"#'" + re.escape(name) + r"[\s)]", text):
        raise Refuse(f"core.lpy: #'{name} is manipulated (alter-meta / alter-var-root)")
    _core_cache[name] = form
    return form


def _arities(form, name):
    if not (isinstance(form, list) and len(form) >= 3 and form[0] == "defn" and form[1] == name):
        raise Refuse(f"{name}: not a defn")
    rest = form[2:]
    if isinstance(rest[0], str) and not isinstance(rest[0], (Sym, Kw)):
        rest = rest[1:]                       # docstring
    if rest and isinstance(rest[0], Vec):
        return [(rest[0], rest[1:])]
    out = []
    for a in rest:
        if not (isinstance(a, list) and not isinstance(a, Vec) and a and isinstance(a[0], Vec)):
            raise Refuse(f"{name}: unsupported defn shape")
        out.append((a[0], a[1:]))
    return out


class CoreTr:
    def __init__(self, env):
        self.env = dict(env)       # lisp symbol -> gallina identifier
        self.n = 0

    def ident(self, s):
        if not re.fullmatch(r"[a-z][a-z0-9-]*[#]?", s):
            raise Refuse(f"unsupported binding name {s}")
        return "v_" + s.replace("-", "_").replace("#", "_auto")

    def expr(self, f):
        if isinstance(f, bool) or f is None:
            raise Refuse("unsupported literal")
        if isinstance(f, int):
            return f"(lit ({f})%Z)"
        if isinstance(f, Sym):
            if f in self.env:
                return self.env[f]
            raise Refuse(f"symbol {f} in value position is not a parameter or let binding")
        if isinstance(f, (Kw, Vec)) or isinstance(f, str):
            raise Refuse(f"unsupported form {f!r}")
        if not f:
            raise Refuse("empty list")
        head, args = f[0], f[1:]
        if not isinstance(head, Sym):
            raise Refuse("call of a non-symbol")
        if head in self.env:
            raise Refuse("call of a local")
        if head == "let":
            if len(args) != 2 or not isinstance(args[0], Vec) or len(args[0]) % 2:
                raise Refuse("unsupported let shape")
            return self.let(list(args[0]), args[1])
        if head == "if":
            if len(args) != 3:
                raise Refuse("if without else")
            return f"(ifte {self.expr(args[0])} {self.expr(args[1])} {self.expr(args[2])})"
        if head == "and":
            # (and a b) macroexpands to (let [t a] (if t b t))
            if len(args) != 2:
                raise Refuse("and with other than two operands")
            self.n += 1
            t = f"v_and__{self.n}"
            return f"(bind {self.expr(args[0])} (fun {t} => (ifte {t} {self.expr(args[1])} {t})))"
        if head in ("do", "or", "when", "cond", "loop", "recur", "fn", "quote", "try", "throw", "def", "letfn",
                    "if-not", "when-not", "if-let", "when-let", "binding", ".", "set!", "var", "new"):
            raise Refuse(f"unsupported special form / macro {head}")
        if head.startswith(".") or head.endswith("."):
            raise Refuse("interop form")
        return f"(call {gstr(str(head))} [{'; '.join(self.expr(a) for a in args)}])"

    def let(self, binds, body):
        if not binds:
            return self.expr(body)
        name, init = binds[0], binds[1]
        if not isinstance(name, Sym):
            raise Refuse("destructuring let")
        gid = self.ident(name)
        val = self.expr(init)
        inner = CoreTr({**self.env, name: gid})
        inner.n = self.n
        return f"(bind {val} (fun {gid} => {inner.let(binds[2:], body)}))"


CORE_PRIMS_SIG = ("(R : Type) (lit : Z -> R) (call : str -> list R -> R) (ifte : R -> R -> R -> R) "
                  "(bind : R -> (R -> R) -> R)")


def item_core(gname, lname, nparams):
    def f():
        form = _core_defn(lname)
        chosen = [(ps, body) for ps, body in _arities(form, lname)
                  if len(ps) == nparams and Sym("&") not in ps]
        if len(chosen) != 1:
            raise Refuse(f"{lname}: {len(chosen)} arities with {nparams} fixed parameters")
        ps, body = chosen[0]
        if len(body) != 1:
            raise Refuse(f"{lname}: body with {len(body)} forms")
        tr = CoreTr({})
        env = {}
        for p in ps:
            if not isinstance(p, Sym):
                raise Refuse("destructuring parameter")
            env[p] = tr.ident(p)
        if len(set(env.values())) != len(ps):
            raise Refuse("duplicate parameters")
        txt = CoreTr(env).expr(body[0])
        params = " ".join(env[p] for p in ps)
        return (f"Definition {gname} {CORE_PRIMS_SIG} ({params} : R) : R :=\n  {txt}.\n")
    return f


def item_core_inline_flags():
    """Which of the modelled fns carry ^:inline in core.lpy (the analyzer generates the inline
    variant from the same body), as a table name -> bool."""
    text = _src(CORE)
    rows = []
    for lname in ["+", "-", "*", "/", "quot", "rem", "mod", "inc", "dec", "inc'", "dec'", "abs", "zero?"]:
        _core_defn(lname)
        m = re.search(r"^\(defn\s+((?:\^:[a-z-]+\s+)*)" + re.escape(lname) + r"(?=[\s)])", text, re.M)
        metas = m.group(1).split()
        for mt in metas:
            if mt not in ("^:inline", "^:no-inline"):
                raise Refuse(f"{lname}: unsupported metadata {mt}")
        rows.append(f"({gstr(lname)}, {'true' if '^:inline' in metas else 'false'})")
    return "Definition c20_core_inline_flags : list (str * bool) := [\n  " + ";\n  ".join(rows) + "\n].\n"


# ------------------------------------------------------------------------------------
# optimizer.py : operator-name -> Python-operator dictionaries and operand order
# ------------------------------------------------------------------------------------
AST_OPS = ["Add", "Sub", "Mult", "Div", "FloorDiv", "Mod", "Pow", "LShift", "RShift", "BitOr", "BitXor", "BitAnd",
           "MatMult", "Lt", "LtE", "Eq", "NotEq", "Gt", "GtE"]


def item_opt_ops():
    tree = ast.parse(_src(OPTIMIZER))
    fn = _find_fn(tree, "_optimize_operator_call_attr")
    if _params(fn) != ["fn", "node"]:
        raise Refuse("signature")
    body = [s for s in fn.body if not (isinstance(s, ast.Expr) and isinstance(s.value, ast.Constant))]
    if len(body) != 2 or not isinstance(body[0], ast.If) or ast.unparse(body[1]) != "return node":
        raise Refuse("unexpected top-level shape")
    guard = ast.unparse(body[0].test)
    if guard != "isinstance(fn.value, ast.Name) and fn.value.id == OPERATOR_ALIAS" or body[0].orelse:
        raise Refuse("unexpected guard " + guard)
    stmts = body[0].body
    rows = []
    found = set()
    i = 0
    while i < len(stmts):
        s = stmts[i]
        if isinstance(s, ast.Assign) and len(s.targets) == 1 and isinstance(s.targets[0], ast.Name) \
                and s.targets[0].id in ("binop", "compareop"):
            which = s.targets[0].id
            v = s.value
            if not (isinstance(v, ast.Call) and isinstance(v.func, ast.Attribute) and v.func.attr == "get"
                    and isinstance(v.func.value, ast.Dict) and len(v.args) == 1
                    and ast.unparse(v.args[0]) == "fn.attr" and not v.keywords):
                raise Refuse(f"{which}: not `{{...}}.get(fn.attr)`")
            d = v.func.value
            use = stmts[i + 1] if i + 1 < len(stmts) else None
            if not (isinstance(use, ast.If) and ast.unparse(use.test) == f"{which} is not None" and not use.orelse):
                raise Refuse(f"{which}: unexpected use")
            ub = [ast.unparse(x) for x in use.body]
            if "arg1, arg2 = node.args" not in ub or "assert len(node.args) == 2" not in ub:
                raise Refuse(f"{which}: operands are not `arg1, arg2 = node.args`")
            ret = ub[-1]
            if which == "binop":
                order = {"return ast.BinOp(arg1, binop(), arg2)": 0, "return ast.BinOp(arg2, binop(), arg1)": 1}.get(ret)
            else:
                order = {"return ast.Compare(arg1, [compareop()], [arg2])": 0,
                         "return ast.Compare(arg2, [compareop()], [arg1])": 1}.get(ret)
            if order is None:
                raise Refuse(f"{which}: unexpected node construction `{ret}`")
            for k, val in zip(d.keys, d.values):
                if not (isinstance(k, ast.Constant) and isinstance(k.value, str)):
                    raise Refuse("non-literal key")
                dv = _dotted(val)
                if dv is None or not dv.startswith("ast.") or dv[4:] not in AST_OPS:
                    raise Refuse(f"unsupported operator class {ast.dump(val)[:60]}")
                if k.value in found:
                    raise Refuse(f"operator {k.value} rewritten twice")
                found.add(k.value)
                rows.append(f"({gstr(k.value)}, ({AST_OPS.index(dv[4:])}%N, {order}%N))")
            i += 2
            continue
        i += 1
    if not rows:
        raise Refuse("no operator dictionaries found")
    legend = ", ".join(f"{i}={n}" for i, n in enumerate(AST_OPS))
    return ("(* operator.<name> -> (Python AST operator, operand order: 0 = (arg1 op arg2), 1 = swapped)\n"
            f"   operators: {legend} *)\n"
            "Definition c20_opt_ops : list (str * (N * N)) := [\n  " + ";\n  ".join(rows) + "\n].\n")


ITEMS = [
    ("c20_num_normalize", item_num_normalize),
    ("c20_num_add", item_num("add", 2)),
    ("c20_num_subtract", item_num("subtract", 2)),
    ("c20_num_multiply", item_num("multiply", 2)),
    ("c20_num_divide", item_num("divide", 2)),
    ("c20_num_trunc", item_num("trunc", 1)),
    ("c20_num_to_decimal_shape", item_num_to_decimal),
    ("c20_core_add2", item_core("c20_core_add2", "+", 2)),
    ("c20_core_sub1", item_core("c20_core_sub1", "-", 1)),
    ("c20_core_sub2", item_core("c20_core_sub2", "-", 2)),
    ("c20_core_mul2", item_core("c20_core_mul2", "*", 2)),
    ("c20_core_div1", item_core("c20_core_div1", "/", 1)),
    ("c20_core_div2", item_core("c20_core_div2", "/", 2)),
    ("c20_core_quot", item_core("c20_core_quot", "quot", 2)),
    ("c20_core_rem", item_core("c20_core_rem", "rem", 2)),
    ("c20_core_mod", item_core("c20_core_mod", "mod", 2)),
    ("c20_core_inc", item_core("c20_core_inc", "inc", 1)),
    ("c20_core_dec", item_core("c20_core_dec", "dec", 1)),
    ("c20_core_incq", item_core("c20_core_incq", "inc'", 1)),
    ("c20_core_decq", item_core("c20_core_decq", "dec'", 1)),
    ("c20_core_abs", item_core("c20_core_abs", "abs", 1)),
    ("c20_core_zerop", item_core("c20_core_zerop", "zero?", 1)),
    ("c20_core_inline_flags", item_core_inline_flags),
    ("c20_opt_ops", item_opt_ops),
]
