"""Translator items for C15: the tables and structural facts compiler/optimizer.py is driven by."""
import ast

from harness.tr.gen_tables import Refuse, _src, _find_fn
from harness.props.c15_tags import TAGS, h

REL = "src/basilisp/lang/compiler/optimizer.py"


def _tree():
    return ast.parse(_src(REL))


def _ast_cls(node):
    if isinstance(node, ast.Attribute) and isinstance(node.value, ast.Name) and node.value.id == "ast":
        if node.attr not in TAGS:
            raise Refuse(f"unknown ast class {node.attr}")
        return TAGS[node.attr]
    raise Refuse(f"not an ast.<Class>: {ast.dump(node)[:80]}")


def _dicts():
    """name -> dict literal of `_optimize_operator_call_attr` (`x = {...}.get(fn.attr)`)"""
    fn = _find_fn(_tree(), "_optimize_operator_call_attr")
    out = {}
    for n in ast.walk(fn):
        if (isinstance(n, ast.Assign) and len(n.targets) == 1 and isinstance(n.targets[0], ast.Name)
                and isinstance(n.value, ast.Call) and isinstance(n.value.func, ast.Attribute)
                and n.value.func.attr == "get" and isinstance(n.value.func.value, ast.Dict)):
            out[n.targets[0].id] = n.value.func.value
    return fn, out


def _table(name, pair=False):
    def f():
        _, ds = _dicts()
        if name not in ds:
            raise Refuse(f"dict {name} not found")
        d = ds[name]
        rows = []
        for k, v in zip(d.keys, d.values):
            if not (isinstance(k, ast.Constant) and isinstance(k.value, str)):
                raise Refuse("non-literal key")
            if pair:
                if not (isinstance(v, ast.Tuple) and len(v.elts) == 2):
                    raise Refuse("isop value is not a pair")
                rows.append(f"({h('id:' + k.value)}%N, ({_ast_cls(v.elts[0])}%N, {_ast_cls(v.elts[1])}%N))")
            else:
                rows.append(f"({h('id:' + k.value)}%N, {_ast_cls(v)}%N)")
        ty = "(N * (N * N))%type" if pair else "(N * N)%type"
        body = "[\n  " + ";\n  ".join(rows) + "\n]" if rows else f"(@nil {ty})"
        return f"Definition opt_{name}s : list {ty} := {body}.\n"
    return f


def _isinstance_kinds(fn_node, what):
    for n in ast.walk(fn_node):
        if (isinstance(n, ast.Call) and isinstance(n.func, ast.Name) and n.func.id == "isinstance"
                and len(n.args) == 2 and isinstance(n.args[1], ast.Tuple)):
            return [_ast_cls(e) for e in n.args[1].elts]
    raise Refuse(f"no isinstance(..., (...)) in {what}")


def item_terminators():
    fn = _find_fn(_tree(), "_filter_dead_code")
    want = ("def _filter_dead_code(nodes):\n    new_nodes = []\n    for node in nodes:\n"
            "        if isinstance(node, TERMS):\n            new_nodes.append(node)\n            break\n"
            "        new_nodes.append(node)\n    return new_nodes")
    kinds = _isinstance_kinds(fn, "_filter_dead_code")
    # shape check: replace the tuple by a placeholder and compare the normalised text
    fn2 = ast.parse(ast.unparse(fn)).body[0]
    fn2.returns = None
    for a in fn2.args.args:
        a.annotation = None
    body = []
    for s_ in fn2.body:
        if isinstance(s_, ast.Expr) and isinstance(s_.value, ast.Constant):
            continue                      # docstring
        if isinstance(s_, ast.AnnAssign) and s_.value is not None and isinstance(s_.target, ast.Name):
            s_ = ast.Assign(targets=[s_.target], value=s_.value, lineno=0)
        body.append(s_)
    fn2.body = body
    import re
    txt = ast.unparse(ast.fix_missing_locations(fn2))
    txt = re.sub(r"isinstance\(node, \([^)]*\)\)", "isinstance(node, TERMS)", txt)
    if txt != want:
        raise Refuse("_filter_dead_code no longer has the modelled shape:\n" + txt)
    return "Definition opt_terminators : list N := [" + "; ".join(f"{k}%N" for k in kinds) + "].\n"


def _cls_method(name):
    for node in _tree().body:
        if isinstance(node, ast.ClassDef) and node.name == "PythonASTOptimizer":
            for sub in node.body:
                if isinstance(sub, ast.FunctionDef) and sub.name == name:
                    return sub
            raise Refuse(f"method {name} not found")
    raise Refuse("class PythonASTOptimizer not found")


def item_expr_droppable():
    kinds = _isinstance_kinds(_cls_method("visit_Expr"), "visit_Expr")
    return "Definition opt_expr_droppable : list N := [" + "; ".join(f"{k}%N" for k in kinds) + "].\n"


def item_visitors():
    """which node kinds have a visit_ method, and which of them open a new `global` context"""
    vis, openers = [], []
    for node in _tree().body:
        if isinstance(node, ast.ClassDef) and node.name == "PythonASTOptimizer":
            for sub in node.body:
                if isinstance(sub, ast.FunctionDef) and sub.name.startswith("visit_"):
                    cls = sub.name[len("visit_"):]
                    if cls not in TAGS:
                        raise Refuse(f"visitor for unmodelled node kind {cls}")
                    vis.append(TAGS[cls])
                    for n in ast.walk(sub):
                        if (isinstance(n, ast.With) and any(
                                isinstance(i.context_expr, ast.Call) and isinstance(i.context_expr.func, ast.Attribute)
                                and i.context_expr.func.attr == "_new_global_context" for i in n.items)):
                            openers.append(TAGS[cls])
    modelled = {TAGS[k] for k in ("Call", "ExceptHandler", "Expr", "FunctionDef", "Global", "If", "While", "Try")}
    if set(vis) != modelled:
        raise Refuse(f"set of visit_* methods changed: {sorted(vis)} vs modelled {sorted(modelled)}")
    return ("Definition opt_visitors : list N := [" + "; ".join(f"{k}%N" for k in sorted(vis)) + "].\n"
            "Definition opt_ctx_openers : list N := [" + "; ".join(f"{k}%N" for k in sorted(set(openers))) + "].\n")


def item_special():
    """operand order of the `contains` rewrite, use of == for is_/is_not, getitem/delitem present"""
    fn, _ = _dicts()
    contains_swapped = None
    for n in ast.walk(fn):
        if (isinstance(n, ast.If) and isinstance(n.test, ast.Compare) and isinstance(n.test.comparators[0], ast.Constant)
                and n.test.comparators[0].value == "contains"):
            for r in ast.walk(n):
                if isinstance(r, ast.Return) and isinstance(r.value, ast.Call) and ast.unparse(r.value.func) == "ast.Compare":
                    first = ast.unparse(r.value.args[0])
                    contains_swapped = {"arg2": True, "arg1": False}.get(first)
    if contains_swapped is None:
        raise Refuse("contains rewrite not recognised")
    uses_eq = any(isinstance(n, ast.Name) and n.id == "_needs_eq_operator" for n in ast.walk(fn))
    ne = _find_fn(_tree(), "_needs_eq_operator")
    want = "return isinstance(arg, ast.Constant) and all((arg.value is not v for v in (True, False, None, ...)))"
    if ast.unparse(ne.body[-1]) != want:
        raise Refuse("_needs_eq_operator changed: " + ast.unparse(ne.body[-1]))
    src = ast.unparse(fn)
    return (f"Definition opt_contains_swapped : bool := {'true' if contains_swapped else 'false'}.\n"
            f"Definition opt_is_uses_eq : bool := {'true' if uses_eq else 'false'}.\n"
            f"Definition opt_has_getitem : bool := {'true' if chr(39) + 'getitem' + chr(39) in src else 'false'}.\n"
            f"Definition opt_has_delitem : bool := {'true' if chr(39) + 'delitem' + chr(39) in src else 'false'}.\n")


TRY_OLD = ("def visit_Try(self, node):\n    new_node = self.generic_visit(node)\n    assert isinstance(new_node, ast.Try)\n"
           "    return ast.copy_location(ast.Try(body=_filter_dead_code(new_node.body), handlers=new_node.handlers, "
           "orelse=_filter_dead_code(new_node.orelse), finalbody=_filter_dead_code(new_node.finalbody)), new_node)")
TRY_NEW = ("def visit_Try(self, node):\n    new_node = self.generic_visit(node)\n    assert isinstance(new_node, ast.Try)\n"
           "    new_finalbody = _filter_dead_code(new_node.finalbody)\n"
           "    if not new_finalbody and (not new_node.handlers):\n        new_finalbody = [ast.Pass()]\n"
           "    return ast.copy_location(ast.Try(body=_filter_dead_code(new_node.body), handlers=new_node.handlers, "
           "orelse=_filter_dead_code(new_node.orelse), finalbody=new_finalbody), new_node)")


def item_try():
    """visit_Try: does it keep an (empty) `finally` clause when nothing else would be left of the statement?"""
    fn = ast.parse(ast.unparse(_cls_method("visit_Try"))).body[0]
    fn.returns = None
    for a in fn.args.args:
        a.annotation = None
    fn.body = [s_ for s_ in fn.body if not (isinstance(s_, ast.Expr) and isinstance(s_.value, ast.Constant))]
    txt = ast.unparse(ast.fix_missing_locations(fn))
    if txt == TRY_NEW:
        return "Definition opt_try_keeps_finally : bool := true.\n"
    if txt == TRY_OLD:
        return "Definition opt_try_keeps_finally : bool := false.\n"
    raise Refuse("visit_Try no longer has a modelled shape:\n" + txt)


def item_ctx_fresh():
    """does a new `global` context start empty (Python's `global` is per function)?"""
    fn = ast.parse(ast.unparse(_cls_method("_new_global_context"))).body[0]
    fn.body = [s_ for s_ in fn.body if not (isinstance(s_, ast.Expr) and isinstance(s_.value, ast.Constant))]
    fn.decorator_list = []
    txt = ast.unparse(ast.fix_missing_locations(fn))
    shape = ("def _new_global_context(self):\n    self._global_ctx.append(ARG)\n    try:\n        yield\n"
             "    finally:\n        self._global_ctx.pop()")
    for arg, val in (("set()", "true"), ("set(self._global_context)", "false"), ("self._global_context.copy()", "false"),
                     ("set(self._global_ctx[-1])", "false")):
        if txt == shape.replace("ARG", arg):
            return f"Definition opt_ctx_fresh : bool := {val}.\n"
    raise Refuse("_new_global_context no longer has a modelled shape:\n" + txt)


def _only(fn, name):
    def f():
        for line in fn().splitlines():
            if line.startswith(f"Definition {name} "):
                return line + "\n"
        raise Refuse(f"{name} not produced")
    return f


ITEMS = [
    ("opt_binops", _table("binop")),
    ("opt_unaryops", _table("unaryop")),
    ("opt_compareops", _table("compareop")),
    ("opt_isops", _table("isop", pair=True)),
    ("opt_terminators", item_terminators),
    ("opt_expr_droppable", item_expr_droppable),
    ("opt_visitors", _only(item_visitors, "opt_visitors")),
    ("opt_ctx_openers", _only(item_visitors, "opt_ctx_openers")),
    ("opt_contains_swapped", _only(item_special, "opt_contains_swapped")),
    ("opt_is_uses_eq", _only(item_special, "opt_is_uses_eq")),
    ("opt_has_getitem", _only(item_special, "opt_has_getitem")),
    ("opt_has_delitem", _only(item_special, "opt_has_delitem")),
    ("opt_try_keeps_finally", item_try),
    ("opt_ctx_fresh", item_ctx_fresh),
]
