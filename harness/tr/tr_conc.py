"""C12/C13 translator items (fail closed) and the line -> label table of the scheduler.

Re-derived from /repo's working tree on every check:

* `atom_cas_mode`   : which test `Atom._compare_and_set` performs under the lock
      0 = `self._state != old`                        (value equality only; NaN spins)
      1 = `self._state is not old and self._state != old`   (identity first, then equality)
      2 = `self._state is not old`                    (identity only)
  together with the exact statement shape of `_compare_and_set`, `compare_and_set`,
  `deref`, `reset`, `swap` (the model's program points are these statements).
* `delay_deref_mode`: shape of `Delay.deref`
      0 = `return self._state.swap(self.__deref).value`       (body inside the retry loop)
      1 = double-checked: deref; if not computed: with self._lock: swap
* `promise_shape`   : 1 iff `Promise.deliver/deref/is_realized` have the modelled shape.

`labels(path)` gives, for the same files, the map  (function name, line number) -> label
used to project a line-level schedule recorded by harness/vlib/sched.py onto the model's
program points (all other lines of the listed functions are thread-local and silent).
Any statement of a listed function that is not in the expected text raises Refuse.
"""
import ast
import os

from harness.tr.gen_tables import Refuse, _src, _find_class_fn

ATOM = "src/basilisp/lang/atom.py"
REFERENCE = "src/basilisp/lang/reference.py"
DELAY = "src/basilisp/lang/delay.py"
PROMISE = "src/basilisp/lang/promise.py"

CAS_TESTS = {
    "self._state != old": 0,
    "self._state is not old and self._state != old": 1,
    "self._state is not old": 2,
}


def _body(fn):
    return [s for s in fn.body if not (isinstance(s, ast.Expr) and isinstance(s.value, ast.Constant)
                                       and isinstance(s.value.value, str))]


def _norm(fn):
    return "\n".join(ast.unparse(s) for s in _body(fn))


def _atom_tree():
    return ast.parse(_src(ATOM))


ATOM_SHAPES = {
    "compare_and_set": "self._validate(new)\nif self._compare_and_set(old, new):\n"
                       "    self._notify_watches(old, new)\n    return True\nreturn False",
    "deref": "with self._lock:\n    return self._state",
    "reset": "while True:\n    oldval = self._state\n    self._validate(v)\n"
             "    if self._compare_and_set(oldval, v):\n        self._notify_watches(oldval, v)\n"
             "        return v",
    "swap": "while True:\n    oldval = self._state\n    newval = f(oldval, *args, **kwargs)\n"
            "    self._validate(newval)\n    if self._compare_and_set(oldval, newval):\n"
            "        self._notify_watches(oldval, newval)\n        return newval",
}


def cas_mode():
    tree = _atom_tree()
    fn = _find_class_fn(tree, "Atom", "_compare_and_set")
    body = _body(fn)
    if len(body) != 1 or not isinstance(body[0], ast.With):
        raise Refuse("_compare_and_set is not a single `with` block")
    w = body[0]
    if len(w.items) != 1 or ast.unparse(w.items[0]) != "self._lock":
        raise Refuse("_compare_and_set does not take self._lock")
    inner = w.body
    if len(inner) != 3 or not isinstance(inner[0], ast.If):
        raise Refuse("_compare_and_set body is not test / install / return")
    test = ast.unparse(inner[0].test)
    if test not in CAS_TESTS:
        raise Refuse(f"unknown compare-and-set test: {test}")
    if ast.unparse(inner[0].body[0]) != "return False" or inner[0].orelse or len(inner[0].body) != 1:
        raise Refuse("failed test does not `return False`")
    if ast.unparse(inner[1]) != "self._state = new" or ast.unparse(inner[2]) != "return True":
        raise Refuse("install / return True not in the modelled shape")
    for name, shape in ATOM_SHAPES.items():
        got = _norm(_find_class_fn(tree, "Atom", name))
        if got != shape:
            raise Refuse(f"Atom.{name} no longer has the modelled shape:\n{got}")
    rtree = ast.parse(_src(REFERENCE))
    nw = _norm(_find_class_fn(rtree, "RefBase", "_notify_watches"))
    if nw != "for k, wf in self._watches.items():\n    wf(k, self, old, new)":
        raise Refuse("RefBase._notify_watches no longer has the modelled shape:\n" + nw)
    vl = _norm(_find_class_fn(rtree, "RefBase", "_validate"))
    if not vl.startswith("vf = vf or self._validator\nif vf is not None:\n    try:\n        res = vf(val)\n"
                         "    except Exception:\n        res = False\n    if not res:\n        raise ExceptionInfo("):
        raise Refuse("RefBase._validate no longer has the modelled shape:\n" + vl)
    return CAS_TESTS[test]


def item_cas_mode():
    m = cas_mode()
    return (f"Definition atom_cas_mode : N := {m}%N. "
            "(* 0: `!=` only; 1: `is not` then `!=`; 2: `is not` only *)\n")


DELAY_SHAPES = {
    "return self._state.swap(self.__deref).value": 0,
    "state = self._state.deref()\nif not state.computed:\n    with self._lock:\n"
    "        state = self._state.swap(self.__deref)\nreturn state.value": 1,
}
DELAY_INNER = ("if state.computed:\n    return state\nelse:\n"
               "    return _DelayState(f=state.f, value=state.f(), computed=True)")


def delay_mode():
    tree = ast.parse(_src(DELAY))
    got = _norm(_find_class_fn(tree, "Delay", "deref"))
    if got not in DELAY_SHAPES:
        raise Refuse("Delay.deref no longer has a modelled shape:\n" + got)
    inner = _norm(_find_class_fn(tree, "Delay", "__deref"))
    if inner != DELAY_INNER:
        raise Refuse("Delay.__deref no longer has the modelled shape:\n" + inner)
    real = _norm(_find_class_fn(tree, "Delay", "is_realized"))
    if real != "return self._state.deref().computed":
        raise Refuse("Delay.is_realized no longer has the modelled shape:\n" + real)
    return DELAY_SHAPES[got]


def item_delay_mode():
    return (f"Definition delay_deref_mode : N := {delay_mode()}%N. "
            "(* 0: body inside swap's retry loop; 1: double-checked under Delay._lock *)\n")


PROMISE_SHAPES = {
    "deliver": "with self._condition:\n    if not self._is_delivered:\n        self._is_delivered = True\n"
               "        self._value = value\n        self._condition.notify_all()",
    "deref": "with self._condition:\n    if self._condition.wait_for(lambda: self._is_delivered, timeout=timeout):\n"
             "        return self._value\n    else:\n        return timeout_val",
    "is_realized": "with self._condition:\n    return self._is_delivered",
}


def promise_shape():
    tree = ast.parse(_src(PROMISE))
    for name, shape in PROMISE_SHAPES.items():
        got = _norm(_find_class_fn(tree, "Promise", name))
        if got != shape:
            raise Refuse(f"Promise.{name} no longer has the modelled shape:\n{got}")
    return 1


def item_promise_shape():
    return (f"Definition promise_shape : N := {promise_shape()}%N. "
            "(* 1: flag then value then notify_all under the condition; wait_for on the flag *)\n")


FUTURES = "src/basilisp/lang/futures.py"
FUTURE_SHAPES = {
    "try:\n    return self._future.result(timeout=timeout)\nexcept _TimeoutError:\n    return timeout_val": 0,
    "try:\n    return self._future.result(timeout=timeout)\nexcept _TimeoutError:\n"
    "    if self._future.done():\n        return self._future.result()\n    return timeout_val": 1,
}


def future_mode():
    tree = ast.parse(_src(FUTURES))
    got = _norm(_find_class_fn(tree, "Future", "deref"))
    if got not in FUTURE_SHAPES:
        raise Refuse("Future.deref no longer has a modelled shape:\n" + got)
    for name, shape in (("done", "return self._future.done()"), ("is_realized", "return self.done()")):
        g = _norm(_find_class_fn(tree, "Future", name))
        if g != shape:
            raise Refuse(f"Future.{name} no longer has the modelled shape:\n{g}")
    return FUTURE_SHAPES[got]


def item_future_mode():
    return (f"Definition future_deref_mode : N := {future_mode()}%N. "
            "(* 0: TimeoutError -> timeout_val always; 1: only while the future is not done *)\n")


ITEMS = [
    ("future_deref_mode", item_future_mode),
    ("atom_cas_mode", item_cas_mode),
    ("delay_deref_mode", item_delay_mode),
    ("promise_shape", item_promise_shape),
]


# ------------------------------------------------------------------------------------
# line -> label (harness side; same fail-closed discipline)
# ------------------------------------------------------------------------------------
# (file, class, function) -> {statement text (first source line, stripped) -> label}
# Lines of these functions whose text is listed with label None are silent (thread-local).
LABELS = {
    (ATOM, "Atom", "_compare_and_set"): {
        "with self._lock:": "CL",
        "if self._state != old:": "CMP",
        "if self._state is not old and self._state != old:": "CMP",
        "if self._state is not old:": "CMP",
        "return False": None,
        "self._state = new": "SET",
        "return True": None,
    },
    (ATOM, "Atom", "compare_and_set"): {
        "self._validate(new)": None, "if self._compare_and_set(old, new):": None,
        "self._notify_watches(old, new)": None, "return True": None, "return False": None,
    },
    (ATOM, "Atom", "deref"): {"with self._lock:": "DL", "return self._state": "DREAD"},
    (ATOM, "Atom", "reset"): {
        "while True:": None, "oldval = self._state": "READ", "self._validate(v)": None,
        "if self._compare_and_set(oldval, v):": None, "self._notify_watches(oldval, v)": None,
        "return v": None,
    },
    (ATOM, "Atom", "swap"): {
        "while True:": None, "oldval = self._state": "READ",
        "newval = f(oldval, *args, **kwargs)": None, "self._validate(newval)": None,
        "if self._compare_and_set(oldval, newval):": None,
        "self._notify_watches(oldval, newval)": None, "return newval": None,
    },
    (REFERENCE, "RefBase", "_notify_watches"): {
        "for k, wf in self._watches.items():": None, "wf(k, self, old, new)": "NOTIFY",
    },
    (REFERENCE, "RefBase", "_validate"): {"vf = vf or self._validator": "VAL", "*": None},
    (DELAY, "Delay", "deref"): {
        "return self._state.swap(self.__deref).value": None,
        "state = self._state.deref()": None, "if not state.computed:": "QCHK",
        "with self._lock:": "QL", "state = self._state.swap(self.__deref)": None,
        "return state.value": None,
    },
    (DELAY, "Delay", "__deref"): {
        "if state.computed:": "COMPUTE", "return state": None,
        "return _DelayState(f=state.f, value=state.f(), computed=True)": None,
    },
    (DELAY, "Delay", "is_realized"): {"return self._state.deref().computed": None},
    (PROMISE, "Promise", "deliver"): {
        "with self._condition:": "PL", "if not self._is_delivered:": "PCHK",
        "self._is_delivered = True": "PFLAG", "self._value = value": "PVAL",
        "self._condition.notify_all()": "PNOTIFY",
    },
    (PROMISE, "Promise", "deref"): {
        "with self._condition:": "PL",
        "if self._condition.wait_for(lambda: self._is_delivered, timeout=timeout):": "PWF",
        "return self._value": "PGET", "return timeout_val": "PTMO",
    },
    (PROMISE, "Promise", "is_realized"): {"with self._condition:": "PL",
                                          "return self._is_delivered": "PREAL"},
}


def labels():
    """{(basename, lineno): label or None} for every code line of the listed functions.
    Raises Refuse when a line of a listed function has an unexpected text."""
    out = {}
    cache = {}
    for (rel, cls, fn), table in LABELS.items():
        if rel not in cache:
            text = _src(rel)
            cache[rel] = (ast.parse(text), text.splitlines())
        tree, lines = cache[rel]
        node = _find_class_fn(tree, cls, fn)
        base = os.path.basename(rel)
        seen = set()
        for sub in ast.walk(node):
            if not isinstance(sub, ast.stmt) or sub is node:
                continue
            if isinstance(sub, ast.Expr) and isinstance(sub.value, ast.Constant) and \
                    isinstance(sub.value.value, str):
                continue
            ln = sub.lineno
            txt = lines[ln - 1].strip()
            if txt in table:
                out[(base, ln)] = table[txt]
                seen.add(txt)
            elif "*" in table:
                out[(base, ln)] = table["*"]
                # continuation lines of a multi-line statement are silent as well
                for k in range(ln, (sub.end_lineno or ln) + 1):
                    out.setdefault((base, k), table["*"])
            else:
                raise Refuse(f"{rel}:{ln} {cls}.{fn}: unexpected statement `{txt}`")
        for txt, lab in table.items():
            if lab is not None and txt != "*" and txt not in seen and not _optional(rel, fn, txt):
                raise Refuse(f"{rel} {cls}.{fn}: expected statement `{txt}` not found")
    return out


def _optional(rel, fn, txt):
    # alternatives of which exactly one is present
    if fn == "_compare_and_set" and txt.startswith("if self._state"):
        return True
    if rel == DELAY and fn == "deref":
        return True
    return False
