"""C08 translator items (fail closed).

Re-derived from /repo's working tree on every check:

* `arity_dispatch_cmp`     : the comparison the dispatch function of a multi-arity fn emits between
                             `nargs` and `max_fixed_arity` before calling the rest arity
                               0 = `>=` (ast.GtE)     1 = `>` (ast.Gt)       anything else: refused
                             (extracted from the AST-building code of
                             generator.__multi_arity_dispatch_fn; its docstring says `>`, the code `>=`)
* `arity_apply_to_shape`   : 1 iff runtime._fn_apply_to (both closures) and _basilisp_fn are, after
                             removing docstrings/annotations/comments, exactly the text the model
                             `apply_to_lazy` / the eager path transcribe
* `arity_apply_shape`      : 1 iff runtime.apply is the transcribed text
* `arity_unwrap_shape`     : 1 iff runtime._unwrap_rest_args is the transcribed text and
                             generator.__fn_args_to_py_ast binds the rest parameter with
                             `_unwrap_rest_args(rest) if rest else None`
* `arity_partial_shape`    : 1 iff runtime.partial is the transcribed text
* `arity_partial_cmp`      : which of the two modelled texts _update_signature_for_partial (log call
                             removed) has:  0 = `arity > num_args` plus "add 0 if the set is empty and
                             num_args was an arity" (before repair F-08c), 1 = `arity >= num_args`
* `arity_trampoline_shape` : 1 iff runtime._trampoline is the transcribed text, fn recur builds
                             `_TrampolineArgs(<flag>, *exprs)` and loop recur ends in `continue`
* `arity_tramp_nil`        : which of the two modelled texts _TrampolineArgs has: 0 = a final nil is
                             passed on as one rest argument (before repair F-08a), 1 = it is dropped
* `arity_recur_flag`       : the `is_variadic=` flag generator.__multi_arity_fn_to_py_ast gives each
                             arity's recur point: 0 = node.is_variadic (the WHOLE fn; before repair
                             F-08b), 1 = arity.is_variadic
* `arity_analyzer_rule`    : 1 iff analyzer._fn_ast validates arities with the transcribed statements
                             (duplicate fixed arity, one variadic arity, `variadic < fixed` rejected,
                             max_fixed_arity = max over ALL arities)
"""
import ast

from harness.tr.gen_tables import Refuse, _src, _find_fn

RUNTIME = "src/basilisp/lang/runtime.py"
GENERATOR = "src/basilisp/lang/compiler/generator.py"
ANALYZER = "src/basilisp/lang/compiler/analyzer.py"


def _is_doc(s):
    return isinstance(s, ast.Expr) and isinstance(s.value, ast.Constant) and isinstance(s.value.value, str)


def _is_log(s):
    return (isinstance(s, ast.Expr) and isinstance(s.value, ast.Call)
            and isinstance(s.value.func, ast.Attribute) and isinstance(s.value.func.value, ast.Name)
            and s.value.func.value.id == "logger")


class _Strip(ast.NodeTransformer):
    """docstrings, annotations and logger calls do not take part in the comparison"""

    def _fn(self, n):
        self.generic_visit(n)
        n.body = [s for s in n.body if not _is_doc(s)] or [ast.Pass()]
        n.returns = None
        for a in n.args.args + n.args.kwonlyargs + n.args.posonlyargs:
            a.annotation = None
        if n.args.vararg:
            n.args.vararg.annotation = None
        if n.args.kwarg:
            n.args.kwarg.annotation = None
        return n

    visit_FunctionDef = _fn
    visit_AsyncFunctionDef = _fn

    def visit_ClassDef(self, n):
        self.generic_visit(n)
        n.body = [s for s in n.body if not _is_doc(s)] or [ast.Pass()]
        return n

    def visit_AnnAssign(self, n):
        self.generic_visit(n)
        if n.value is None:
            return n
        return ast.copy_location(ast.Assign(targets=[n.target], value=n.value), n)

    def visit_Expr(self, n):
        if _is_log(n):
            return ast.copy_location(ast.Pass(), n)
        return n


def _norm(node):
    node = _Strip().visit(node)
    ast.fix_missing_locations(node)
    return ast.unparse(node)


def _find_class(tree, name):
    for n in tree.body:
        if isinstance(n, ast.ClassDef) and n.name == name:
            return n
    raise Refuse(f"class {name} not found")


def _expect(what, got, want):
    if got != want:
        raise Refuse(f"{what} no longer has the modelled shape:\n{got}")


EXPECT = {}

EXPECT["apply"] = """def apply(f, args):
    if args is None:
        raise TypeError('apply args cannot be nil')
    *final, last = list(args)
    s = to_seq(last)
    if s is not None:
        if getattr(f, '_basilisp_fn', False) and hasattr(f, 'apply_to'):
            return f.apply_to(final, s)
        else:
            final.extend(s)
    return f(*final)"""

EXPECT["_unwrap_rest_args"] = """def _unwrap_rest_args(args):
    assert args, 'Args must be defined'
    *final, last = args
    if isinstance(last, _WrappedRestArgs):
        return concat(final, last.rest)
    return concat(final, [last])"""

EXPECT["_fn_apply_to"] = """def _fn_apply_to(f, arities, max_fixed_arity):
    if _REST_KW in arities:

        @functools.wraps(f)
        def apply_to(args, rest):
            num_missing_args = max_fixed_arity - len(args)
            if num_missing_args > 0:
                remaining = []
                while num_missing_args > 0 and to_seq(rest):
                    assert rest is not None
                    e, rest = (rest.first, rest.rest)
                    remaining.append(e)
                    num_missing_args -= 1
                if to_seq(rest):
                    return f(*args, *remaining, _WrappedRestArgs(rest))
                else:
                    return f(*args, *remaining)
            return f(*args, _WrappedRestArgs(rest))
    else:

        @functools.wraps(f)
        def apply_to(args, rest):
            return f(*concat(args, rest))
    return apply_to"""

EXPECT["_basilisp_fn"] = """def _basilisp_fn(arities, max_fixed_arity):

    def wrap_fn(f):
        assert not hasattr(f, 'meta')
        f._basilisp_fn = True
        f.apply_to = _fn_apply_to(f, arities, max_fixed_arity=max_fixed_arity)
        f.arities = lset.set(arities)
        f.meta = None
        f.with_meta = partial(_fn_with_meta, f)
        return f
    return wrap_fn"""

EXPECT["_update_signature_for_partial:0"] = """def _update_signature_for_partial(f, num_args):
    existing_arities = f.arities
    new_arities = set()
    for arity in existing_arities:
        if isinstance(arity, kw.Keyword):
            new_arities.add(arity)
        elif arity > num_args:
            new_arities.add(arity - num_args)
    if not new_arities:
        if num_args in existing_arities:
            new_arities.add(0)
        else:
            pass
    f.apply_to = _fn_apply_to(f, tuple(new_arities), max_fixed_arity=max((arity for arity in new_arities if isinstance(arity, int)), default=0))
    f.arities = lset.set(new_arities)
    f.meta = None
    f.with_meta = partial(_fn_with_meta, f)"""

EXPECT["_update_signature_for_partial:1"] = """def _update_signature_for_partial(f, num_args):
    existing_arities = f.arities
    new_arities = set()
    for arity in existing_arities:
        if isinstance(arity, kw.Keyword):
            new_arities.add(arity)
        elif arity >= num_args:
            new_arities.add(arity - num_args)
    if not new_arities:
        pass
    f.apply_to = _fn_apply_to(f, tuple(new_arities), max_fixed_arity=max((arity for arity in new_arities if isinstance(arity, int)), default=0))
    f.arities = lset.set(new_arities)
    f.meta = None
    f.with_meta = partial(_fn_with_meta, f)"""

EXPECT["partial"] = """def partial(f, *args, **kwargs):

    @functools.wraps(f)
    def partial_f(*inner_args, **inner_kwargs):
        return f(*args, *inner_args, **{**kwargs, **inner_kwargs})
    if hasattr(partial_f, '_basilisp_fn'):
        _update_signature_for_partial(cast(BasilispFunction, partial_f), len(args))
    return partial_f"""

EXPECT["_trampoline"] = """def _trampoline(f):

    @functools.wraps(f)
    def trampoline(*args, **kwargs):
        while True:
            ret = f(*args, **kwargs)
            if isinstance(ret, _TrampolineArgs):
                args = ret.args
                kwargs = ret.kwargs
                continue
            return ret
    return trampoline"""

EXPECT["_TrampolineArgs:0"] = """class _TrampolineArgs:
    __slots__ = ('_args', '_has_varargs', '_kwargs')

    def __init__(self, has_varargs, *args, **kwargs):
        self._has_varargs = has_varargs
        self._args = args
        self._kwargs = kwargs

    @property
    def args(self):
        if not self._has_varargs:
            return self._args
        try:
            final = self._args[-1]
            if isinstance(final, ISeq):
                inits = self._args[:-1]
                return tuple(itertools.chain(inits, final))
            return self._args
        except IndexError:
            return ()

    @property
    def kwargs(self):
        return self._kwargs"""


EXPECT["_TrampolineArgs:1"] = """class _TrampolineArgs:
    __slots__ = ('_args', '_has_varargs', '_kwargs')

    def __init__(self, has_varargs, *args, **kwargs):
        self._has_varargs = has_varargs
        self._args = args
        self._kwargs = kwargs

    @property
    def args(self):
        if not self._has_varargs:
            return self._args
        try:
            final = self._args[-1]
            if final is None:
                return self._args[:-1]
            if isinstance(final, ISeq):
                inits = self._args[:-1]
                return tuple(itertools.chain(inits, final))
            return self._args
        except IndexError:
            return ()

    @property
    def kwargs(self):
        return self._kwargs"""


def _runtime():
    return ast.parse(_src(RUNTIME))


def _check_fns(names):
    tree = _runtime()
    for name in names:
        node = _find_class(tree, name) if name == "_TrampolineArgs" else _find_fn(tree, name)
        _expect(f"runtime.{name}", _norm(node), EXPECT[name])


def _variant(name):
    """which of the modelled texts EXPECT[name:0], EXPECT[name:1] the source has"""
    tree = _runtime()
    node = _find_class(tree, name) if name == "_TrampolineArgs" else _find_fn(tree, name)
    got = _norm(node)
    for v in (0, 1):
        if got == EXPECT[f"{name}:{v}"]:
            return v
    raise Refuse(f"runtime.{name} has neither of the modelled shapes:\n{got}")


def _gen_fn(name):
    tree = ast.parse(_src(GENERATOR))
    for n in ast.walk(tree):
        if isinstance(n, ast.FunctionDef) and n.name == name:
            return n
    raise Refuse(f"generator.{name} not found")


def _kw(call, name):
    for k in call.keywords:
        if k.arg == name:
            return k.value
    return None


def _is_ast_call(node, attr):
    return (isinstance(node, ast.Call) and isinstance(node.func, ast.Attribute)
            and isinstance(node.func.value, ast.Name) and node.func.value.id == "ast" and node.func.attr == attr)


def item_dispatch_cmp():
    fn = _gen_fn("__multi_arity_dispatch_fn")
    hits = []
    for n in ast.walk(fn):
        if _is_ast_call(n, "Compare"):
            left = _kw(n, "left")
            if left is not None and _is_ast_call(left, "Name") and ast.unparse(_kw(left, "id")) == "nargs_name":
                hits.append(n)
    if len(hits) != 1:
        raise Refuse(f"expected exactly one comparison of nargs in the dispatch function, found {len(hits)}")
    cmp_ = hits[0]
    ops, comps = _kw(cmp_, "ops"), _kw(cmp_, "comparators")
    if not (isinstance(ops, ast.List) and len(ops.elts) == 1 and isinstance(ops.elts[0], ast.Call)):
        raise Refuse("unexpected `ops` of the nargs comparison: " + ast.unparse(cmp_))
    if ast.unparse(comps) != "[ast.Constant(max_fixed_arity)]":
        raise Refuse("nargs is not compared with max_fixed_arity: " + ast.unparse(comps))
    op = ast.unparse(ops.elts[0])
    code = {"ast.GtE()": 0, "ast.Gt()": 1}.get(op)
    if code is None:
        raise Refuse(f"unknown comparison operator {op}")
    # the fixed arities must be tried first, through the dispatch map
    txt = ast.unparse(fn)
    for needle in ("attr='get'", "ast.Compare(left=ast.Constant(None), ops=[ast.IsNot()], comparators=[ast.Name(id=arity_name, ctx=ast.Load())])"):
        if needle not in txt:
            raise Refuse(f"dispatch function no longer contains {needle}")
    return (f"Definition arity_dispatch_cmp : N := {code}%N. "
            f"(* {op}: default(*args) is called when nargs {'>=' if code == 0 else '>'} max_fixed_arity *)\n"
            .replace("(*args)", "( *args)"))


def _flag(name, what):
    return f"Definition {name} : N := 1%N. (* {what} *)\n"


def item_apply_to_shape():
    _check_fns(["_fn_apply_to", "_basilisp_fn"])
    return _flag("arity_apply_to_shape", "_fn_apply_to: num_missing_args loop, _WrappedRestArgs; eager variant")


def item_apply_shape():
    _check_fns(["apply"])
    return _flag("arity_apply_shape", "apply: to_seq(last); apply_to only for _basilisp_fn objects")


def item_unwrap_shape():
    _check_fns(["_unwrap_rest_args"])
    fn = _gen_fn("__fn_args_to_py_ast")
    ifexps = [n for n in ast.walk(fn) if _is_ast_call(n, "IfExp")]
    if len(ifexps) != 1:
        raise Refuse("expected one ast.IfExp in __fn_args_to_py_ast")
    want = ("ast.IfExp(test=ast.Name(id=arg_name, ctx=ast.Load()), "
            "body=ast.Call(func=_UNWRAP_REST_ARGS_FN_NAME, args=[ast.Name(id=arg_name, ctx=ast.Load())], keywords=[]), "
            "orelse=ast.Constant(None))")
    _expect("generator rest-parameter binding", ast.unparse(ifexps[0]), want)
    return _flag("arity_unwrap_shape", "rest = _unwrap_rest_args(rest) if rest else None")


def item_partial_shape():
    _check_fns(["partial"])
    return _flag("arity_partial_shape", "partial_f( *inner) = f( *args, *inner); signature updated for _basilisp_fn objects")


def item_partial_cmp():
    v = _variant("_update_signature_for_partial")
    return (f"Definition arity_partial_cmp : N := {v}%N. "
            f"(* {'a - n kept for a >= n' if v else 'a - n kept for a > n; 0 added only to an empty set'} *)\n")


def item_tramp_nil():
    v = _variant("_TrampolineArgs")
    return (f"Definition arity_tramp_nil : N := {v}%N. "
            f"(* a final nil of a variadic recur is {'dropped' if v else 'passed on as one rest argument'} *)\n")


def _recur_points():
    res = {}
    for fname in ("__single_arity_fn_to_py_ast", "__multi_arity_fn_to_py_ast"):
        fn = _gen_fn(fname)
        pts = [n for n in ast.walk(fn) if isinstance(n, ast.Call) and ast.unparse(n.func) == "ctx.new_recur_point"]
        if len(pts) != 1:
            raise Refuse(f"{fname}: expected one new_recur_point call")
        if [ast.unparse(a) for a in pts[0].args][1:] != ["RecurType.FN"]:
            raise Refuse(f"{fname}: recur point is not RecurType.FN")
        flag = _kw(pts[0], "is_variadic")
        res[fname] = ast.unparse(flag) if flag is not None else None
    return res


def item_recur_flag():
    pts = _recur_points()
    if pts["__single_arity_fn_to_py_ast"] != "node.is_variadic":
        raise Refuse(f"single-arity recur point flag is {pts['__single_arity_fn_to_py_ast']}")
    v = {"node.is_variadic": 0, "arity.is_variadic": 1}.get(pts["__multi_arity_fn_to_py_ast"])
    if v is None:
        raise Refuse(f"multi-arity recur point flag is {pts['__multi_arity_fn_to_py_ast']}")
    return (f"Definition arity_recur_flag : N := {v}%N. "
            f"(* recur splices a final seq when {'the arity it is in' if v else 'any arity of the fn'} is variadic *)\n")


def item_trampoline_shape():
    _check_fns(["_trampoline"])
    _recur_points()
    rec = _gen_fn("__fn_recur_to_py_ast")
    if "args=list(chain([ast.Constant(ctx.recur_point.is_variadic)], recur_nodes))" not in ast.unparse(rec):
        raise Refuse("__fn_recur_to_py_ast no longer builds _TrampolineArgs(is_variadic, *exprs)")
    loop = _gen_fn("__loop_recur_to_py_ast")
    if "recur_deps.append(ast.Continue())" not in ast.unparse(loop):
        raise Refuse("__loop_recur_to_py_ast no longer ends in `continue`")
    return _flag("arity_trampoline_shape", "while True: ret = f( *args); if _TrampolineArgs: continue; "
                                           "fn recur = _TrampolineArgs(flag, exprs); loop recur = assign + continue")


ANALYZER_STMTS = [
    "for arity in arities:\n"
    "    if arity.is_variadic:\n"
    "        if num_variadic > 0:\n"
    "            raise ctx.AnalyzerException('fn may have at most 1 variadic arity', form=arity.form)\n"
    "        fixed_arity_for_variadic = arity.fixed_arity\n"
    "        num_variadic += 1\n"
    "    else:\n"
    "        if arity.fixed_arity in fixed_arities:\n"
    "            raise ctx.AnalyzerException('fn may not have multiple methods with the same fixed arity', form=arity.form)\n"
    "        fixed_arities.add(arity.fixed_arity)",
    "if fixed_arity_for_variadic is not None and any((fixed_arity_for_variadic < arity for arity in fixed_arities)):\n"
    "    raise ctx.AnalyzerException('variadic arity may not have fewer fixed arity arguments than any other arities', form=form)",
]


def item_analyzer_rule():
    tree = ast.parse(_src(ANALYZER))
    fn = None
    for n in ast.walk(tree):
        if isinstance(n, ast.FunctionDef) and n.name == "_fn_ast":
            fn = n
    if fn is None:
        raise Refuse("analyzer._fn_ast not found")
    have = [ast.unparse(s) for s in ast.walk(fn) if isinstance(s, ast.stmt)]
    for want in ANALYZER_STMTS:
        if want not in have:
            raise Refuse("analyzer._fn_ast no longer contains:\n" + want)
    if "max_fixed_arity=max((node.fixed_arity for node in arities))" not in ast.unparse(fn):
        raise Refuse("max_fixed_arity is no longer the maximum over all arities")
    if "assert nmethods > 0, 'fn must have at least one arity'" not in have:
        raise Refuse("the at-least-one-arity assertion is gone")
    return _flag("arity_analyzer_rule", "one variadic arity at most; distinct fixed arities; variadic >= every fixed; "
                                        "max_fixed_arity over all arities")


ITEMS = [
    ("arity_dispatch_cmp", item_dispatch_cmp),
    ("arity_apply_to_shape", item_apply_to_shape),
    ("arity_apply_shape", item_apply_shape),
    ("arity_unwrap_shape", item_unwrap_shape),
    ("arity_partial_shape", item_partial_shape),
    ("arity_partial_cmp", item_partial_cmp),
    ("arity_trampoline_shape", item_trampoline_shape),
    ("arity_tramp_nil", item_tramp_nil),
    ("arity_recur_flag", item_recur_flag),
    ("arity_analyzer_rule", item_analyzer_rule),
]
