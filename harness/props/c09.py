"""C09 -- Syntax-quote is hygienic and destructuring binds what nth/get would return."""
import itertools
import os

from harness.vlib import gallina as G
from harness.vlib import paths
from harness.props import c09_common as K

ID = "C09"
TITLE = "Syntax-quote is hygienic and destructuring binds what nth/get would return"
CORR = "Verif.C09.Corr"
CORR_TARGETS = ["theories/C09/Corr.vo"]
TARGETS = ["theories/Properties/C09.vo"]
PROPERTIES_FILE = "theories/Properties/C09.v"
IMPL = "harness.props.c09_impl"
TABLE_DEPS = ["sq_special_forms", "sq_builders", "sq_resolve_shape", "sq_expand_shape"]
SHARD = 500
RULE = ("destructuring: every pattern shape of a structured family of depth <= 2 (thorough: 3) over the "
        "documented vocabulary (symbols, vector patterns with & and :as, map patterns with :keys/:strs/:syms, "
        "namespaced groups and elements, {pattern key} entries, :or, :as, kwargs rest) crossed with "
        "conforming / short / nil / wrongly typed values (number, string, keyword, map for vector, vector "
        "for map, kwargs seq, singleton seq, odd seq) at top level and inside, through let, fn parameters "
        "and loop (with one recur); one case in three also compiles the macroexpansion of the form; "
        ":or defaults range over false / nil / true / 0 / integers / a string / a keyword, and for each of 12 "
        "kinds of map binder (:keys, :keys [ns/x], :ns/keys, :strs, :syms, :syms [ns/x], :ns/syms, {sym key} "
        "with keyword / namespaced keyword / string / symbol / integer key) all seven defaults meet a key "
        "that is absent, present with nil, present with false, present with a value (also mixed, nil instead "
        "of the map, kwargs seq, kwargs rest parameter). "
        "syntax-quote: all templates of one collection with <= 2 elements over a 14-element vocabulary "
        "(core / interned / aliased / referred / special / undefined / & / .member symbols, two auto-gensyms, "
        "atoms, unquote, unquote-splice) in each of list/vector/set/map and 4 namespace states, PRNG "
        "templates of depth 2 (thorough: 3), ill-formed uses included (splice of a non-seqable value: "
        "TypeError; map literal with an odd number of elements after splicing: IndexError; the value is "
        "realised completely, so an error deferred by the lazy concat counts as raised) but EXCLUDING PRNG "
        "templates that contain ill-formed uses of both classes at once (which of the two errors surfaces "
        "first depends on the laziness of concat, not modelled); hygiene: every vocabulary symbol x 2 use-site namespaces x "
        "shadowing locals.  A case is non-trivial when it binds at least two names or has a hole / a symbol.")
TRUSTED = [
    "nth / nthnext / get / seq? / next / first / apply hash-map / -collect-keyword-args are the oracle: "
    "abstract in the theorems (C09/DLang.v oracle record), the executable instance C09/Values.v is tied by "
    "the correspondence run only",
    "the evaluator of the code the reader emits (seq, concat, list, apply vector/hash-map/hash-set, quote) in "
    "C09/SyntaxQuote.v is a model of those core functions on realized collections",
    "analyzer symbol resolution at the use site (C09/SQSpec.v denote) is a model of analyzer.py "
    "__resolve_namespaced_symbol / __resolve_bare_symbol, tied by the hygiene cases only",
    "let* evaluates its bindings sequentially and a later binding shadows (C01's subject)",
]
ASSUMPTIONS = [
    "user code never writes a name gensym/genname will produce (vec_arg__N, map_arg__N, x_N): generated names "
    "are a separate constructor in the models",
    "map and set literals are given to the models in the order in which the reader iterates them (the worker "
    "reports that order for templates; destructuring map patterns with several entries are generated with "
    "pairwise distinct binders and closed expressions, for which the order is immaterial)",
    "nested syntax-quotes, metadata on template symbols and reader conditionals inside templates are not modelled",
    "patterns whose :as name is re-bound inside the same pattern are outside the guard (alias_ok)",
    "the syntax-quote evaluator model is strict, basilisp's concat is lazy: a list template `(a ~@x) with a "
    "non-seqable x evaluates to a lazy seq that raises TypeError only when walked; the correspondence realises "
    "the whole value and counts that as raised.  In a template with ill-formed uses of two different classes "
    "(non-seqable splice AND odd map literal) both sides raise but possibly different classes "
    "(`[(1 ~@5) {1 ~@nil}]`: IndexError, model TypeError): such templates are outside what is compared",
]
EXHAUSTIVE = {"quick": False, "thorough": False}
HARD_TIMEOUT = 60
# Sensitivity runs: VERIF_C09_SRC=<copy of /repo/src> makes the implementation workers import basilisp from
# that copy (the native overlay, the translator and the Coq side keep looking at /repo).
_SRC = os.environ.get("VERIF_C09_SRC")
if _SRC:
    WORKER_ENV = {"PYTHONPATH": _SRC + os.pathsep + paths.VERIF}


# =========================================================================================
# destructuring generators
# =========================================================================================
class Ctx:
    def __init__(self, rng):
        self.rng = rng
        self.n = 0
        self.leaf = 0
        self.od = 0

    def name(self):
        self.n += 1
        return "b%d" % self.n

    def val(self):
        self.leaf += 1
        return self.leaf

    def ordef(self, j):
        """The next :or default: cycles through falsey / truthy constants of every atom kind."""
        self.od += 1
        pool = OR_DEFAULTS + [100 + j]
        return pool[(self.od - 1) % len(pool)]


def KW(name, ns=None):
    return {"k": [ns, name]}


# :or defaults: `:or` applies when the map does not CONTAIN the key, whatever the truthiness of the default
# form: a literal false / nil default is a default like any other (false must come out as false, not nil)
OR_DEFAULTS = [False, None, True, 0, 41, {"s": "dflt"}, {"k": [None, "dk"]}]


def SY(name, ns=None):
    return {"y": [ns, name]}


def sym_pat(cx):
    return {"sym": cx.name()}, cx.val()


def vec_pat(cx, kids, rest=False, as_=False, seq=False):
    """kids: list of (pattern, value)."""
    p = {"vec": [k[0] for k in kids], "rest": cx.name() if rest else None, "as": cx.name() if as_ else None}
    vals = [k[1] for k in kids]
    if rest:
        vals += [cx.val(), cx.val()]
    return p, ({"l": vals} if seq else {"v": vals})


def map_pat(cx, keys=0, nskeys=(), strs=0, syms=(), entries=(), ors=(), as_=False, grp_ns=None):
    """keys: number of plain :keys names; nskeys: namespaces of extra `:keys [ns/x]` elements;
    grp_ns: namespace of one extra `:<ns>/keys [x]` group; syms: namespaces (None = plain) of :syms
    elements; entries: list of ((pattern, value), keykind)."""
    p = {"map": 1, "kgroups": [], "strs": [], "sgroups": [], "entries": [], "ors": [], "as": None}
    m = []
    binders = []
    plain = []
    for _ in range(keys):
        n = cx.name()
        plain.append([None, n])
        m.append([KW(n), cx.val()])
        binders.append(n)
    for ns in nskeys:
        n = cx.name()
        plain.append([ns, n])
        m.append([KW(n, ns), cx.val()])
        binders.append(n)
    if plain:
        p["kgroups"].append([None, plain])
    if grp_ns:
        n = cx.name()
        p["kgroups"].append([grp_ns, [[None, n]]])
        m.append([KW(n, grp_ns), cx.val()])
        binders.append(n)
    for _ in range(strs):
        n = cx.name()
        p["strs"].append(n)
        m.append([{"s": n}, cx.val()])
        binders.append(n)
    sy = []
    for ns in syms:
        n = cx.name()
        sy.append([ns, n])
        m.append([SY(n, ns), cx.val()])
        binders.append(n)
    if sy:
        p["sgroups"].append([None, sy])
    seen_pats = set()
    for i, ((q, v), kind) in enumerate(entries):
        # two binder-less sub-patterns (e.g. `[]` twice) would be a duplicate key of the pattern map
        # literal, which the reader rejects: not a program
        if repr(q) in seen_pats:
            continue
        seen_pats.add(repr(q))
        if kind == "kw":
            key = KW("k%d" % i)
        elif kind == "nskw":
            key = KW("k%d" % i, "q")
        elif kind == "str":
            key = {"s": "k%d" % i}
        elif kind == "int":
            key = 10 + i
        else:
            key = SY("k%d" % i, "q" if kind == "nssym" else None)
        p["entries"].append([q, {"c": key}])
        m.append([key, v])
        if "sym" in q:
            binders.append(q["sym"])
    for j in ors:
        if j < len(binders):
            p["ors"].append([binders[j], {"c": cx.ordef(j)}])
    if as_:
        p["as"] = cx.name()
    return p, {"m": m}


def binders_of(p):
    if "sym" in p:
        return [p["sym"]]
    if "vec" in p:
        out = [p["as"]] if p.get("as") else []
        for c in p["vec"]:
            out += binders_of(c)
        if p.get("rest"):
            out.append(p["rest"])
        return out
    out = [p["as"]] if p.get("as") else []
    for _, xs in p["kgroups"]:
        out += [n for _, n in xs]
    out += p["strs"]
    for _, xs in p["sgroups"]:
        out += [n for _, n in xs]
    for q, _ in p["entries"]:
        out += binders_of(q)
    return out


def depth_of(p):
    if "sym" in p:
        return 0
    kids = p["vec"] if "vec" in p else [q for q, _ in p["entries"]]
    return 1 + max([depth_of(k) for k in kids] + [0])


def shapes(cx, depth, rng, full):
    """A structured family of (pattern, conforming value) of nesting depth <= depth."""
    def leaf():
        return sym_pat(cx)

    def sub(d):
        # a sub-pattern of depth <= d
        if d == 0:
            return leaf()
        return rng.choice(list(level(d, False)))

    def level(d, wide):
        if d == 0:
            yield leaf()
            return
        s = lambda: sub(d - 1)
        nest = lambda: (rng.choice(list(level(d - 1, False))) if d > 1 else None)
        # vectors
        yield vec_pat(cx, [])
        yield vec_pat(cx, [leaf()])
        yield vec_pat(cx, [leaf(), leaf()], rest=True)
        yield vec_pat(cx, [leaf(), leaf()], as_=True)
        yield vec_pat(cx, [leaf()], rest=True, as_=True, seq=True)
        yield vec_pat(cx, [], rest=True)
        yield vec_pat(cx, [], as_=True)
        yield vec_pat(cx, [leaf(), leaf(), leaf()], seq=True)
        # maps
        yield map_pat(cx)
        yield map_pat(cx, keys=2)
        yield map_pat(cx, keys=2, ors=[1], as_=True)
        yield map_pat(cx, keys=1, nskeys=["q"], grp_ns="r")
        yield map_pat(cx, strs=2, ors=[0])
        yield map_pat(cx, syms=[None, "q"], ors=[1])
        yield map_pat(cx, entries=[(leaf(), "kw"), (leaf(), "sym")], ors=[0, 1])
        yield map_pat(cx, entries=[(leaf(), "nssym"), (leaf(), "str"), (leaf(), "int")], ors=[0], as_=True)
        yield map_pat(cx, keys=1, strs=1, syms=[None], entries=[(leaf(), "nskw")], ors=[0, 1, 2, 3], as_=True)
        if d > 1:
            # nesting: the children have depth <= d-1
            yield vec_pat(cx, [s()])
            yield vec_pat(cx, [s(), leaf()], rest=True)
            yield vec_pat(cx, [leaf(), s()], as_=True)
            yield vec_pat(cx, [s(), s()], rest=True, as_=True)
            yield vec_pat(cx, [s(), leaf(), s()], seq=True)
            yield map_pat(cx, entries=[(s(), "kw")])
            yield map_pat(cx, keys=1, entries=[(s(), "kw"), (leaf(), "sym")], ors=[0, 1], as_=True)
            yield map_pat(cx, entries=[(s(), "str"), (s(), "kw")], as_=True)
            yield map_pat(cx, keys=1, entries=[(leaf(), "kw"), (s(), "int")], ors=[1])

    reps = 3 if not full else 8
    for _ in range(reps):
        for d in range(0, depth + 1):
            if d <= 1:
                yield from level(d, True)
            else:
                # deeper levels: only the shapes that actually nest, more of them
                for _ in range(3):
                    yield from itertools.islice(level(d, True), 17, None)


# ---- value variants ---------------------------------------------------------------------
WRONG = [7, {"s": "xy"}, KW("w"), True]


def variants(p, v, rng):
    """(label, value) variants of the conforming value v for pattern p."""
    yield "conform", v
    yield "nil", None
    if "vec" in p:
        items = v.get("v", v.get("l"))
        key = "v" if "v" in v else "l"
        if items:
            yield "short", {key: items[:-1]}
            yield "short0", {key: []}
        yield "aslist", {"l": list(items)}
        yield "long", {key: list(items) + [90, 91]}
        for w in WRONG:
            yield "wrong", w
        yield "wrong-map", {"m": [[KW("a"), 1]]}
        yield "wrong-set", {"set": [1]}
        for i, c in enumerate(p["vec"]):
            if "sym" not in c:
                for w in (None, 7, {"s": "pq"}):
                    it = list(items)
                    it[i] = w
                    yield "inner", {key: it}
    elif "map" in p:
        m = v["m"]
        if m:
            yield "short", {"m": m[1:]}
            yield "short1", {"m": m[:1]}
            yield "nilval", {"m": [[m[0][0], None]] + m[1:]}
        yield "empty", {"m": []}
        flat = [x for kv in m for x in kv]
        yield "kwargs", {"l": flat}
        yield "single", {"l": [v]}
        if flat:
            yield "odd", {"l": flat[:-1]}
        yield "emptyseq", {"l": []}
        for w in WRONG:
            yield "wrong", w
        yield "wrong-vec", {"v": [5, 6]}
        yield "wrong-set", {"set": [m[0][0]] if m else [1]}
        ent = [i for i, (q, _) in enumerate(p["entries"]) if "sym" not in q]
        base = len(m) - len(p["entries"])
        for i in ent:
            for w in (None, 7):
                mm = [list(kv) for kv in m]
                mm[base + i][1] = w
                yield "inner", {"m": mm}
    else:
        for w in WRONG + [{"v": [1, 2]}, {"l": [1]}, {"m": [[KW("a"), 1]]}, KW("n", "q"), SY("s", "q")]:
            yield "any", w


def d_cases(tier, rng):
    depth = 2 if tier == "quick" else 3
    cx = Ctx(rng)
    fam = []
    for p, v in shapes(cx, depth, rng, tier != "quick"):
        fam.append((p, v))
    cnt = 0
    for p, v in fam:
        outs = binders_of(p)
        vs = list(variants(p, v, rng))
        if tier == "quick" and len(vs) > 9:
            head = [x for x in vs if x[0] in ("conform", "nil", "short", "kwargs", "inner")]
            tail = [x for x in vs if x not in head]
            vs = head + rng.sample(tail, min(len(tail), 9 - min(9, len(head))))
        for label, val in vs:
            cnt += 1
            mx = cnt % 3 == 0
            form = cnt % 5
            if form in (0, 1, 2):
                yield {"k": "let", "fam": "gen", "lab": label, "bs": [[p, {"c": val}]], "outs": outs, "mx": mx}
            elif form == 3:
                yield {"k": "fn", "fam": "gen", "lab": label, "ps": [p], "rest": None, "args": [val],
                       "outs": outs, "mx": mx}
            else:
                # first iteration on the conforming value, second on the variant
                yield {"k": "loop", "fam": "gen", "lab": label, "bs": [[p, {"c": v}]], "rec": [val],
                       "outs": outs, "mx": mx}
    # fn with a rest pattern / several parameters; let with several pairs; loop with several bindings
    for i, (p, v) in enumerate(fam):
        if i % 4:
            continue
        j = (i * 7 + 3) % len(fam)
        if j == i:
            j = (j + 1) % len(fam)
        q, w = fam[j]
        outs = binders_of(p) + binders_of(q)
        if "vec" in q:
            rest_args = w.get("v", w.get("l"))
        elif "map" in q:
            flat = [x for kv in w["m"] for x in kv]
            rest_args = flat if i % 8 else ([w] if w["m"] else [])
        else:
            rest_args = [1, 2]
        yield {"k": "fn", "fam": "rest", "lab": "rest", "ps": [p], "rest": q, "args": [v] + rest_args,
               "outs": outs, "mx": i % 3 == 0}
        yield {"k": "fn", "fam": "rest", "lab": "norest", "ps": [p], "rest": q, "args": [v], "outs": outs,
               "mx": False}
        yield {"k": "fn", "fam": "two", "lab": "two", "ps": [p, q], "rest": None, "args": [v, w], "outs": outs,
               "mx": False}
        yield {"k": "let", "fam": "two", "lab": "two", "bs": [[p, {"c": v}], [q, {"c": w}]], "outs": outs,
               "mx": i % 3 == 1}
        yield {"k": "loop", "fam": "two", "lab": "two", "bs": [[p, {"c": v}], [q, {"c": w}]], "rec": [v, None],
               "outs": outs, "mx": False}
        yield {"k": "loop", "fam": "norec", "lab": "norec", "bs": [[p, {"c": v}], [q, {"c": w}]], "rec": None,
               "outs": outs, "mx": False}
    yield from d_or_cases()
    yield from d_fixed()


# ---- :or defaults of every truthiness -----------------------------------------------------
OR_KINDS = ["keys", "keys-ns-elem", "keys-ns-group", "strs", "syms", "syms-ns-elem", "syms-ns-group",
            "entry-kw", "entry-nskw", "entry-str", "entry-sym", "entry-int"]


def or_pattern(kind, names, defaults, as_=None):
    """A map pattern whose binders `names` are all of one `kind`, binder i with :or default defaults[i];
    returns (pattern, keys): keys[i] = the key under which binder i looks."""
    p = {"map": 1, "kgroups": [], "strs": [], "sgroups": [], "entries": [], "ors": [], "as": as_}
    keys = []
    for i, n in enumerate(names):
        if kind == "keys":
            keys.append(KW(n))
        elif kind == "keys-ns-elem":
            keys.append(KW(n, "q"))
        elif kind == "keys-ns-group":
            keys.append(KW(n, "r"))
        elif kind == "strs":
            keys.append({"s": n})
        elif kind == "syms":
            keys.append(SY(n))
        elif kind == "syms-ns-elem":
            keys.append(SY(n, "q"))
        elif kind == "syms-ns-group":
            keys.append(SY(n, "r"))
        elif kind == "entry-kw":
            keys.append(KW("k%d" % i))
        elif kind == "entry-nskw":
            keys.append(KW("k%d" % i, "q"))
        elif kind == "entry-str":
            keys.append({"s": "k%d" % i})
        elif kind == "entry-sym":
            keys.append(SY("k%d" % i))
        else:
            keys.append(10 + i)
    if kind == "keys":
        p["kgroups"] = [[None, [[None, n] for n in names]]]
    elif kind == "keys-ns-elem":
        p["kgroups"] = [[None, [["q", n] for n in names]]]
    elif kind == "keys-ns-group":
        p["kgroups"] = [["r", [[None, n] for n in names]]]
    elif kind == "strs":
        p["strs"] = list(names)
    elif kind == "syms":
        p["sgroups"] = [[None, [[None, n] for n in names]]]
    elif kind == "syms-ns-elem":
        p["sgroups"] = [[None, [["q", n] for n in names]]]
    elif kind == "syms-ns-group":
        p["sgroups"] = [["r", [[None, n] for n in names]]]
    else:
        p["entries"] = [[{"sym": n}, {"c": k}] for n, k in zip(names, keys)]
    p["ors"] = [[n, {"c": d}] for n, d in zip(names, defaults)]
    return p, keys


def or_wrap(cnt, p, v, outs, lab):
    """the pattern through let / fn parameter / loop with a recur onto the value, in turn"""
    mx = cnt % 3 == 0
    form = cnt % 4
    if form in (0, 1):
        return {"k": "let", "fam": "ordef", "lab": lab, "bs": [[p, {"c": v}]], "outs": outs, "mx": mx}
    if form == 2:
        return {"k": "fn", "fam": "ordef", "lab": lab, "ps": [p], "rest": None, "args": [v], "outs": outs,
                "mx": mx}
    return {"k": "loop", "fam": "ordef", "lab": lab, "bs": [[p, {"c": {"m": []}}]], "rec": [v], "outs": outs,
            "mx": mx}


def d_or_cases():
    """:or defaults false / nil / true / 0 / integer / string / keyword for every kind of map binder, on
    values where the key is absent, present with nil, present with false, present with a value."""
    cnt = 0
    names = ["o%d" % i for i in range(len(OR_DEFAULTS))]
    for kind in OR_KINDS:
        p, keys = or_pattern(kind, names, OR_DEFAULTS)
        sit = {
            "or-absent": {"m": [[KW("other"), 1]]},
            "or-nil-present": {"m": [[k, None] for k in keys]},
            "or-false-present": {"m": [[k, False] for k in keys]},
            "or-present": {"m": [[k, 200 + i] for i, k in enumerate(keys)]},
            # binder i: absent / nil / false / value in turn (rotated so that every default meets every
            # situation over the two mixed cases and the four uniform ones)
            "or-mixed": {"m": [[k, [None, False, 200 + i][i % 4 - 1]] for i, k in enumerate(keys) if i % 4]},
            "or-mixed2": {"m": [[k, [None, False, 200 + i][(i + 2) % 4 - 1]] for i, k in enumerate(keys)
                                if (i + 2) % 4]},
            "or-nil-value": None,
            "or-kwargs-absent": {"l": [KW("other"), 1]},
        }
        for lab, v in sit.items():
            cnt += 1
            yield or_wrap(cnt, p, v, names, lab)
        # the smallest witnesses: one binder, falsey default, empty map
        for d in (False, None):
            cnt += 1
            q, _ = or_pattern(kind, ["a"], [d])
            yield {"k": "let", "fam": "ordef", "lab": "or-absent-1", "bs": [[q, {"c": {"m": []}}]], "outs": ["a"],
                   "mx": cnt % 2 == 0}
    # kwargs rest pattern without surplus arguments, and with the other key only
    for kind in ("keys", "strs", "syms", "entry-kw"):
        p, keys = or_pattern(kind, names, OR_DEFAULTS, as_="m")
        yield {"k": "fn", "fam": "ordef", "lab": "or-rest-none", "ps": [{"sym": "x"}], "rest": p, "args": [0],
               "outs": names + ["m"], "mx": False}
        yield {"k": "fn", "fam": "ordef", "lab": "or-rest-some", "ps": [{"sym": "x"}], "rest": p,
               "args": [0, keys[0], False, keys[1], 5, keys[2], None], "outs": names + ["m"], "mx": False}


def P_sym(n):
    return {"sym": n}


def P_vec(kids, rest=None, as_=None):
    return {"vec": kids, "rest": rest, "as": as_}


def P_map(keys=(), entries=(), ors=(), as_=None, strs=(), syms=()):
    return {"map": 1, "kgroups": [[None, [[None, k] for k in keys]]] if keys else [], "strs": list(strs),
            "sgroups": [[None, [[None, k] for k in syms]]] if syms else [], "entries": list(entries),
            "ors": list(ors), "as": as_}


def d_fixed():
    """Hand-written cases: scoping, duplicate binders, the repaired defects, the open finding."""
    C = lambda v: {"c": v}
    X = lambda n: {"x": n}
    V = lambda *xs: {"v": list(xs)}
    M = lambda *kvs: {"m": [list(kv) for kv in kvs]}
    # F-09a (repaired): the key of a {sym key} entry with an :or default is evaluated, not quoted
    yield {"k": "let", "fam": "f09a", "lab": "quoted-sym-key", "mx": True, "outs": ["a"],
           "bs": [[P_map(entries=[[P_sym("a"), C(SY("x"))]], ors=[["a", C(1)]]), C(M([SY("x"), 5]))]]}
    yield {"k": "let", "fam": "f09a", "lab": "local-key", "mx": True, "outs": ["a"],
           "bs": [[P_sym("k"), C(KW("x"))],
                  [P_map(entries=[[P_sym("a"), X("k")]], ors=[["a", C(1)]]), C(M([KW("x"), 5]))]]}
    yield {"k": "let", "fam": "f09a", "lab": "nssym-key", "mx": False, "outs": ["b"],
           "bs": [[P_map(entries=[[P_sym("b"), C(SY("b", "a"))]], ors=[["b", C(1)]]), C(M([SY("b", "a"), 7]))]]}
    # F-09b (repaired): nested patterns are destructured once, before their later siblings
    inner = P_map(keys=["a"], ors=[["a", X("b")]])
    yield {"k": "let", "fam": "f09b", "lab": "default-sees-outer", "mx": True, "outs": ["a", "b"],
           "bs": [[P_sym("b"), C(1)], [P_vec([inner, P_sym("b")]), C(V(M(), 2))]]}
    yield {"k": "let", "fam": "f09b", "lab": "dup-later-wins", "mx": False, "outs": ["a"],
           "bs": [[P_vec([P_vec([P_sym("a")]), P_sym("a")]), C(V(V(1), 2))]]}
    yield {"k": "fn", "fam": "f09b", "lab": "default-sees-outer-fn", "mx": False, "outs": ["a", "b"],
           "ps": [P_sym("b"), P_vec([P_vec([inner]), P_sym("b")])], "rest": None, "args": [1, V(V(M()), 2)]}
    # duplicate plain binders: the later binding wins
    yield {"k": "let", "fam": "dup", "lab": "vec", "mx": False, "outs": ["a"],
           "bs": [[P_vec([P_sym("a"), P_sym("a")]), C(V(1, 2))]]}
    yield {"k": "let", "fam": "dup", "lab": "rest", "mx": False, "outs": ["a"],
           "bs": [[P_vec([P_sym("a")], rest="a"), C(V(1, 2))]]}
    yield {"k": "let", "fam": "dup", "lab": "keys-entry", "mx": False, "outs": ["a"],
           "bs": [[P_map(keys=["a"], entries=[[P_sym("a"), C(KW("z"))]]), C(M([KW("a"), 1], [KW("z"), 2]))]]}
    # :or : only for an absent key; a default may use an earlier binder of the same :keys vector
    yield {"k": "let", "fam": "or", "lab": "nil-present", "mx": False, "outs": ["a"],
           "bs": [[P_map(keys=["a"], ors=[["a", C(1)]]), C(M([KW("a"), None]))]]}
    yield {"k": "let", "fam": "or", "lab": "sibling", "mx": True, "outs": ["a", "b"],
           "bs": [[P_map(keys=["a", "b"], ors=[["b", X("a")]]), C(M([KW("a"), 1]))]]}
    yield {"k": "let", "fam": "or", "lab": "unbound-default", "mx": False, "outs": ["a"],
           "bs": [[P_map(keys=["a"], ors=[["a", X("nope")]]), C(M([KW("a"), 1]))]]}
    yield {"k": "let", "fam": "or", "lab": "later-pair-sees", "mx": False, "outs": ["a", "c"],
           "bs": [[P_vec([P_sym("a")]), C(V(4))], [P_map(keys=["c"], ors=[["c", X("a")]]), C(None)]]}
    # hygiene of the emitted code: locals named nth / get / seq? do not capture
    yield {"k": "let", "fam": "hyg", "lab": "nth-get", "mx": True, "outs": ["nth", "get", "a", "b"],
           "bs": [[P_vec([P_sym("nth"), P_sym("get")]), C(V(1, 2))],
                  [P_vec([P_sym("a")]), C(V(3))], [P_map(keys=["b"]), C(M([KW("b"), 4]))]]}
    yield {"k": "fn", "fam": "hyg", "lab": "first-next", "mx": False, "outs": ["first", "next", "a"],
           "ps": [P_sym("first"), P_sym("next")], "rest": P_map(keys=["a"]), "args": [1, 2, KW("a"), 3]}
    # kwargs: trailing map, merged
    yield {"k": "fn", "fam": "kw", "lab": "trailing", "mx": False, "outs": ["a", "b", "m"],
           "ps": [], "rest": P_map(keys=["a", "b"], as_="m"), "args": [KW("a"), 1, M([KW("b"), 2], [KW("a"), 3])]}
    yield {"k": "fn", "fam": "kw", "lab": "odd", "mx": False, "outs": ["a"],
           "ps": [], "rest": P_map(keys=["a"]), "args": [KW("a")]}
    yield {"k": "fn", "fam": "kw", "lab": "none", "mx": False, "outs": ["a", "m"],
           "ps": [P_sym("x")], "rest": P_map(keys=["a"], ors=[["a", C(9)]], as_="m"), "args": [0]}
    # F-09c (open): scope of loop init expressions / of defaults in a rest pattern
    yield from f09c_witnesses()


def f09c_witnesses():
    C = lambda v: {"c": v}
    X = lambda n: {"x": n}
    yield {"k": "loop", "fam": "f09c", "lab": "loop-init-scope", "mx": False, "outs": ["c"], "rec": None,
           "bs": [[P_vec([P_sym("a"), P_sym("b")]), C({"v": [1, 2]})], [P_sym("c"), X("a")]]}
    yield {"k": "fn", "fam": "f09c", "lab": "fn-rest-default-scope", "mx": False, "outs": ["x", "y"],
           "ps": [P_map(keys=["x"])], "rest": P_map(keys=["y"], ors=[["y", X("x")]]),
           "args": [{"m": [[KW("x"), 1]]}]}


# =========================================================================================
# syntax-quote generators
# =========================================================================================
def T_a(v):
    return {"a": v}


def T_y(name, ns=None):
    return {"y": [ns, name]}


HOLE_VALUES = [5, None, {"y": [None, "hv"]}, {"v": [1, 2]}, {"l": [3]}, {"v": []}, {"s": "ab"},
               {"m": [[KW("a"), 1]]}, {"l": [{"y": ["q", "w"]}, 4]}, KW("kv")]
# indexes:      0  1     2                     3              4           5          6
#               7                       8                          9


def vocab(cfg):
    """Template elements (leaves) meaningful in configuration cfg."""
    c = K.CONFIGS[cfg]
    out = [T_a(1), T_a(KW("k")), T_a(None), T_a({"s": "s"}),
           T_y("map"), T_y("first"), T_y("if"), T_y("fn*"), T_y("quote"), T_y("&"), T_y(".foo"),
           T_y("zz"), T_y("w", "un.known"), T_y("map", K.CORE), {"g": "x"}, {"g": "y"}, {"g": "x"}]
    if "loc" in c["interns"]:
        out.append(T_y("loc"))
    for a in c["aliases"]:
        out.append(T_y("lf", a))
    for r in c["refers"]:
        out.append(T_y(r))
    return out


def holes_for(rng):
    return [{"u": 0}, {"u": 2}, {"u": 3}, {"sp": 3}, {"sp": 4}, {"sp": 5}, {"sp": 1}, {"sp": 6}, {"sp": 0},
            {"sp": 7}, {"u": 8}, {"sp": 8}, {"u": 9}]


def wrap(kind, elems):
    if kind == "m":
        if len(elems) % 2:
            elems = elems + [T_a(0)]
        return {"m": [[elems[i], elems[i + 1]] for i in range(0, len(elems), 2)]}
    return {kind: elems}


def distinct_tokens(elems):
    # lists and vectors with equal elements are equal values (and, since the repair of F-05a, hash
    # alike): the reader rejects `{[] 1 () 2}` and `#{[] ()}` as duplicate keys, as Clojure does
    toks = [repr([("(",) if tk == ("[",) else tk for tk in K.tmpl_tokens(e)]) for e in elems]
    return len(set(toks)) == len(toks)


def valid_coll(kind, elems):
    """set elements and map keys must be distinguishable for the reader (and for the aligner)."""
    if kind == "set":
        return distinct_tokens(elems)
    if kind == "m":
        ks = elems[0::2]
        pairs = [{"v": [elems[i], elems[i + 1]]} for i in range(0, len(elems) - 1, 2)]
        return distinct_tokens(ks) and distinct_tokens(pairs)
    return True


def sq_case(cfg, t, fam):
    return {"k": "sq", "fam": fam, "cfg": cfg, "t": t, "sg": HOLE_VALUES}


def sq_cases(tier, rng):
    cfgs = ["c09.cur0", "c09.cur1", "c09.cur2", "c09.cur3"]
    # top-level non-collections
    for cfg in cfgs:
        for e in vocab(cfg) + [{"u": 0}, {"u": 3}, {"sp": 3}]:
            yield sq_case(cfg, e, "top")
    # one collection, <= 2 elements, every kind, over vocabulary + holes
    for ci, cfg in enumerate(cfgs):
        leaves = vocab(cfg) + holes_for(rng)
        for kind in ("l", "v", "set", "m"):
            yield sq_case(cfg, wrap(kind, []), "d1")
            singles = leaves if kind != "m" else leaves
            for e in singles:
                if kind == "m" and "sp" in e:
                    # a lone splice is not a readable map literal: pair it with another splice
                    t = {"m": [[e, {"sp": 5}]]}
                else:
                    t = wrap(kind, [e])
                if valid_coll(kind, flat(t, kind)):
                    yield sq_case(cfg, t, "d1")
            pairs = list(itertools.product(range(len(leaves)), repeat=2))
            if tier == "quick":
                pairs = rng.sample(pairs, 28)
            for i, j in pairs:
                elems = [leaves[i], leaves[j]]
                if not valid_coll(kind, elems):
                    continue
                yield sq_case(cfg, wrap(kind, elems), "d1")
    # nested templates
    nrand = 300 if tier == "quick" else 6000
    maxd = 2 if tier == "quick" else 3
    for i in range(nrand):
        cfg = cfgs[i % 4]
        for _ in range(50):
            t = rand_tmpl(rng, cfg, rng.randint(2, maxd))
            if not mixed_error_sources(t, HOLE_VALUES):
                break
        else:
            t = {"v": []}
        yield sq_case(cfg, t, "rand")
    # F-09d: an empty list template
    yield from f09d_witnesses()


def flat(t, kind):
    if kind == "m":
        return [x for kv in t["m"] for x in kv]
    return t[kind]


def rand_tmpl(rng, cfg, depth):
    leaves = vocab(cfg) + holes_for(rng)
    for _ in range(50):
        kind = rng.choice(["l", "l", "v", "v", "set", "m"])
        n = rng.randint(0, 4)
        elems = []
        for _ in range(n):
            if depth > 1 and rng.random() < 0.45:
                elems.append(rand_tmpl(rng, cfg, depth - 1))
            else:
                elems.append(rng.choice(leaves))
        if kind == "m" and len(elems) % 2:
            # the READER wants an even number of forms in a map literal (splices count as one form each).
            # Whether the number of elements AFTER splicing is even is not constrained here: an odd one is
            # an ill-formed use that raises IndexError in (apply hash-map ...), which the model predicts.
            elems.append(T_a(0))
        if valid_coll(kind, elems):
            return wrap(kind, elems)
    return {"v": []}


def seqable_datum(v):
    """Can ~@ splice this hole value?  nil, strings and collections yes; numbers, keywords, symbols no."""
    return v is None or (isinstance(v, dict) and any(k in v for k in ("s", "l", "v", "set", "m")))


def datum_len(v):
    if v is None:
        return 0
    for k in ("s", "l", "v", "set", "m"):
        if k in v:
            return len(v[k])
    raise ValueError(v)


def error_sources(t, sg):
    """The run-time error classes a template can raise when its expansion is evaluated and the value is
    realised: TypeError = some ~@ splices a non-seqable value; IndexError = some map literal (all of whose
    splices are seqable) has an odd number of elements after splicing."""
    out = set()

    def walk(t):
        if "sp" in t:
            if not seqable_datum(sg[t["sp"]]):
                out.add("TypeError")
            return
        for key in ("l", "v", "set"):
            if key in t:
                for e in t[key]:
                    walk(e)
                return
        if "m" in t:
            elems = [x for kv in t["m"] for x in kv]
            for e in elems:
                walk(e)
            sps = [sg[e["sp"]] for e in elems if "sp" in e]
            if all(seqable_datum(v) for v in sps):
                n = sum(datum_len(sg[e["sp"]]) if "sp" in e else 1 for e in elems)
                if n % 2:
                    out.add("IndexError")
    walk(t)
    return out


def mixed_error_sources(t, sg):
    """Two ill-formed uses of DIFFERENT error classes in one template.  `concat` is lazy: in
    `[(1 ~@5) {1 ~@nil}]` the list `(1 ~@5)` is a lazy seq whose TypeError is deferred until somebody walks
    it, so the IndexError of the map comes first; the model's evaluator works on realised collections
    (TRUSTED) and raises the TypeError of the list first.  Both raise; which class surfaces is not modelled,
    so such templates are not generated.  (One error source, or several of one class, give that class
    whatever the timing: the worker realises the whole value inside the same try.)"""
    return len(error_sources(t, sg)) > 1


def f09d_witnesses():
    yield sq_case("c09.cur0", {"l": []}, "f09d")
    yield sq_case("c09.cur0", {"l": [{"sp": 5}]}, "f09d")
    yield sq_case("c09.cur0", {"v": [T_y("map"), {"l": []}]}, "f09d")


def use_cases(tier, rng):
    g = K.all_globals()
    for cfg in ("c09.cur0", "c09.cur1", "c09.cur2", "c09.cur3"):
        c = K.CONFIGS[cfg]
        syms = [[None, "map"], [None, "first"], [None, "zz"], [K.LIB, "lf"], [K.CORE, "map"]]
        if "loc" in c["interns"]:
            syms.append([None, "loc"])
        for a in c["aliases"]:
            syms += [[a, "lf"], [a, "nothere"]]
        for r in c["refers"]:
            syms.append([None, r])
        for s in syms:
            for use in ("c09.use0", "c09.use1"):
                for locals_ in ([], [s[1]], ["map", "loc", "lf", "lv", "first", "zz"]):
                    yield {"k": "use", "fam": "use", "cfg": cfg, "use": use, "sym": s, "locals": locals_,
                           "globals": g}


def cases(tier, rng):
    yield from d_cases(tier, rng)
    yield from sq_cases(tier, rng)
    yield from use_cases(tier, rng)


# =========================================================================================
# Gallina printers
# =========================================================================================
def g_ostr(s):
    return G.opt(s, G.s, "str")


def g_val(v):
    if v is None:
        return "VNil"
    if v is True or v is False:
        return f"(VBool {G.b(v)})"
    if isinstance(v, int):
        return f"(VInt {G.z(v)})"
    if "s" in v:
        return f"(VStr {G.s(v['s'])})"
    if "k" in v:
        return f"(VKw {g_ostr(v['k'][0])} {G.s(v['k'][1])})"
    if "y" in v:
        return f"(VSym {g_ostr(v['y'][0])} {G.s(v['y'][1])})"
    if "l" in v:
        return "(VList " + G.lst([g_val(e) for e in v["l"]], "cval") + ")"
    if "v" in v:
        return "(VVec " + G.lst([g_val(e) for e in v["v"]], "cval") + ")"
    if "set" in v:
        return "(VSet " + G.lst([g_val(e) for e in v["set"]], "cval") + ")"
    if "m" in v:
        return "(VMap " + G.lst([f"({g_val(k)}, {g_val(x)})" for k, x in v["m"]], "(cval * cval)") + ")"
    raise ValueError(v)


def g_expr(e):
    if "x" in e:
        return f"(@EVar C (NU {G.s(e['x'])}))"
    return f"(@EConst C {g_val(e['c'])})"


def g_qnames(xs):
    return G.lst([f"({g_ostr(a)}, {G.s(b)})" for a, b in xs], "qname")


def g_groups(gs):
    return G.lst([f"({g_ostr(g)}, {g_qnames(xs)})" for g, xs in gs], "(option str * list qname)")


def g_pat(p):
    if "sym" in p:
        return f"(@PSym C {G.s(p['sym'])})"
    if "vec" in p:
        kids = "(@PNil C)"
        for c in reversed(p["vec"]):
            kids = f"(PCons {g_pat(c)} {kids})"
        return f"(PVec {kids} {g_ostr(p.get('rest'))} {g_ostr(p.get('as'))})"
    ents = "(@MNil C)"
    for q, k in reversed(p["entries"]):
        ents = f"(MCons {g_pat(q)} {g_expr(k)} {ents})"
    ors = G.lst([f"({G.s(n)}, {g_expr(e)})" for n, e in p["ors"]], "(str * expr C)")
    strs = G.lst([G.s(x) for x in p["strs"]], "str")
    return (f"(PMap {g_groups(p['kgroups'])} {strs} {g_groups(p['sgroups'])} {ents} {ors} "
            f"{g_ostr(p.get('as'))})")


def g_bs(bs):
    return G.lst([f"({g_pat(p)}, {g_expr(e)})" for p, e in bs], "(pat C * expr C)")


def g_strs(xs):
    return G.lst([G.s(x) for x in xs], "str")


def g_form(v):
    """canonical JSON of a form (value or emitted code) -> Gallina form"""
    if v is None:
        return "FNil"
    if v is True or v is False:
        return f"(FBool {G.b(v)})"
    if isinstance(v, int):
        return f"(FInt {G.z(v)})"
    if "s" in v:
        return f"(FStr {G.s(v['s'])})"
    if "k" in v:
        return f"(FKw {g_ostr(v['k'][0])} {G.s(v['k'][1])})"
    if "y" in v:
        return f"(FSym {g_ostr(v['y'][0])} (SN {G.s(v['y'][1])}))"
    if "g" in v:
        return f"(FSym None (SG {G.s(v['g'][0])} {G.n(v['g'][1])}))"
    if "h" in v:
        return f"(FHole {G.n(v['h'])})"
    if "l" in v:
        return "(FList " + G.lst([g_form(e) for e in v["l"]], "form") + ")"
    if "v" in v:
        return "(FVec " + G.lst([g_form(e) for e in v["v"]], "form") + ")"
    if "set" in v:
        return "(FSet " + G.lst([g_form(e) for e in v["set"]], "form") + ")"
    if "m" in v:
        return "(FMap " + G.lst([f"({g_form(k)}, {g_form(x)})" for k, x in v["m"]], "(form * form)") + ")"
    return "(FStr (@nil N))"


def g_atom(v):
    if v is None:
        return "ANil"
    if v is True or v is False:
        return f"(ABool {G.b(v)})"
    if isinstance(v, int):
        return f"(AInt {G.z(v)})"
    if "s" in v:
        return f"(AStr {G.s(v['s'])})"
    return f"(AKw {g_ostr(v['k'][0])} {G.s(v['k'][1])})"


def g_tmpl(t):
    if "a" in t:
        return f"(TAtom {g_atom(t['a'])})"
    if "y" in t:
        return f"(TSym {g_ostr(t['y'][0])} {G.s(t['y'][1])})"
    if "g" in t:
        return f"(TGen {G.s(t['g'])})"
    if "u" in t:
        return f"(TUnq {G.n(t['u'])})"
    if "sp" in t:
        return f"(TSplice {G.n(t['sp'])})"
    for key, ctor in (("l", "TList"), ("v", "TVec"), ("set", "TSet")):
        if key in t:
            return f"({ctor} {g_tmpls(t[key])})"
    return f"(TMap {g_tmpls([x for kv in t['m'] for x in kv])})"


def g_tmpls(ts):
    out = "TNil"
    for e in reversed(ts):
        out = f"(TCons {g_tmpl(e)} {out})"
    return out


def g_pairs(xs):
    return G.lst([f"({G.s(a)}, ({G.s(b[0])}, {G.s(b[1])}))" for a, b in xs], "(str * (str * str))")


def g_nslite(cfg):
    L = K.nslite(cfg)
    al = G.lst([f"({G.s(a)}, {G.s(b)})" for a, b in L["aliases"]], "(str * str)")
    return (f"{{| l_cur := {G.s(L['cur'])}; l_interns := {g_pairs(L['interns'])}; "
            f"l_refers := {g_pairs(L['refers'])}; l_aliases := {al} |}}")


ERR = {"TypeError": 1, "IndexError": 2, "SyntaxError": 5, "CompilerException": 9}


def err_code(name):
    return ERR.get(name, 3)


def coq_case(c, out=None):
    k = c["k"]
    if k == "let":
        return f"(CLet {g_bs(c['bs'])} {g_strs(c['outs'])})"
    if k == "fn":
        ps = G.lst([g_pat(p) for p in c["ps"]], "(pat C)")
        rest = "(@None (pat C))" if c["rest"] is None else f"(Some {g_pat(c['rest'])})"
        args = G.lst([g_val(a) for a in c["args"]], "cval")
        return f"(CFn {ps} {rest} {args} {g_strs(c['outs'])})"
    if k == "loop":
        rec = "(@None (list cval))" if c["rec"] is None else "(Some " + G.lst([g_val(a) for a in c["rec"]], "cval") + ")"
        return f"(CLoop {g_bs(c['bs'])} {rec} {g_strs(c['outs'])})"
    if k == "sq":
        t = c["t"]
        if out and isinstance(out.get("t"), dict):
            t = out["t"]
        sg = G.lst([g_form(v) for v in c["sg"]], "form")
        return f"(CSq {g_nslite(c['cfg'])} {g_tmpl(t)} {sg})"
    if k == "use":
        gl = G.lst([f"({G.s(a)}, {G.s(b)})" for a, b in c["globals"]], "(str * str)")
        return (f"(CUse {g_nslite(c['cfg'])} {g_nslite(c['use'])} {gl} {g_strs(c['locals'])} "
                f"{g_ostr(c['sym'][0])} {G.s(c['sym'][1])})")
    raise ValueError(k)


def coq_out(o):
    if o.get("__timeout__") or o.get("__hang__"):
        return "(OErr 4%N)"
    if o.get("__error__") or o.get("__died__"):
        return "(OErr 3%N)"
    if "mxdiff" in o:
        return "(OErr 7%N)"
    if "vals" in o:
        return "(OVals " + G.lst([g_val(v) for v in o["vals"]], "cval") + ")"
    if "rd" in o:
        if "everr" in o:
            return f"(OSq {g_form(o['rd'])} (Err {G.n(err_code(o['everr']))}) (@nil N))"
        return (f"(OSq {g_form(o['rd'])} (Ok {g_form(o['val'])}) "
                + G.lst([G.n(i) for i in o["tr"]], "N") + ")")
    if "den" in o:
        d = o["den"]
        if d[0] == "local":
            return f"(ODen (DLocal {G.s(d[1])}))"
        if d[0] == "var":
            return f"(ODen (DVar {G.s(d[1])} {G.s(d[2])}))"
        return "(ODen DNone)"
    if "err" in o:
        return f"(OErr {G.n(err_code(o['err']))})"
    return "(OErr 3%N)"


def coq_pair(c, o):
    return f"({coq_case(c, o)}, {coq_out(o)})"


# =========================================================================================
# findings, evidence
# =========================================================================================
def _f09c(c, o):
    """An init expression of loop / a default in a fn rest pattern mentions a name that an earlier binding
    of the same form destructures: not in scope (CompilerException)."""
    return c.get("fam") == "f09c" and o.get("err") == "CompilerException"


def _has_empty_list(t, sg):
    """Some list node of the template has no elements after splicing."""
    def n_elems(e):
        if "sp" in e:
            v = sg[e["sp"]]
            if v is None:
                return 0
            if isinstance(v, dict):
                for key in ("l", "v", "set", "m"):
                    if key in v:
                        return len(v[key])
                if "s" in v:
                    return len(v["s"])
            return 1
        return 1

    def walk(t):
        if "l" in t:
            if sum(n_elems(e) for e in t["l"]) == 0:
                return True
        for key in ("l", "v", "set"):
            if key in t:
                return any(walk(e) for e in t[key] if isinstance(e, dict))
        if "m" in t:
            return any(walk(k) or walk(v) for k, v in t["m"])
        return False
    return walk(t)


def _f09d(c, o):
    return c.get("k") == "sq" and "rd" in o and _has_empty_list(c["t"], c["sg"])


FINDINGS = {"F-09c": _f09c, "F-09d": _f09d}


def nontrivial(c, o):
    if c["k"] in ("let", "fn", "loop"):
        return len(c["outs"]) >= 2
    if c["k"] == "sq":
        return not ("a" in c["t"])
    return True


def describe(c):
    if c["k"] == "let":
        return K.let_text(c)
    if c["k"] == "fn":
        return K.fn_text(c)
    if c["k"] == "loop":
        return K.loop_text(c)
    if c["k"] == "sq":
        return f"in {c['cfg']}: `" + K.tmpl_text(c["t"]) + "  with (h i) = " + K.data_text({"v": c["sg"]}) + "[i]"
    if c["k"] == "use":
        return (f"`{K.sym_text(*c['sym'])} written in {c['cfg']}, compiled in {c['use']} under "
                f"(let [{' '.join(c['locals'])}] ...)")
    return c["k"]


def shrink(c):
    if c["k"] == "sq":
        t = c["t"]
        for key in ("l", "v", "set", "m"):
            if key in t:
                for i in range(len(t[key])):
                    yield dict(c, t={key: t[key][:i] + t[key][i + 1:]})
                for e in t[key]:
                    for x in (e if key == "m" else [e]):
                        if any(k2 in x for k2 in ("l", "v", "set", "m")):
                            yield dict(c, t=x)
    elif c["k"] in ("let", "loop") and len(c["bs"]) > 1:
        for i in range(len(c["bs"])):
            bs = c["bs"][:i] + c["bs"][i + 1:]
            outs = [o for p, _ in bs for o in binders_of(p)]
            if c["k"] == "loop" and c.get("rec") is not None:
                yield dict(c, bs=bs, outs=outs, rec=c["rec"][:i] + c["rec"][i + 1:])
            else:
                yield dict(c, bs=bs, outs=outs)


def extra_evidence(cases_, outs):
    dist, errs, labs, depth = {}, {}, {}, {}
    mx = 0
    for c, o in zip(cases_, outs):
        key = f"{c['k']}:{c.get('fam')}"
        dist[key] = dist.get(key, 0) + 1
        if c["k"] in ("let", "fn", "loop"):
            labs[c.get("lab")] = labs.get(c.get("lab"), 0) + 1
            ps = [p for p, _ in c["bs"]] if "bs" in c else c["ps"] + ([c["rest"]] if c.get("rest") else [])
            d = max([depth_of(p) for p in ps] + [0])
            depth[d] = depth.get(d, 0) + 1
        e = o.get("err") or o.get("everr")
        if e:
            errs[e] = errs.get(e, 0) + 1
        if o.get("mx"):
            mx += 1
    return {"input_distribution": dist, "value_classes": labs, "exception_classes": errs,
            "pattern_depths": depth, "macroexpansions_compared": mx}
