"""C11 implementation side.

A case is {"n": threads, "s": [[t, op], ...]}: the schedule, i.e. which history thread
executes which operation, in this order.  Every history thread is a fresh Python thread
(so its thread-local binding state is new) running a recursive interpreter that executes ONE
operation each time the controller hands it a token; a binding form that has been entered is
a real, still active `binding` / `with-bindings*` / try-finally frame on that thread's Python
stack, and the rest of the thread's history runs inside its body.  After every step the
controller asks every history thread for the values of the five Vars.

ops:  ["enter", mode, [[var, val], ...]]   mode 0: runtime.push_thread_bindings on a mapping
                                           whose .items() yields the pairs in THIS order, then
                                           try body / finally runtime.pop_thread_bindings()
                                           (exactly what the macro expands to);
                                           mode 1: the compiled core macro `binding`;
                                           mode 2: core `with-bindings*` on a real map;
                                           mode 3: `with runtime.bindings({...}):` (the context
                                           manager the compiler / importer / CLI use)
      ["leave", exc]                       return from the body / throw out of the body
      ["set", var, val]                    compiled (set! var val)
      ["noop"]
      ["spawn", kind, w, [op, ...]]        kind 0: @(future (work)) on a one-thread pool;
                                           1: ((bound-fn* work)) on a new Python thread;
                                           2: ((bound-fn* work)) in this thread;
                                           3: work on a new Python thread, no conveyance.
                                           The work reports the Vars' values at its start and
                                           after each of its own ops.
Vars: 0 *a* 1 *b* 2 *c* (dynamic, roots 100 200 300), 3 nd (not dynamic, 400),
      4 *v* (dynamic, 500, validator (< x 1000)).
"""
import queue
import threading

from harness.vlib import bl

NAMES = ["*a*", "*b*", "*c*", "nd", "*v*"]
S = {}


class Quit(BaseException):
    pass


class BodyThrow(Exception):
    pass


class Stuck(Exception):
    pass


def setup():
    from basilisp.lang import runtime, symbol as sym
    ns = bl.fresh_ns("verif.c11x")
    bl.ev("(def ^:dynamic *a* 100) (def ^:dynamic *b* 200) (def ^:dynamic *c* 300) (def nd 400) "
          "(def ^:dynamic *v* 500) (set-validator! (var *v*) (fn [x] (< x 1000)))", ns)
    S["ns"] = ns
    S["vars"] = [ns.find(sym.symbol(n)) for n in NAMES]
    S["deref"] = bl.ev("(fn [] [*a* *b* *c* nd *v*])", ns)
    S["set"] = [bl.ev(f"(fn [x] (set! {n} x))", ns) for n in NAMES]
    S["future"] = bl.ev("(fn [f] (deref (future (f)) 8000 :verif/timeout))", ns)
    S["bound-fn*"] = bl.core("bound-fn*")
    S["with-bindings*"] = bl.core("with-bindings*")
    S["pool-var"] = runtime.Var.find(sym.symbol("*executor-pool*", ns="basilisp.core"))
    S["binding"] = {}
    S["runtime"] = runtime


def binding_fn(vs):
    """(fn [x0 .. body] (binding [V0 x0 ...] (body))) compiled once per Var tuple."""
    f = S["binding"].get(vs)
    if f is None:
        args = " ".join(f"x{i}" for i in range(len(vs)))
        pairs = " ".join(f"{NAMES[v]} x{i}" for i, v in enumerate(vs))
        f = bl.ev(f"(fn [{args} body] (binding [{pairs}] (body)))", S["ns"])
        S["binding"][vs] = f
    return f


class OrderedItems:
    """A mapping whose iteration order is the one the case prescribes (the iteration order of
    the real hash map is arbitrary; push_thread_bindings only calls .items())."""

    def __init__(self, pairs):
        self.pairs = pairs

    def items(self):
        return iter(self.pairs)


def code_of(e):
    from basilisp.lang.exception import ExceptionInfo
    if isinstance(e, S["runtime"].RuntimeException):
        return 1
    if isinstance(e, ExceptionInfo):
        return 2
    return 3


def derefs():
    vals = list(S["deref"]())
    return [v if isinstance(v, int) and not isinstance(v, bool) else -1 for v in vals]


def run_form(mode, pairs, body):
    rt = S["runtime"]
    vs = S["vars"]
    if mode == 0:
        rt.push_thread_bindings(OrderedItems([(vs[v], x) for v, x in pairs]))
        try:
            return body()
        finally:
            rt.pop_thread_bindings()
    if mode == 1:
        return binding_fn(tuple(v for v, _ in pairs))(*[x for _, x in pairs], body)
    if mode == 3:
        with rt.bindings({vs[v]: x for v, x in pairs}):      # the Python-level context manager
            return body()
    from basilisp.lang import map as lmap
    return S["with-bindings*"](lmap.map({vs[v]: x for v, x in pairs}), body)


class Interp:
    """Executes one op per command; `get()` yields the next command, `put(r)` the reply."""

    def level(self, depth):
        while True:
            cmd = self.get()
            if cmd[0] == "quit":
                raise Quit()
            if cmd[0] == "end":
                if depth == 0:
                    return
                raise Quit()
            if cmd[0] == "obs":
                self.put({"obs": derefs()})
                continue
            op = cmd[1]
            k = op[0]
            if k == "noop":
                self.put({"c": 0})
            elif k == "set":
                try:
                    S["set"][op[1]](op[2])
                    self.put({"c": 0})
                except Exception as e:
                    self.put({"c": code_of(e)})
            elif k == "enter":
                entered = [False]

                def body():
                    entered[0] = True
                    self.put({"c": 0})
                    self.level(depth + 1)

                try:
                    run_form(op[1], op[2], body)
                    self.put({"c": 0})             # the form was left normally; finally has run
                except BodyThrow:
                    self.put({"c": 0})             # left by the exception; finally has run
                except Exception as e:
                    # not entered: establishing the form failed; entered: its exit failed
                    self.put({"c": code_of(e)})
            elif k == "leave":
                if depth == 0:
                    try:
                        S["runtime"].pop_thread_bindings()
                        self.put({"c": 0})
                    except Exception as e:
                        self.put({"c": code_of(e)})
                elif op[1]:
                    raise BodyThrow()
                else:
                    return
            elif k == "spawn":
                self.put(spawn(op[1], op[3]))
            else:
                raise ValueError(f"bad op {op}")


class WorkInterp(Interp):
    def __init__(self, ops):
        self.cmds = [("step", o) for o in ops] + [("end",)]
        self.i = 0
        self.res = []

    def get(self):
        c = self.cmds[self.i]
        self.i += 1
        return c

    def put(self, r):
        self.res.append([r["c"], derefs()])


def spawn(kind, work):
    def f():
        w = WorkInterp(work)
        w.res.append([0, derefs()])
        try:
            w.level(0)
        except Quit:
            pass
        return w.res

    box = {}

    def in_thread(g):
        def tgt():
            try:
                box["res"] = g()
            except Exception as e:
                box["exc"] = e
        th = threading.Thread(target=tgt, daemon=True)
        th.start()
        th.join(8)
        if th.is_alive():
            raise Stuck("spawned thread did not finish")
        if "exc" in box:
            raise box["exc"]
        return box["res"]

    try:
        if kind == 0:
            res = S["future"](f)
            if not isinstance(res, list):
                raise Stuck("future timed out")
        elif kind == 1:
            res = in_thread(S["bound-fn*"](f))
        elif kind == 2:
            res = S["bound-fn*"](f)()
        else:
            res = in_thread(f)
        return {"c": 0, "w": res}
    except Stuck:
        raise
    except Exception as e:
        return {"c": code_of(e), "w": []}


class Th(Interp):
    def __init__(self, idx):
        self.idx = idx
        self.cmd = queue.Queue()
        self.rep = queue.Queue()
        self.thread = threading.Thread(target=self.main, daemon=True, name=f"c11-h{idx}")

    def get(self):
        try:
            return self.cmd.get(timeout=30)
        except queue.Empty:
            raise Quit()

    def put(self, r):
        self.rep.put(r)

    def main(self):
        try:
            self.level(0)
        except Quit:
            pass
        except BaseException as e:  # harness bug or an exception escaping a form
            self.rep.put({"fatal": f"{type(e).__name__}: {e}"[:200]})

    def ask(self, cmd):
        self.cmd.put(cmd)
        try:
            return self.rep.get(timeout=9)
        except queue.Empty:
            return {"fatal": "no reply"}


def run(case):
    from concurrent.futures import thread as _cft  # noqa: F401  (pool threads are daemonic enough)
    from basilisp.lang import futures
    n = case["n"]
    uses_future = any(op[0] == "spawn" and op[1] == 0 for _, op in case["s"])
    pool = old_pool = None
    if uses_future:
        pool = futures.ThreadPoolExecutor(max_workers=1, thread_name_prefix="c11-pool")
        old_pool = S["pool-var"].root
        S["pool-var"].bind_root(pool)
    ths = [Th(i) for i in range(n)]
    for t in ths:
        t.thread.start()
    steps = []
    err = None
    try:
        for t, op in case["s"]:
            r = ths[t].ask(("step", op))
            if "fatal" in r:
                err = r["fatal"]
                break
            view = []
            for th in ths:
                o = th.ask(("obs",))
                if "fatal" in o:
                    err = o["fatal"]
                    break
                view.append(o["obs"])
            if err:
                break
            steps.append({"c": r["c"], "w": r.get("w", []), "v": view})
    finally:
        for th in ths:
            th.cmd.put(("quit",))
        for th in ths:
            th.thread.join(3)
        if pool is not None:
            S["pool-var"].bind_root(old_pool)
            pool.shutdown(wait=False)
    if err:
        return {"err": err}
    return {"steps": steps}
