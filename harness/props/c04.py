"""C04 -- persistent collections are immutable values that behave like their model."""
import itertools
import os

ID = "C04"
TITLE = "Persistent collections are immutable values that behave like their model"
CORR = "Verif.C04.Corr"
CORR_TARGETS = ["theories/Common/Corr.vo", "theories/C04/Corr.vo"]
TARGETS = ["theories/Properties/C04.vo"]
PROPERTIES_FILE = "theories/Properties/C04.v"
IMPL = "harness.props.c04_impl"
TABLE_DEPS = ["coll_vector_shape", "coll_nth_shape", "coll_with_meta_shape", "coll_list_pop_shape",
              "coll_wrappers_pure"]
TAGGED = True
SHARD = 300
HARD_TIMEOUT = 60
NWORKERS = 2          # a case costs ~0.15 ms of work; bootstraps (12 s each) do not parallelise well
EXHAUSTIVE = {"quick": False, "thorough": False}
# seeded sensitivity runs without touching /repo: C04_REPO_SRC=<scratch copy of /repo/src> makes the
# implementation workers import basilisp from there (native overlay, translator items: unchanged)
if os.environ.get("C04_REPO_SRC"):
    WORKER_ENV = {"PYTHONPATH": os.environ["C04_REPO_SRC"] + os.pathsep
                  + os.path.dirname(os.path.dirname(os.path.dirname(os.path.abspath(__file__))))}
RULE = ("a case is one branching history over vectors, lists, queues, maps, sets, nil and their "
        "transients; every operation names the earlier results it uses by position. Quick: all "
        "mutator sequences of length <= 2 per collection kind and start value, each mutator applied "
        "to the latest value or to the first one, over the keys 1 / 1.0 / an object whose hash "
        "collides with 1 (each followed by a battery of reads) + a seeded sample of 600 sequences "
        "of length 3 + 1000 random histories of length <= 25 + 20 on collections of 33..73 elements; "
        "thorough: all sequences of length <= 3, 30000 sampled of length 4-5, 20000 random, 3000 of length "
        "<= 60 on collections of 33..73 elements (pyrsistent's 32-wide nodes and the vector tail "
        "are crossed). Random histories never turn the library's iteration order of a map or set of "
        ">= 2 elements into positions ((into [] m), merge of a 2-element set): the executable "
        "instance of the model iterates in insertion order; (seq m) is kept. "
        "Variadic calls -- (disj s a b ..), (dissoc m k ..), (assoc c k v k' v'), (conj c a b c) and the "
        "transient (conj! ..) (assoc! ..) (dissoc! ..) (disj! ..) with 2-3 arguments -- are performed by the "
        "implementation as ONE call of the core function; on the Coq side the case printer unfolds each "
        "of them (conj excepted: OConj carries a list) to the left fold of the UNARY operation, a group of "
        "consecutive operations each naming the slot of the one before it (CHistV gs ops, C04/Variadic.v): "
        "the model's result of the call is the first exception of the group, else its last result; the "
        "specification checks the whole chain with the model's intermediate values as witnesses (each "
        "checked like any other result) and the observed result in the call's position. "
        "Dedicated generator: disj/dissoc/disj!/dissoc! with 2 and 3 arguments, present and absent "
        "elements in every order, assoc/assoc! with two pairs over all key pairs and all index pairs 0..3, "
        "conj/conj! with 3 elements (incl. an ill-formed entry in the middle), on nil and on wrong kinds; "
        "the random histories contain variadic calls too. "
        "Every result is observed when produced and re-read after the whole history; "
        "transients are read through persistent! at the end. A case is non-trivial when at least "
        "two operations return collections; distinct = distinct JSON encoding.")
TRUSTED = [
    "pyrsistent (pvector + evolver, plist, pdeque) and immutables (Map, MapMutation) are Section "
    "variables of type Libs with the laws H_pvec_* H_evolver_* H_plist_* H_pdeque_* H_map_* H_mut_* "
    "(C04/Lib.v); objects of these libraries are modelled as immutable Coq values, i.e. the soundness "
    "of their structural sharing is ASSUMED by the theorems and exercised only by the correspondence run",
    "key / element equality is Python == (keq) in both the model and the specification; whether that is "
    "the right equality is property C05's subject",
    "the harness observes collections by iterating them and transients through persistent! at the end",
]
ASSUMPTIONS = [
    "elements are nil, booleans, integers, integral floats, keywords, identity objects and vectors of "
    "these; collections are not nested inside maps/sets/lists other than as vectors",
    "operations applied to results that are neither nil, a collection nor a transient are outside the "
    "fragment (both sides report class 0)",
    "merge of more than two maps is not in the fragment; variadic assoc / dissoc / disj / conj! / assoc! / "
    "dissoc! / disj! are in it as the left fold of the unary operation (an odd number of assoc arguments is not)",
]


# ---------------------------------------------------------------------------------------
# findings: signature predicates over (case, output, tag); tag bit0 = a negative index reaches
# a vector, bit1 = (with-meta c nil) on a collection that has metadata
# ---------------------------------------------------------------------------------------
def _f04a(case, out, tag):
    return bool(tag & 1)


def _f04b(case, out, tag):
    return bool(tag & 2)


FINDINGS = {"F-04a": _f04a, "F-04b": _f04b}


# ---------------------------------------------------------------------------------------
# Gallina printers
# ---------------------------------------------------------------------------------------
def g_elem(e):
    if e is None:
        return "n_"
    if e is True:
        return "(b_ true)"
    if e is False:
        return "(b_ false)"
    if isinstance(e, int):
        return f"(i_ {e})" if e >= 0 else f"(i_ ({e}))"
    if isinstance(e, list):
        return "(EV " + g_list([g_elem(x) for x in e]) + ")"
    if "f" in e:
        z = e["f"]
        return f"(f_ {z})" if z >= 0 else f"(f_ ({z}))"
    if "k" in e:
        return f"(k_ {e['k']})"
    if "o" in e:
        return f"(o_ {e['o']})"
    return "(EA (AObj 999999))"        # something the universe does not contain


def g_list(items):
    items = list(items)
    return "[" + "; ".join(items) + "]" if items else "[]"


def g_opt(e):
    return f"(Some {g_elem(e)})"


def g_meta(m):
    return "None" if m is None else f"(Some {m}%N)"


KINDS = {"V": "KVec", "L": "KList", "Q": "KQueue", "S": "KSet"}


def g_op(op):
    n = op[0]
    E = g_elem
    if n == "nil":
        return "ONil"
    if n == "new":
        return f"(ONew {KINDS[op[1]]} {g_list(map(E, op[2]))})"
    if n == "newmap":
        return "(ONewMap " + g_list(f"({E(k)}, {E(v)})" for k, v in op[1]) + ")"
    if n == "conj":
        return f"(OConj {op[1]} {g_list(map(E, op[2]))})"
    if n == "assoc":
        return f"(OAssoc {op[1]} {E(op[2])} {E(op[3])})"
    if n == "dissoc":
        return f"(ODissoc {op[1]} {E(op[2])})"
    if n == "disj":
        return f"(ODisj {op[1]} {E(op[2])})"
    if n in ("pop", "peek", "empty", "meta", "seq", "rseq", "count", "transient", "persistent"):
        c = {"pop": "OPop", "peek": "OPeek", "empty": "OEmpty", "meta": "OMeta", "seq": "OSeq",
             "rseq": "ORseq", "count": "OCount", "transient": "OTransient", "persistent": "OPersistent"}[n]
        return f"({c} {op[1]})"
    if n in ("into", "merge", "eq"):
        c = {"into": "OInto", "merge": "OMerge", "eq": "OEq"}[n]
        return f"({c} {op[1]} {op[2]})"
    if n == "wm":
        return f"(OWithMeta {op[1]} {g_meta(op[2])})"
    if n == "update":
        return f"(OUpdate {op[1]} {E(op[2])})"
    if n in ("nth", "get"):
        c = "ONth" if n == "nth" else "OGet"
        d = g_opt(op[3]) if len(op) > 3 else "None"
        return f"({c} {op[1]} {E(op[2])} {d})"
    if n == "contains":
        return f"(OContains {op[1]} {E(op[2])})"
    if n == "conj!":
        return f"(OConjT {op[1]} {E(op[2])})"
    if n == "assoc!":
        return f"(OAssocT {op[1]} {E(op[2])} {E(op[3])})"
    if n == "dissoc!":
        return f"(ODissocT {op[1]} {E(op[2])})"
    if n == "disj!":
        return f"(ODisjT {op[1]} {E(op[2])})"
    if n == "pop!":
        return f"(OPopT {op[1]})"
    raise ValueError(op)


# variadic calls: name -> the unary operation they are the left fold of
NARY = {"assocn": "assoc", "dissocn": "dissoc", "disjn": "disj", "conj!n": "conj!", "assoc!n": "assoc!",
        "dissoc!n": "dissoc!", "disj!n": "disj!"}
NOREF = ("new", "newmap", "nil")
REF2 = ("into", "merge", "eq")
BADPOS = 999999


def unfold_nary(op, target):
    """the unary operations of one variadic call, the first on `target`; None marks 'the slot of
    the previous one'"""
    u = NARY[op[0]]
    args = [list(a) for a in op[2]] if u in ("assoc", "assoc!") else [[a] for a in op[2]]
    return [[u, target if j == 0 else None] + a for j, a in enumerate(args)]


def expand(ops):
    """(group sizes, history in which every variadic call is unfolded to the chain of unary
    operations; every reference renumbered to the LAST slot of the group it names)"""
    gs, flat, last = [], [], []

    def ref(i):
        return last[i] if isinstance(i, int) and 0 <= i < len(last) else BADPOS

    for op in ops:
        if op[0] in NARY and len(op[2]) >= 1:
            chain = unfold_nary(op, ref(op[1]))
            for u in chain:
                if u[1] is None:
                    u[1] = len(flat) - 1
                flat.append(u)
            gs.append(len(chain))
        else:
            op = list(op)
            if op[0] in NARY:                       # no argument at all: not generated; (f c) is c
                op = ["conj", op[1], []]
            if op[0] not in NOREF and len(op) > 1:
                op[1] = ref(op[1])
            if op[0] in REF2:
                op[2] = ref(op[2])
            flat.append(op)
            gs.append(1)
        last.append(len(flat) - 1)
    return gs, flat


def has_nary(c):
    return any(o[0] in NARY for o in c["ops"])


def coq_case(c):
    if not has_nary(c):
        return "(CHist " + g_list(g_op(o) for o in c["ops"]) + ")"
    gs, flat = expand(c["ops"])
    return "(CHistV " + g_list(str(n) for n in gs) + "%nat " + g_list(g_op(o) for o in flat) + ")"


CK = {"V": "CVec", "L": "CList", "Q": "CQueue", "S": "CSet"}


def g_coll(kind, contents):
    if kind == "M":
        return "(CMap " + g_list(f"({g_elem(k)}, {g_elem(v)})" for k, v in contents) + ")"
    if kind in CK:
        return f"({CK[kind]} {g_list(map(g_elem, contents))})"
    return "(CVec [EA (AObj 999998)])"


def g_obs(o):
    if "c" in o:
        kind, contents, meta = o["c"]
        m = "None" if meta is None else ("(Some 999999%N)" if meta < 0 else f"(Some {meta}%N)")
        return f"(RColl {g_coll(kind, contents)} {m})"
    if "t" in o:
        return f"(RTrans {o['t']})"
    if "v" in o:
        return f"(RVal {g_elem(o['v'])})"
    if "b" in o:
        return f"(RBool {'true' if o['b'] else 'false'})"
    if "n" in o:
        return f"(RNum {o['n']})" if o["n"] >= 0 else f"(RNum ({o['n']}))"
    if "s" in o:
        return f"(RSeq {'true' if o['s'][0] else 'false'} {g_list(map(g_elem, o['s'][1]))})"
    if "e" in o:
        return f"(RErr {o['e']}%N)"
    return "(RErr 78%N)"


def coq_out(o):
    if "obs" not in o:
        if o.get("__timeout__") or o.get("__hang__"):
            return "(OFail 9%N)"
        return "(OFail 7%N)"
    obs = g_list(g_obs(x) for x in o["obs"])
    st = "true" if all(o["stable"]) and len(o["stable"]) == len(o["obs"]) else "false"
    cells = g_list(g_coll(c[0], c[1]) for c in o["cells"])
    return f"(OOut {obs} {st} {cells})"


# ---------------------------------------------------------------------------------------
# a light Python shadow of the histories (guides generation only; it is not an oracle)
# elements: None, False/True, int, float, ("k", n), ("o", n), tuple of elements (vector)
# ---------------------------------------------------------------------------------------
def to_py(e):
    if e is None or isinstance(e, (bool, int)):
        return e
    if isinstance(e, list):
        return tuple(to_py(x) for x in e)
    if "f" in e:
        return float(e["f"])
    if "k" in e:
        return ("k", e["k"])
    return ("o", e["o"])


class Shadow:
    """slot = (kind, payload, meta): kind in N V L Q M S T X ; T payload = address"""

    def __init__(self):
        self.slots = []
        self.cells = []      # [kind, payload, finished]

    def usable(self, i):
        return 0 <= i < len(self.slots) and self.slots[i][0] != "X"

    def step(self, op):
        if op[0] in NARY and op[2]:
            # the fold of the unary operation over temporary slots; stops at the first failure
            # (a transient keeps what the earlier arguments did to it)
            n = len(self.slots)
            r = ("X", None, None)
            for u in unfold_nary(op, op[1]):
                if u[1] is None:
                    u[1] = len(self.slots) - 1
                try:
                    r = self._step(u)
                except Exception:
                    r = ("X", None, None)
                self.slots.append(r)
                if r[0] == "X":
                    break
            del self.slots[n:]
            self.slots.append(r)
            return r
        try:
            r = self._step(op)
        except Exception:
            r = ("X", None, None)
        self.slots.append(r)
        return r

    def _tgt(self, i):
        k, p, m = self.slots[i]
        if k == "X":
            raise KeyError
        return k, p, m

    def _conj(self, k, p, xs):
        if k == "V" or k == "Q":
            return p + list(xs)
        if k == "L":
            return list(reversed(xs)) + p
        if k == "S":
            d = dict(p)
            for x in xs:
                d.setdefault(x, x)
            return d
        if k == "M":
            d = dict(p)
            for x in xs:
                if x is None:
                    continue
                if not (isinstance(x, tuple) and len(x) == 2 and not (x and x[0] in ("k", "o") and isinstance(x[1], int))):
                    raise ValueError
                d[x[0]] = x[1]
            return d
        raise ValueError

    def _items(self, k, p):
        if k == "N":
            return []
        if k == "M":
            return [(a, b) for a, b in p.items()]
        if k == "S":
            return list(p.keys())
        if k in "VLQ":
            return list(p)
        raise ValueError

    def _step(self, op):
        n = op[0]
        P = to_py
        X = ("X", None, None)
        if n == "nil":
            return ("N", None, None)
        if n == "new":
            l = [P(x) for x in op[2]]
            if op[1] == "S":
                return ("S", self._conj("S", {}, l), None)
            return (op[1], l, None)
        if n == "newmap":
            d = {}
            for k, v in op[1]:
                d[P(k)] = P(v)
            return ("M", d, None)
        k, p, m = self._tgt(op[1])
        if n == "conj":
            xs = [P(x) for x in op[2]]
            if not xs:
                return (k, p, m)
            if k == "N":
                return ("L", list(reversed(xs)), None)
            if k == "T":
                return X
            return (k, self._conj(k, p, xs), m)
        if n in ("assoc", "update"):
            key = P(op[2])
            val = P(op[3]) if n == "assoc" else ("u",)
            if k == "N":
                return ("M", {key: val}, None)
            if k == "M":
                d = dict(p)
                d[key] = val
                return ("M", d, m)
            if k == "V" and isinstance(key, int) and -len(p) <= key <= len(p):
                q = list(p)
                if key == len(p):
                    q.append(val)
                else:
                    q[key] = val
                return ("V", q, m)
            return X
        if n == "dissoc":
            if k == "N":
                return ("N", None, None)
            if k == "M":
                d = dict(p)
                d.pop(P(op[2]), None)
                return ("M", d, m)
            return X
        if n == "disj":
            if k == "N":
                return ("N", None, None)
            if k == "S":
                d = dict(p)
                d.pop(P(op[2]), None)
                return ("S", d, m)
            return X
        if n == "pop":
            if k == "N":
                return ("N", None, None)
            if k == "V" and p:
                return ("V", p[:-1], None)
            if k in "LQ" and p:
                return (k, p[1:], m if k == "Q" else None)
            return X
        if n == "into":
            k2, p2, _ = self._tgt(op[2])
            if k2 == "T" or k == "T":
                return X
            xs = [tuple(x) for x in self._items(k2, p2)] if k2 == "M" else self._items(k2, p2)
            if k == "N":
                return ("L", list(reversed(xs)), None) if xs else ("N", None, None)
            return (k, self._conj(k, p, xs), m)
        if n == "empty":
            if k in "VLQ":
                return (k, [], m)
            if k in "MS":
                return (k, {}, m)
            return ("N", None, None)
        if n == "wm":
            if k in "VLQMS":
                return (k, p, op[2] if op[2] is not None else m)
            if op[2] is None:
                return (k, p, m)
            return X
        if n == "merge":
            k2, p2, _ = self._tgt(op[2])
            if k == "N" and k2 == "N":
                return ("N", None, None)
            d = {}
            for kk, pp in ((k, p), (k2, p2)):
                if kk == "M":
                    d.update(pp)
                elif kk != "N":
                    it = self._items(kk, pp)
                    if len(it) != 2:
                        return X
                    d[it[0]] = it[1]
            return ("M", d, None)
        if n == "transient":
            if k in "VMS":
                self.cells.append([k, list(p) if k == "V" else dict(p), False])
                return ("T", len(self.cells) - 1, None)
            return X
        if n in ("persistent", "conj!", "assoc!", "dissoc!", "disj!", "pop!"):
            if k != "T":
                return X
            cell = self.cells[p]
            ck, cp, fin = cell
            if n == "persistent":
                if ck != "V":
                    cell[2] = True
                return (ck, list(cp) if ck == "V" else dict(cp), None)
            if fin and ck != "V":
                return X
            if n == "conj!":
                cell[1] = self._conj(ck, cp, [P(op[2])])
            elif n == "assoc!":
                key = P(op[2])
                if ck == "M":
                    cp[key] = P(op[3])
                elif ck == "V" and isinstance(key, int) and -len(cp) <= key <= len(cp):
                    if key == len(cp):
                        cp.append(P(op[3]))
                    else:
                        cp[key] = P(op[3])
                else:
                    return X
            elif n == "dissoc!":
                if ck != "M":
                    return X
                cp.pop(P(op[2]), None)
            elif n == "disj!":
                if ck != "S":
                    return X
                cp.pop(P(op[2]), None)
            elif n == "pop!":
                if ck != "V" or not cp:
                    return X
                cp.pop()
            return ("T", p, None)
        return X        # reads: peek meta seq rseq count nth get contains eq

    def size(self, i):
        k, p, m = self.slots[i]
        if k == "T":
            return len(self.cells[p][1])
        if k in "VLQMS":
            return len(p)
        return 0

    def kind(self, i):
        k, p, m = self.slots[i]
        if k == "T":
            return "T" + self.cells[p][0]
        return k


# ---------------------------------------------------------------------------------------
# generators
# ---------------------------------------------------------------------------------------
K1, K2, K3 = 1, {"f": 1}, {"o": 0}          # 1, 1.0 (equal, same hash), an object with the same hash
KW = lambda n: {"k": n}


def battery(kind, last, root):
    """reads appended to every exhaustive case, on the latest value (every earlier value is
    re-read by the worker anyway), and a comparison with the first one"""
    t = last
    ops = [["count", t], ["seq", t], ["meta", t], ["get", t, K1], ["get", t, K3, KW(9)], ["contains", t, K2]]
    if kind in "VLQ":
        ops += [["peek", t], ["nth", t, 1, KW(9)], ["nth", t, 0]]
    if kind == "V":
        ops += [["rseq", t], ["contains", t, 1]]
    ops.append(["eq", last, root])
    return ops


def mutators(kind):
    """abstract actions: f(t, other, tr) -> op  (t: operand position, other: the other candidate,
    tr: latest transient or None); None = not applicable"""
    A = []
    on = lambda f: A.append(("c", f))          # on a collection operand (latest and first)
    ont = lambda f: A.append(("t", f))         # on the latest transient
    if kind == "V":
        on(lambda t, o: ["conj", t, [K1]]); on(lambda t, o: ["conj", t, [K3, None]])
        on(lambda t, o: ["assoc", t, 0, KW(1)]); on(lambda t, o: ["assoc", t, 1, False])
        on(lambda t, o: ["pop", t]); on(lambda t, o: ["update", t, 0])
        ont(lambda t: ["conj!", t, K2]); ont(lambda t: ["assoc!", t, 0, KW(2)]); ont(lambda t: ["pop!", t])
    if kind in "LQ":
        on(lambda t, o: ["conj", t, [K1]]); on(lambda t, o: ["conj", t, [K3, None]])
        on(lambda t, o: ["pop", t])
    if kind == "M":
        on(lambda t, o: ["assoc", t, K1, KW(1)]); on(lambda t, o: ["assoc", t, K2, None])
        on(lambda t, o: ["assoc", t, K3, False]); on(lambda t, o: ["dissoc", t, K1])
        on(lambda t, o: ["dissoc", t, K3]); on(lambda t, o: ["conj", t, [[K3, K1]]])
        on(lambda t, o: ["update", t, K2]); on(lambda t, o: ["merge", t, o])
        ont(lambda t: ["assoc!", t, K3, KW(2)]); ont(lambda t: ["dissoc!", t, K2]); ont(lambda t: ["conj!", t, [K1, K1]])
    if kind == "S":
        on(lambda t, o: ["conj", t, [K1]]); on(lambda t, o: ["conj", t, [K2]]); on(lambda t, o: ["conj", t, [K3, None]])
        on(lambda t, o: ["disj", t, K2]); on(lambda t, o: ["disj", t, K3])
        ont(lambda t: ["conj!", t, K3]); ont(lambda t: ["disj!", t, K1])
    on(lambda t, o: ["wm", t, 7]); on(lambda t, o: ["empty", t]); on(lambda t, o: ["into", t, o])
    if kind in "VMS":
        on(lambda t, o: ["transient", t])
        ont(lambda t: ["persistent", t])
    return A


STARTS = {
    "V": [["new", "V", []], ["new", "V", [K1, KW(0)]]],
    "L": [["new", "L", []], ["new", "L", [K1, KW(0)]]],
    "Q": [["new", "Q", []], ["new", "Q", [K1, KW(0)]]],
    "M": [["newmap", []], ["newmap", [[K1, KW(0)], [None, False]]]],
    "S": [["new", "S", []], ["new", "S", [K1, None]]],
}
COLL_RESULT = {"new", "newmap", "conj", "assoc", "dissoc", "disj", "pop", "into", "empty", "wm", "update",
               "merge", "persistent", "nil"}


def _alphabet(kind, root_actions):
    alphabet = []
    for tag, f in mutators(kind):
        if tag == "c":
            alphabet.append((tag, f, "last"))
            if root_actions:
                alphabet.append((tag, f, "root"))
        else:
            alphabet.append((tag, f, None))
    return alphabet


def _instantiate(kind, start, seq):
    """a sequence of abstract actions as a history; None when a transient action comes before
    any transient exists"""
    ops = [start]
    last, tr = 0, None
    for tag, f, who in seq:
        if tag == "t":
            if tr is None:
                return None
            op = f(tr)
        else:
            t = last if who == "last" else 0
            op = f(t, 0 if who == "last" else last)
        ops.append(op)
        pos = len(ops) - 1
        if op[0] == "transient":
            tr = pos
        elif op[0] in COLL_RESULT:
            last = pos
    return {"ops": ops + battery(kind, last, 0)}


def exhaustive(kind, length, root_actions=True, exact=False):
    """every sequence of at most (exactly) `length` mutators; each mutator of a collection may
    address the latest collection value or the first one (branching)"""
    alphabet = _alphabet(kind, root_actions)
    for start in STARTS[kind]:
        for n in range(length if exact else 0, length + 1):
            for seq in itertools.product(alphabet, repeat=n):
                c = _instantiate(kind, start, seq)
                if c is not None:
                    yield c


def sampled_sequences(rng, length, n):
    out = 0
    while out < n:
        kind = rng.choice("VVLQMMS")
        alphabet = _alphabet(kind, True)
        c = _instantiate(kind, rng.choice(STARTS[kind]), [rng.choice(alphabet) for _ in range(length)])
        if c is not None:
            out += 1
            yield c


def variadic_cases():
    """variadic calls performed as ONE call by the implementation: disj / dissoc (and disj! / dissoc!)
    with 2 and 3 arguments where present and absent elements / keys come in every order (2 arguments
    over two present -- 1.0 for the stored 1, nil -- and two absent ones -- a keyword, the object
    colliding with 1 --; 3 arguments over present / absent / present), assoc / assoc! with two pairs
    on maps (all key pairs) and on vectors (all index pairs of 0..3: in place, append, out of range
    first or second), conj / conj! with 3 elements"""
    rd = lambda t: [["count", t], ["seq", t], ["get", t, K1], ["contains", t, K2], ["contains", t, None]]

    def both(start, name, args, kind):
        # persistent: the call, reads of the result, the source once more
        yield {"ops": [start, [name, 0, args]] + battery(kind, 1, 0)}
        # transient: the call, reads through the transient, persistent!, reads of the result
        tn = name[:-1] + "!n"
        yield {"ops": [start, ["transient", 0], [tn, 1, args]] + rd(2) + [["persistent", 2]] + battery(kind, 8, 0)}

    P1, P2, A1, A2 = K2, None, KW(5), K3
    tuples = list(itertools.product([P1, P2, A1, A2], repeat=2)) + list(itertools.product([P1, A1, P2], repeat=3))
    for args in tuples:
        for start in (["new", "S", []], ["new", "S", [K1, None, KW(0)]]):
            yield from both(start, "disjn", list(args), "S")
        for start in (["newmap", []], ["newmap", [[K1, KW(0)], [None, False], [KW(0), 2]]]):
            yield from both(start, "dissocn", list(args), "M")
    keys = [K1, K2, K3, None, KW(5)]
    for k1, k2 in itertools.product(keys, repeat=2):
        for start in STARTS["M"]:
            yield from both(start, "assocn", [[k1, KW(1)], [k2, False]], "M")
    for i1, i2 in itertools.product(range(4), repeat=2):
        for start in STARTS["V"]:
            yield from both(start, "assocn", [[i1, KW(1)], [i2, None]], "V")
    # on nil, on the wrong kind, three pairs / elements, an ill-formed entry in the middle
    for args3 in ([K1, K2, K3], [None, KW(1), K1], [[K1, KW(1)], [K2, KW(2)], [K3, 1]], [[K1, KW(1)], K1, [K3, 1]],
                  [[K1, KW(1)], None, [K2, 2]]):
        for kind in "VLQMS":
            for start in STARTS[kind]:
                yield {"ops": [start, ["conj", 0, args3]] + battery(kind, 1, 0)}
                if kind in "VMS":
                    yield {"ops": [start, ["transient", 0], ["conj!n", 1, args3]] + rd(2) + [["persistent", 2]]
                           + battery(kind, 8, 0)}
        yield {"ops": [["nil"], ["conj", 0, args3], ["count", 1], ["seq", 1]]}
    for name, args in (("disjn", [A1, P1]), ("dissocn", [A1, P1]), ("assocn", [[K1, 1], [K3, 2], [K2, 3]]),
                       ("assocn", [[0, 1], [1, 2], [2, 3]])):
        yield {"ops": [["nil"], [name, 0, args], ["count", 1], ["seq", 1]]}
        for kind in "VLQMS":
            yield {"ops": [STARTS[kind][1], [name, 0, args], ["count", 1], ["seq", 0],
                           [name[:-1] + "!n", 0, args], ["transient", 0], [name, 5, args]]}


def rand_elem(rng, pool):
    r = rng.random()
    if r < 0.8:
        return rng.choice(pool)
    if r < 0.9:
        return [rng.choice(pool), rng.choice(pool)]
    return [rng.choice(pool) for _ in range(rng.choice([0, 1, 3]))]


def random_history(rng, length, big=0):
    """mostly valid operations chosen with the shadow's knowledge of kinds and sizes"""
    pool = [K1, K2, K3, {"o": 1}, None, False, 2, 3, KW(0), KW(1), 34, 35, -1 if rng.random() < 0.15 else 4]
    if big:
        pool += list(range(5, 5 + big))
    sh = Shadow()
    ops = []

    def emit(op):
        ops.append(op)
        sh.step(op)

    nstart = rng.choice([1, 2, 3])
    for _ in range(nstart):
        kind = rng.choice("VLQMSVM")
        n0 = rng.choice([0, 1, 2, 3]) if not big else rng.randint(33, 33 + big)
        if kind == "M":
            emit(["newmap", [[rng.choice(pool) if not big else j, rand_elem(rng, pool)] for j in range(n0)]])
        else:
            emit(["new", kind, [rand_elem(rng, pool) if not big else j for j in range(n0)]])
    if rng.random() < 0.3:
        emit(["nil"])
    while len(ops) < length:
        cands = [i for i in range(len(ops)) if sh.usable(i)]
        if not cands or rng.random() < 0.02:
            t = rng.randrange(len(ops))                      # any result, usable or not
        else:
            # prefer recent values but keep picking up old ones
            t = cands[-1 - min(int(rng.expovariate(0.5)), len(cands) - 1)] if rng.random() < 0.6 else rng.choice(cands)
        k = sh.kind(t) if sh.usable(t) else "X"
        n = sh.size(t) if sh.usable(t) else 0
        others = cands or [0]
        o = rng.choice(others)
        key = rng.choice(pool)
        idx = rng.choice([0, n - 1 if n else 0, n, rng.randint(0, n), n + 1, -1, -n, -n - 1, rng.randint(0, max(n, 1))]) \
            if rng.random() < 0.25 else rng.randint(0, n)
        val = rand_elem(rng, pool)
        r = rng.random()
        if r < 0.05:
            menu = [["eq", t, o], ["count", t], ["seq", t], ["meta", t], ["empty", t], ["wm", t, rng.choice([None, 1, 2])]]
        elif k == "V":
            menu = [["conj", t, [val]], ["conj", t, [val, rand_elem(rng, pool)]], ["assoc", t, idx, val],
                    ["pop", t], ["peek", t], ["nth", t, idx], ["nth", t, idx, KW(9)], ["get", t, idx],
                    ["get", t, key, KW(9)], ["contains", t, idx], ["update", t, idx], ["into", t, o],
                    ["rseq", t], ["seq", t], ["transient", t], ["wm", t, rng.choice([None, 1, 2])],
                    ["empty", t], ["count", t], ["eq", t, o], ["meta", t]]
        elif k in ("L", "Q"):
            menu = [["conj", t, [val]], ["conj", t, [val, rand_elem(rng, pool)]], ["pop", t], ["peek", t],
                    ["nth", t, idx, KW(9)], ["nth", t, idx], ["get", t, key], ["into", t, o], ["seq", t],
                    ["wm", t, rng.choice([None, 1, 2])], ["empty", t], ["count", t], ["eq", t, o], ["meta", t]]
            if k == "Q":
                menu = [m for m in menu if m[0] != "nth" or rng.random() < 0.1]
        elif k == "M":
            menu = [["assoc", t, key, val], ["assoc", t, key, val], ["dissoc", t, key], ["conj", t, [[key, val]]],
                    ["conj", t, [None, [key, val]]], ["get", t, key], ["get", t, key, KW(9)], ["contains", t, key],
                    ["update", t, key], ["merge", t, o], ["into", t, o], ["seq", t], ["transient", t],
                    ["wm", t, rng.choice([None, 1, 2])], ["empty", t], ["count", t], ["eq", t, o], ["meta", t]]
        elif k == "S":
            menu = [["conj", t, [val]], ["conj", t, [key, val]], ["disj", t, key], ["get", t, key],
                    ["get", t, key, KW(9)], ["contains", t, key], ["into", t, o], ["seq", t], ["transient", t],
                    ["wm", t, rng.choice([None, 1, 2])], ["empty", t], ["count", t], ["eq", t, o], ["meta", t]]
        elif k == "N":
            menu = [["conj", t, [val]], ["assoc", t, key, val], ["dissoc", t, key], ["disj", t, key], ["pop", t],
                    ["peek", t], ["get", t, key, KW(9)], ["nth", t, idx, KW(9)], ["nth", t, idx], ["contains", t, key],
                    ["update", t, key], ["into", t, o], ["merge", t, o], ["seq", t], ["count", t], ["empty", t],
                    ["meta", t], ["eq", t, o]]
        elif k == "TV":
            menu = [["conj!", t, val], ["conj!", t, val], ["assoc!", t, idx, val], ["pop!", t], ["persistent", t],
                    ["count", t], ["nth", t, idx, KW(9)], ["get", t, idx], ["contains", t, idx], ["nth", t, idx]]
        elif k == "TM":
            menu = [["assoc!", t, key, val], ["assoc!", t, key, val], ["dissoc!", t, key], ["conj!", t, [key, val]],
                    ["conj!", t, None], ["persistent", t], ["count", t], ["get", t, key, KW(9)], ["contains", t, key]]
        elif k == "TS":
            menu = [["conj!", t, val], ["conj!", t, key], ["disj!", t, key], ["persistent", t], ["count", t],
                    ["get", t, key, KW(9)], ["contains", t, key]]
        else:
            menu = [["count", t], ["conj", t, [val]], ["seq", t]]
        # variadic calls (one call on the implementation side, the fold of the unary operation in Coq)
        key2, val2 = rng.choice(pool), rand_elem(rng, pool)
        narg = rng.choice([2, 2, 3])
        ks = [key, key2, rng.choice(pool)][:narg]
        if k in ("M", "N"):
            menu += [["dissocn", t, ks], ["assocn", t, [[key, val], [key2, val2]]]]
        if k in ("S", "N"):
            menu += [["disjn", t, ks], ["disjn", t, ks[::-1]]]
        if k == "V":
            menu += [["assocn", t, [[idx, val], [rng.randint(0, n + 1), val2]]]]
        if k == "TV":
            menu += [["conj!n", t, [val, val2]], ["assoc!n", t, [[idx, val], [rng.randint(0, n + 1), val2]]]]
        if k == "TM":
            menu += [["assoc!n", t, [[key, val], [key2, val2]]], ["dissoc!n", t, ks], ["conj!n", t, [[key, val], [key2, val2]]]]
        if k == "TS":
            menu += [["conj!n", t, [val, key2]], ["disj!n", t, ks]]
        if rng.random() < 0.03:        # an operation of another kind's menu: the error paths
            menu = [["assoc", t, key, val], ["dissoc", t, key], ["disj", t, key], ["pop", t], ["peek", t],
                    ["nth", t, idx], ["contains", t, key], ["rseq", t], ["transient", t], ["persistent", t],
                    ["conj!", t, val], ["assoc!", t, key, val], ["dissoc!", t, key], ["disj!", t, key], ["pop!", t],
                    ["update", t, key], ["merge", t, o], ["into", t, o], ["into", o, t], ["wm", t, 3], ["seq", t],
                    ["dissocn", t, ks], ["disjn", t, ks], ["assocn", t, [[key, val], [key2, val2]]],
                    ["conj!n", t, [val, val2]], ["assoc!n", t, [[key, val], [key2, val2]]], ["dissoc!n", t, ks],
                    ["disj!n", t, ks]]
        op = rng.choice(menu)
        if order_exposing(sh, op):
            op = ["count", t]
        emit(op)
    return {"ops": ops}


def _entry_keys_collide(items):
    """do two of these elements, read as map entries [k v], have the same key?"""
    keys = [x[0] for x in items if isinstance(x, tuple) and len(x) == 2 and not isinstance(x[0], str)]
    return any(a == b for i, a in enumerate(keys) for b in keys[i + 1:])


def order_exposing(sh, op):
    """Does `op` turn the order in which the library iterates a map or set of >= 2 elements into
    something the comparison with the model sees exactly (the position of an element in a vector,
    list or queue, or which of two entries with the same key wins)?

    The theorems hold for every `Libs`, and the laws fix the iteration of a map only up to
    `Permutation`; the executable instance the correspondence runs (`ListLibs`) iterates in
    insertion order, immutables' HAMT by hash bits ((into [] {0 :a 32 :b 1 :c}) is
    [[0 :a] [32 :b] [1 :c]]).  On such an operation the list instance predicts ONE of the
    permutations the model allows and the implementation takes another: bit 1 of the verdict would
    be set although the code behaves as modelled, and a known finding elsewhere in the same history
    would then be reported as a VIOLATION (known needs impl = model).  The specification is not
    concerned (it uses the observed order; (seq m) is checked exactly against the order m was
    observed in).  The decision is taken on the operands the operation really has (op[1] = `to`,
    op[2] = `from`), whichever menu the operation came from."""
    if op[0] not in ("into", "merge"):
        return False
    # a result the shadow does not follow (a read: meta, peek, get ...) is either nil -- the worker
    # and the model accept every nil result as an operand -- or a bad reference
    k1, k2 = (sh.kind(i) if sh.usable(i) else "N" for i in (op[1], op[2]))
    if op[0] == "into":
        if k2 not in ("M", "S") or sh.size(op[2]) < 2:
            return False
        if k1 in ("V", "L", "Q", "N"):
            return True                       # positions
        if k1 == "M" and k2 == "S":           # set elements conj'ed as entries: the later one wins
            return _entry_keys_collide(list(sh.slots[op[2]][1].keys()))
        return False                          # into a set, map into map (distinct keys): a multiset
    # merge: a two-element collection is read as ONE entry [k v] in iteration order (>= 2: the
    # shadow's sizes are only a guide)
    return any(sh.kind(i) == "S" and sh.size(i) >= 2 for i in (op[1], op[2]))


def cases(tier, rng):
    quick = tier == "quick"
    for kind in "VLQMS":
        # every sequence of <= 2 mutators, each applied to the latest value or to the first one
        yield from exhaustive(kind, 2, root_actions=True)
    yield from variadic_cases()
    if quick:
        # length 3: a seeded sample (the thorough tier enumerates them all)
        yield from sampled_sequences(rng, 3, 600)
    else:
        for kind in "VLQMS":
            yield from exhaustive(kind, 3, root_actions=True, exact=True)
        yield from sampled_sequences(rng, 4, 20000)
        yield from sampled_sequences(rng, 5, 10000)
    for _ in range(1000 if quick else 20000):
        yield random_history(rng, rng.randint(4, 25))
    for _ in range(20 if quick else 3000):
        yield random_history(rng, rng.randint(20, 40 if quick else 60), big=rng.choice([3, 8, 40]))


def nontrivial(case, out):
    return sum(1 for o in out.get("obs", []) if "c" in o) >= 2


def describe(c):
    return " ; ".join(str(o) for o in c["ops"])


def shrink(c):
    """drop one operation that no later operation refers to (renumbering the references)"""
    ops = c["ops"]
    REF2 = {"into", "merge", "eq"}
    for d in range(len(ops) - 1, -1, -1):
        used = False
        for op in ops[d + 1:]:
            refs = [op[1]] if len(op) > 1 and op[0] not in ("new", "newmap", "nil") else []
            if op[0] in REF2:
                refs.append(op[2])
            if d in refs:
                used = True
                break
        if used:
            continue
        new = []
        for j, op in enumerate(ops):
            if j == d:
                continue
            op = list(op)
            if len(op) > 1 and op[0] not in ("new", "newmap", "nil") and isinstance(op[1], int) and op[1] > d:
                op[1] -= 1
            if op[0] in REF2 and op[2] > d:
                op[2] -= 1
            new.append(op)
        if new:
            yield {"ops": new}


def observed_order_exposing(case, out):
    """the exact counterpart of `order_exposing`, decided on what the implementation returned
    (kinds and sizes of the operands as observed) instead of the shadow's guess; evidence only"""
    obs = out.get("obs", [])

    def kind(i):
        ob = obs[i]
        if ob == {"v": None}:
            return "N", []
        return (ob["c"][0], ob["c"][1]) if "c" in ob else (None, [])

    hits = []
    for i, op in enumerate(case["ops"][:len(obs)]):
        if op[0] not in ("into", "merge") or not all(isinstance(x, int) and 0 <= x < i for x in op[1:3]):
            continue
        (k1, c1), (k2, c2) = kind(op[1]), kind(op[2])
        if k1 is None or k2 is None:
            continue
        if op[0] == "merge":
            if (k1 == "S" and len(c1) == 2) or (k2 == "S" and len(c2) == 2):
                hits.append(i)
        elif k2 in ("M", "S") and len(c2) >= 2:
            if k1 in ("V", "L", "Q", "N"):
                hits.append(i)
            elif k1 == "M" and k2 == "S":
                ks = [to_py(x[0]) for x in c2 if isinstance(x, list) and len(x) == 2]
                if any(a == b for n, a in enumerate(ks) for b in ks[n + 1:]):
                    hits.append(i)
    return hits


def extra_evidence(cases_, outs):
    dist, kinds, errs, lens = {}, {}, 0, {}
    for c, o in zip(cases_, outs):
        for op in c["ops"]:
            dist[op[0]] = dist.get(op[0], 0) + 1
        lens[len(c["ops"]) // 10 * 10] = lens.get(len(c["ops"]) // 10 * 10, 0) + 1
        for ob in o.get("obs", []):
            if "c" in ob:
                kinds[ob["c"][0]] = kinds.get(ob["c"][0], 0) + 1
            if "e" in ob:
                errs += 1
    big = sum(1 for o in outs for ob in o.get("obs", []) if "c" in ob and len(ob["c"][1]) >= 33)
    exposing = sum(1 for c, o in zip(cases_, outs) if observed_order_exposing(c, o))
    return {"operation_distribution": dist, "collection_results_by_kind": kinds, "exception_results": errs,
            "history_length_histogram": lens, "observations_with_33_or_more_elements": big,
            # must stay 0: such a history makes the list instance of the model guess an iteration order
            "histories_with_an_order_exposing_operation": exposing}
