"""C08 -- calls bind arguments to the right arity however the call is made."""
import itertools

from harness.vlib import gallina as G

ID = "C08"
TITLE = "Calls bind arguments to the right arity however the call is made"
CORR = "Verif.C08.Corr"
CORR_TARGETS = ["theories/C08/Corr.vo"]
TARGETS = ["theories/Properties/C08.vo"]
PROPERTIES_FILE = "theories/Properties/C08.v"
IMPL = "harness.props.c08_impl"
TABLE_DEPS = ["arity_dispatch_cmp", "arity_apply_to_shape", "arity_apply_shape", "arity_unwrap_shape",
              "arity_partial_shape", "arity_partial_cmp", "arity_trampoline_shape", "arity_tramp_nil",
              "arity_recur_flag", "arity_analyzer_rule"]
TAGGED = True
SHARD = 500
HARD_TIMEOUT = 120
# the 10^6-iteration recur cases of the thorough tier need more than the default 10 s on a loaded machine
WORKER_ENV = {"VERIF_CASE_SOFT_TIMEOUT": "60"}
RULE = ("thorough tier: the whole bounded domain, quick tier: a seeded sample of about 45 cases per signature "
        "(every argument count directly, 10 finite and 3 infinite apply shapes, partial, recur) of: every signature with fixed arities a subset of 0..4 and an optional variadic arity with "
        "max(fixed) <= m <= 4 (93 signatures; each fn is compiled from generated Lisp once per worker and "
        "returns [arity code, fixed params, rest param (nil or first 10), realized-count at body entry]) x "
        "{fn object, Var object, call site naming the global} x 0..8 arguments; apply with k in 0..5 leading "
        "arguments and an instrumented lazy tail of length 0..6 (k + length <= 8) or infinite (variadic only; "
        "raises a marker beyond 200 realized elements), also through the Var; partial of 1..3 arguments "
        "(and nested partials) then direct call or apply; the `arities` attribute of partials; recur in every "
        "arity of every signature with the last value drawn from {number, nil, seq of 0..3, infinite lazy "
        "seq, vector of 0..2}; Python stack depth relative to the call site sampled at the first, middle and "
        "last of 10 / 1000 / 10^5 (thorough: 10^6) iterations of loop, single-arity fn recur, multi-arity "
        "fn recur and variadic fn recur; plus random signatures with arities up to 7 and up to 12 arguments. "
        "TypeError (CPython binding of single-arity fns) and RuntimeException 'Wrong number of args' "
        "(dispatcher of multi-arity fns) are one observable value: arity error. "
        "Non-trivial = at least one argument or a non-empty tail or a recur value; distinct = distinct JSON.")
TRUSTED = ["CPython's binding of positional arguments to `def f(p1..pm, *rest)`: TypeError before the first "
           "statement of the body on a count mismatch, otherwise in-order binding (modelled by py_bind_fixed / "
           "py_bind_rest)",
           "dict.get on the dispatch map, len() of the argument tuple, tuple unpacking `*final, last = args`",
           "LazySeq realizes one cell per to_seq/first/rest step (C06's subject); runtime.concat is lazy in its "
           "last argument",
           "the realized-element counter is read by the first expression of the body (let-bound before "
           "anything else, because of the hoisting hazard F-02)"]
ASSUMPTIONS = ["argument values are distinct small integers; binding does not depend on the values",
               "an infinite tail is a lazy seq that raises a marker exception when realized beyond 200 elements",
               "recur values are one level deep: nil, numbers, ISeqs/vectors of numbers, one infinite lazy seq",
               "no keyword-argument support (:kwargs metadata), no async fns, no deftype methods"]
# Open findings (signature = defect tag computed by the model side, see `tag` in C08/Corr.v).
# F-08a/b are repaired in the working tree and have no signature: if a repair is reverted the
# model follows the source (regenerated flags), the implementation then equals the model but not
# the spec, and no open finding explains it -> VIOLATION (and the table obligations break).
FINDINGS = {
    "F-08c": lambda c, o, tag: bool(tag & 8),
    "F-08d": lambda c, o, tag: bool(tag & 1),
    "F-08e": lambda c, o, tag: bool(tag & 2),
}
EXHAUSTIVE = {"quick": False, "thorough": True}

MAXA = 4          # fixed arities 0..4
MAXN = 8          # argument counts 0..8


def signatures(maxa=MAXA):
    out = []
    for r in range(0, maxa + 2):
        for fx in itertools.combinations(range(maxa + 1), r):
            lo = max(fx) if fx else 0
            if fx:
                out.append((list(fx), None))
            for m in range(lo, maxa + 1):
                out.append((list(fx), m))
    return out


def _call(fx, vr, ps, how, sh):
    return {"k": "call", "fx": fx, "vr": vr, "ps": ps, "how": how, "sh": sh}


def _direct(n):
    return {"t": "direct", "n": n}


def _apply(k, tl, var=False):
    return {"t": "apply", "var": var, "k": k, "tl": tl}


LASTS = [["a", 5], ["nil"], ["seq", []], ["seq", [7]], ["seq", [7, 8]], ["seq", [7, 8, 9]], ["inf"],
         ["vec", []], ["vec", [7]], ["vec", [7, 8]]]


def recur_cases(fx, vr, lasts=LASTS):
    for n in fx:
        if n == 0:
            yield {"k": "recur", "fx": fx, "vr": vr, "ar": 0, "vs": []}
            continue
        for last in lasts:
            yield {"k": "recur", "fx": fx, "vr": vr, "ar": n,
                   "vs": [["a", 50 + i] for i in range(n - 1)] + [last]}
    if vr is not None:
        for last in lasts:
            if last[0] == "a":
                continue          # a number is not a legal rest value
            yield {"k": "recur", "fx": fx, "vr": vr, "ar": 100 + vr,
                   "vs": [["a", 50 + i] for i in range(vr)] + [last]}


def sig_categories(fx, vr, maxn=MAXN):
    """Every case of the bounded domain for one signature, grouped by call shape."""
    variadic = vr is not None
    tails = list(range(0, 7))
    cat = {}
    cat["direct"] = [_call(fx, vr, [], how, _direct(n)) for how in (0, 1, 2) for n in range(0, maxn + 1)]
    cat["apply"] = [_call(fx, vr, [], 0, _apply(k, tl)) for k in range(0, 6) for tl in tails if k + tl <= maxn]
    cat["apply_inf"] = [_call(fx, vr, [], 0, _apply(k, None)) for k in range(0, 6)] if variadic else []
    cat["apply_var"] = ([_call(fx, vr, [], 1, _apply(k, tl, var=True)) for k in range(0, 6) for tl in tails
                         if k + tl <= maxn]
                        + ([_call(fx, vr, [], 1, _apply(k, None, var=True)) for k in range(0, 6)] if variadic else []))
    cat["partial_direct"] = [_call(fx, vr, [p], 0, _direct(n)) for p in (1, 2, 3) for n in range(0, maxn - p + 1)]
    cat["partial_apply"] = [_call(fx, vr, [p], 0, _apply(k, tl)) for p in (1, 2, 3) for k in range(0, 5)
                            for tl in tails + ([None] if variadic else []) if tl is None or p + k + tl <= maxn]
    nested = []
    for ps in ([1, 1], [2, 1], [1, 2], [1, 1, 1], [3, 1]):
        nested += [_call(fx, vr, ps, 0, _direct(n)) for n in range(0, 6)]
        nested += [_call(fx, vr, ps, 0, _apply(0, tl)) for tl in [2] + ([None] if variadic else [])]
    cat["nested_partial"] = nested
    cat["arities"] = [{"k": "arities", "fx": fx, "vr": vr, "ps": ps}
                      for ps in ([], [1], [2], [3], [4], [5], [1, 1], [1, 2], [2, 2])]
    cat["recur"] = list(recur_cases(fx, vr))
    return cat


QUICK_TAKE = {"direct": 9, "apply": 10, "apply_inf": 3, "apply_var": 2, "partial_direct": 5, "partial_apply": 4,
              "nested_partial": 2, "arities": 3, "recur": 8}


def sig_cases(fx, vr, tier, rng, maxn=MAXN):
    cat = sig_categories(fx, vr, maxn)
    for name, lst in cat.items():
        if tier == "quick" and len(lst) > QUICK_TAKE[name]:
            if name == "direct":
                # every argument count once, the way of calling rotating with the seed
                off = rng.randrange(3)
                lst = [c for c in lst if c["how"] == (c["sh"]["n"] + off) % 3]
            else:
                lst = rng.sample(lst, QUICK_TAKE[name])
        yield from lst


def random_cases(rng, count):
    for _ in range(count):
        maxa = rng.randint(0, 7)
        fx = sorted(rng.sample(range(maxa + 1), rng.randint(0, min(4, maxa + 1))))
        lo = max(fx) if fx else 0
        vr = rng.choice([None, rng.randint(lo, 8)]) if fx else rng.randint(0, 8)
        ps = rng.choice([[], [], [rng.randint(1, 4)], [rng.randint(1, 3), rng.randint(1, 3)]])
        kind = rng.random()
        if kind < 0.35:
            yield _call(fx, vr, ps, rng.choice([0, 1] if ps else [0, 1, 2]), _direct(rng.randint(0, 12)))
        elif kind < 0.85:
            tl = rng.choice([None] * 2 + list(range(0, 10))) if vr is not None else rng.randint(0, 9)
            yield _call(fx, vr, ps, 0, _apply(rng.randint(0, 9), tl, var=False))
        elif kind < 0.9:
            yield {"k": "arities", "fx": fx, "vr": vr, "ps": ps}
        else:
            cs = list(recur_cases(fx, vr))
            if cs:
                yield rng.choice(cs)


def cases(tier, rng):
    for kind in (0, 1, 2, 3):
        for iters in (10, 1000, 100000) + ((1000000,) if tier != "quick" else ()):
            yield {"k": "stack", "kind": kind, "iters": iters}
    for fx, vr in signatures():
        yield from sig_cases(fx, vr, tier, rng)
    yield from random_cases(rng, 300 if tier == "quick" else 20000)


# ---- Gallina ---------------------------------------------------------------------------
def _nl(l):
    return G.lst([G.n(x) for x in l], "N")


def _on(v):
    return G.opt(v, G.n, "N")


def _rval(v):
    t = v[0]
    if t == "nil":
        return "VNil"
    if t == "a":
        return f"(VAtom {G.n(v[1])})"
    if t == "seq":
        return f"(VSeq {_nl(v[1])})"
    if t == "vec":
        return f"(VVec {_nl(v[1])})"
    if t == "inf":
        return "VInf"
    raise ValueError(v)


def coq_case(c):
    k = c["k"]
    if k == "call":
        sh = c["sh"]
        if sh["t"] == "direct":
            s = f"(ShDirect {G.n(sh['n'])})"
        else:
            s = f"(ShApply {G.b(sh['var'])} {G.n(sh['k'])} {_on(sh['tl'])})"
        return f"(CCall {_nl(c['fx'])} {_on(c['vr'])} {_nl(c['ps'])} {G.n(c['how'])} {s})"
    if k == "arities":
        return f"(CArities {_nl(c['fx'])} {_on(c['vr'])} {_nl(c['ps'])})"
    if k == "recur":
        return (f"(CRecur {_nl(c['fx'])} {_on(c['vr'])} {G.n(c['ar'])} "
                f"{G.lst([_rval(v) for v in c['vs']], 'rval')})")
    if k == "stack":
        return f"(CStack {G.n(c['kind'])} {G.n(c['iters'])})"
    raise ValueError(k)


def _ints_ok(l):
    return all(isinstance(i, int) and not isinstance(i, bool) and i >= 0 for i in l)


def coq_out(o):
    try:
        if "bound" in o:
            code, params, rest, cnt = o["bound"]
            if not (_ints_ok([code, cnt]) and _ints_ok(params) and (rest is None or _ints_ok(rest))):
                return "(OErr 1%N)"
            r = "(@None (list N))" if rest is None else f"(Some {_nl(rest)})"
            return f"(OBound {G.n(code)} {_nl(params)} {r} {G.n(cnt)})"
        if "arity_err" in o:
            return f"(OArityErr {G.n(o['arity_err'])})"
        if o.get("diverge"):
            return "ODiverge"
        if "arities" in o:
            if not _ints_ok(o["arities"]):
                return "(OErr 1%N)"
            return f"(OArities {_nl(o['arities'])} {G.b(bool(o['rest']))})"
        if "rbound" in o:
            code, params, rest = o["rbound"]
            allv = list(params) + (list(rest) if rest is not None else [])
            if any(v[0] == "other" for v in allv):
                return "(OErr 1%N)"
            r = "(@None (list rval))" if rest is None else "(Some " + G.lst([_rval(v) for v in rest], "rval") + ")"
            return f"(ORBound {G.n(code)} {G.lst([_rval(v) for v in params], 'rval')} {r})"
        if "depths" in o:
            if not _ints_ok(o["depths"]):
                return "(OErr 1%N)"
            return f"(ODepths {_nl(o['depths'])})"
        if o.get("__timeout__") or o.get("__hang__"):
            return "(OErr 2%N)"
    except Exception:
        return "(OErr 1%N)"
    return "(OErr 1%N)"


def nontrivial(c, o):
    if c["k"] == "call":
        sh = c["sh"]
        return (sh.get("n", 0) + sh.get("k", 0) + (sh.get("tl") or 0) + sum(c["ps"])) > 0 or sh.get("tl", 0) is None
    if c["k"] == "recur":
        return len(c["vs"]) > 0
    if c["k"] == "arities":
        return len(c["ps"]) > 0
    return True


def describe(c):
    if c["k"] == "call":
        return f"signature fixed={c['fx']} variadic={c['vr']} partial={c['ps']} how={c['how']} shape={c['sh']}"
    return f"{c['k']} {c}"


def shrink(c):
    if c["k"] == "call":
        sh = c["sh"]
        if c["ps"]:
            yield dict(c, ps=c["ps"][:-1])
        for key in ("n", "k", "tl"):
            if isinstance(sh.get(key), int) and sh[key] > 0:
                yield dict(c, sh=dict(sh, **{key: sh[key] - 1}))
        if sh.get("tl", 0) is None:
            yield dict(c, sh=dict(sh, tl=6))
    for i in range(len(c.get("fx", []))):
        fx = c["fx"][:i] + c["fx"][i + 1:]
        if (fx or c.get("vr") is not None) and c["k"] != "recur":
            yield dict(c, fx=fx)


def extra_evidence(cases_, outs):
    dist, kinds = {}, {}
    for c, o in zip(cases_, outs):
        key = c["k"]
        if key == "call":
            key += ":" + c["sh"]["t"] + (":var" if c["sh"].get("var") else "") + (":partial" if c["ps"] else "")
            if c["sh"].get("tl", 0) is None:
                key += ":inf"
        dist[key] = dist.get(key, 0) + 1
        ok = next((k for k in ("bound", "arity_err", "diverge", "arities", "rbound", "depths", "err") if k in o), "other")
        if ok == "arity_err":
            ok += ":" + str(o.get("cls"))
        kinds[ok] = kinds.get(ok, 0) + 1
    return {"input_distribution": dist, "output_kinds": kinds}
