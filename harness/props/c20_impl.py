"""C20 implementation side: evaluates one arithmetic operation of basilisp.core (or one
`operator/<name>` call) on the real basilisp of /repo along four call paths and reports
(python type, exact value) or the exception class for each.

paths
  lit    (op x y) compiled with the operands embedded as literals, default compiler options
         (inlining on: ^:inline fns are expanded, operator calls rewritten by the optimizer)
  apply  (apply op [x y]) -- the function object is called
  noinl  (op x y) compiled with the compiler option inline-functions = false
  var    a precompiled (fn [a b] (op a b)) called with the operand values
"""
import decimal
import fractions
import struct

from harness.vlib import bl

_st = {}

CORE_OPS = {"add": "+", "sub": "-", "mul": "*", "div": "/", "quot": "quot", "rem": "rem", "mod": "mod",
            "inc": "inc", "dec": "dec", "incq": "inc'", "decq": "dec'", "neg": "-", "abs": "abs", "inv": "/",
            "zerop": "zero?", "lt": "<", "le": "<=", "gt": ">", "ge": ">=", "eq": "="}


def setup():
    from basilisp.lang import keyword as kw, map as lmap, symbol as sym, runtime, compiler
    _st["ns"] = bl.fresh_ns("verif.c20.")
    _st["noinl"] = lmap.map({kw.keyword("inline-functions"): False})
    _st["fns"] = {}
    _st["nsvar"] = runtime.Var.find(sym.symbol("*ns*", ns="basilisp.core"))
    _st["probe"] = inline_probe()


def _evform(form, opts=None):
    from basilisp.lang import compiler, runtime
    ctx = compiler.CompilerContext("<verif-c20>", opts=opts)
    with runtime.bindings({_st["nsvar"]: _st["ns"]}):
        return compiler.compile_and_exec_form(form, ctx, _st["ns"])


def inline_probe():
    """Evidence that the paths really differ: with `inc` rebound to a marker fn, the inlined
    call form still computes x+1 (the body was expanded at compile time) while the path with
    inlining disabled and the apply path call the marker."""
    from basilisp.lang import list as llist, symbol as sym, vector as vec, runtime
    v = runtime.Var.find(sym.symbol("inc", ns="basilisp.core"))
    old = v.value
    marker = object()
    res = {}
    try:
        v.bind_root(lambda x: marker)
        form = llist.l(sym.symbol("inc"), 41)
        res["lit_inlined"] = _evform(form) == 42
        res["noinl_calls_fn"] = _evform(form, _st["noinl"]) is marker
        res["apply_calls_fn"] = _evform(llist.l(sym.symbol("apply"), sym.symbol("inc"), vec.v(41))) is marker
    except Exception as e:  # pragma: no cover
        res["error"] = f"{type(e).__name__}: {e}"
    finally:
        v.bind_root(old)
    return res


def build(a):
    t = a["t"]
    if t == "int":
        return int(a["v"])
    if t == "ratio":
        return fractions.Fraction(int(a["n"]), int(a["d"]))
    if t == "dec":
        return decimal.Decimal(a["s"])
    if t == "float":
        return float.fromhex(a["hex"]) if a["hex"] not in ("inf", "-inf", "nan") else float(a["hex"])
    raise ValueError(t)


def observe(thunk):
    try:
        v = thunk()
    except ZeroDivisionError:
        return {"exc": "ZeroDivisionError"}
    except ArithmeticError as e:
        return {"exc": "ArithmeticError", "cls": type(e).__name__}
    except ValueError:
        return {"exc": "ValueError"}
    except TypeError:
        return {"exc": "TypeError"}
    except Exception as e:
        return {"exc": "Other", "cls": type(e).__name__, "msg": str(e)[:120]}
    if v is True or v is False:
        return {"t": "bool", "v": bool(v)}
    if type(v) is int:
        return {"t": "int", "v": v}
    if type(v) is fractions.Fraction:
        return {"t": "ratio", "n": v.numerator, "d": v.denominator}
    if type(v) is decimal.Decimal:
        return {"t": "dec", "s": str(v)}
    if type(v) is float:
        return {"t": "float", "bits": struct.unpack("<Q", struct.pack("<d", v))[0]}
    return {"exc": "Other", "cls": "type:" + type(v).__name__}


def _opsym(case):
    from basilisp.lang import symbol as sym
    if case["k"] == "py":
        return sym.symbol(case["op"], ns="operator")
    return sym.symbol(CORE_OPS[case["op"]])


def _var_fn(case, n):
    from basilisp.lang import list as llist, symbol as sym, vector as vec
    key = (case["k"], case["op"], n)
    f = _st["fns"].get(key)
    if f is None:
        params = [sym.symbol(p) for p in ("a", "b", "c")[:n]]
        form = llist.l(sym.symbol("fn"), vec.vector(params), llist.l(_opsym(case), *params))
        f = _st["fns"][key] = _evform(form)
    return f


def run(case):
    from basilisp.lang import list as llist, symbol as sym, vector as vec
    if case.get("k") == "probe":
        return {"probe": _st["probe"]}
    args = [build(a) for a in case["args"]]
    op = _opsym(case)
    call_form = llist.l(op, *args)
    apply_form = llist.l(sym.symbol("apply"), op, vec.vector(args))
    return {"paths": [
        observe(lambda: _evform(call_form)),
        observe(lambda: _evform(apply_form)),
        observe(lambda: _evform(call_form, _st["noinl"])),
        observe(lambda: _var_fn(case, len(args))(*args)),
    ]}
