"""C12 -- Atom updates are atomic under every thread schedule and always terminate.

Two phases.  (1) `cases()` asks implementation workers to *explore* each configuration
(initial value, validator, watches, per-thread operation lists) under the deterministic
scheduler harness/vlib/sched.py: depth-first over all schedules with at most N
pre-emptions, at line granularity or at the granularity of the labelled program points;
schedules whose projection on the model's program points coincide are merged.  (2) Every
distinct schedule becomes one self-contained case (configuration + line-level schedule +
labelled schedule) which the framework replays on the real Atom and hands to Coq together
with the observation: Corr.spec_ok checks linearizability/validator/watch clauses on the
observation alone, Corr.model runs the Coq model of the code on the labelled schedule.
"""
import itertools
import json

from harness.vlib import gallina as G

ID = "C12"
TITLE = "Atom updates are atomic under every thread schedule and always terminate"
CORR = "Verif.C12.Corr"
CORR_TARGETS = ["theories/C12/Corr.vo"]
TARGETS = ["theories/Properties/C12.vo"]
PROPERTIES_FILE = "theories/Properties/C12.v"
IMPL = "harness.props.c12_impl"
TABLE_DEPS = ["atom_cas_mode"]
SHARD = 150
NWORKERS = 1      # one basilisp bootstrap (12 s, not parallelisable on this VM) per phase beats sharding ~25 s of work
HARD_TIMEOUT = 300
WORKER_ENV = {"VERIF_CASE_SOFT_TIMEOUT": "240"}
TAGGED = True
EXHAUSTIVE = {"quick": True, "thorough": False}
RULE = ("configurations = initial value x validator x watches x per-thread operation lists over the "
        "universe {0,1,2, 1.0, NaN, vector holding NaN, object equal to everything, object equal to "
        "nothing, \"a\", nil}; quick: 2 threads x 1-2 operations, every schedule with <= 2 pre-emptions "
        "(one configuration at source-line granularity, the others at the granularity of the labelled "
        "program points; 2x2 operations with <= 1 pre-emption); thorough adds 3 threads, 3 operations and "
        "seeded random schedules.  Initial values satisfy the configuration's validator, except in the "
        "malformed stream (1 configuration in quick, 7 in thorough) where construction itself must fail "
        "with 'Invalid reference state'.  Schedules with the same projection on the model's program points are "
        "merged; a case is non-trivial when at least two threads take steps between the first and the "
        "last step of some operation (a real interleaving); distinct = distinct JSON.")
TRUSTED = ["threading.RLock is modelled as a mutual-exclusion lock with an owner (harness/vlib/sched.py "
           "SchedRLock wraps a real RLock and only makes a would-block acquire visible to the scheduler)",
           "a single attribute load/store of Atom._state is atomic (GIL)",
           "harness/vlib/sched.py: one thread runs at a time, pre-emption only at line events of atom.py, "
           "reference.py and the harness' update-function wrapper",
           "harness/tr/tr_conc.py: statement text -> program point table (fails closed on unknown statements)",
           "Python == on the test universe is transcribed in Corr.py_eq (left operand first, reflected on "
           "NotImplemented)"]
ASSUMPTIONS = ["update functions, validators and watches are pure and do not touch the atom",
               "watches and validator are installed before the threads start",
               "identity of Python objects = Leibniz equality of model values (each NaN / opaque object of a "
               "case is one pooled object; equal ints/floats/strs may be distinct objects, indistinguishable "
               "because their == is reflexive)"]


def _f12b(c, o, tag):
    return tag == 1


FINDINGS = {"F-12b": _f12b}

I = lambda n: {"i": n}
NAN = {"nan": 0}
VN = {"vn": 0}
WA = {"w": 0, "eq": True}
WN = {"w": 1, "eq": False}


def swap(f, api="py", vals=False):
    return {"op": "swap", "api": api, "f": f, "vals": vals}


def reset(v, api="py", vals=False):
    return {"op": "reset", "api": api, "v": v, "vals": vals}


def cas(old, new, api="py"):
    return {"op": "cas", "api": api, "old": old, "new": new}


def deref(api="py"):
    return {"op": "deref", "api": api}


def cfg(init, threads, validator=None, watches=0, gran="label", preempt=2, limit=None, random=0):
    return {"init": init, "validator": validator, "watches": watches, "threads": threads,
            "gran": gran, "explore": {"preempt": preempt, "limit": limit, "random": random}}


def valid_init(validator, v):
    """The initial value satisfies the validator (mirrors c12_impl._validator and Corr.valid:
    an int below n).  Atom.__init__ validates its initial state, so a configuration whose initial
    value is rejected has no atom to schedule; such configurations are generated only on purpose
    (`rejected_init`) and are predicted by model and spec as a construction error (OFail 5)."""
    if validator is None:
        return True
    return isinstance(v, dict) and "i" in v and v["i"] < validator["lt"]


def rejected_init(tier):
    """malformed stream: the constructor must refuse an initial value its validator rejects"""
    out = [cfg(NAN, [[swap("id")], [deref()]], validator={"lt": 2})]
    if tier != "quick":
        out += [cfg(init, [[swap("inc", "core")], [reset(I(0))]], validator={"lt": 2}, watches=1)
                for init in (I(2), {"f": 0}, VN, {"s": "a"}, WA, None)]
    assert not any(valid_init(c["validator"], c["init"]) for c in out)
    return out


def configs(tier, rng):
    out = [
        cfg(I(0), [[swap("inc")], [swap("inc")]], gran="line"),
        cfg(I(0), [[swap("inc", "core")], [swap("inc", "core", True)]], watches=1),
        cfg(I(1), [[swap("str")], [reset({"f": 1})]]),                     # F-12b witness shape
        cfg(I(1), [[swap("str", "core", True)], [reset({"f": 1}, "core", True)]], watches=1),
        cfg(NAN, [[reset(I(1))], [swap("str", "core")]]),
        cfg(NAN, [[swap("id")], [reset(NAN, "core")]], watches=1),
        cfg(I(0), [[swap("inc")], [swap("inc", "core")]], validator={"lt": 2}, watches=1),
        cfg(I(0), [[cas(I(0), I(1))], [cas({"f": 0}, I(2), "core")]], watches=1),
        cfg(WA, [[swap("str")], [reset(I(2))]]),
        cfg(VN, [[reset(VN, "core")], [cas(VN, I(1))]], watches=1),
        cfg(WN, [[swap({"const": I(2)})], [cas(WN, NAN, "core")]]),
        cfg(I(0), [[swap("throw"), deref()], [swap("inc")]]),
        cfg(I(0), [[swap("inc"), deref("core")], [reset(I(2)), swap("inc", "core")]], preempt=1, watches=1),
        cfg({"s": "a"}, [[swap("str"), swap("inc")], [reset(I(0), "core", True), swap("inc")]], preempt=1),
    ]
    if tier != "quick":
        out += [
            cfg(I(0), [[swap("inc")], [swap("inc", "core")], [swap("inc")]], watches=1, limit=4000),
            cfg(I(1), [[swap("str")], [reset({"f": 1})], [swap("inc", "core")]], limit=4000),
            cfg(NAN, [[reset(I(1)), swap("inc")], [swap("id"), deref()], [cas(NAN, I(0))]], preempt=1,
                limit=3000, random=300),
            cfg(I(0), [[swap("inc"), swap("inc"), deref()], [reset(I(1)), swap("inc", "core"), cas(I(2), I(0))]],
                validator={"lt": 3}, watches=2, limit=6000, random=300),
            cfg(I(0), [[swap("inc"), swap("inc")], [swap("inc")]], gran="line", limit=6000),
        ]
        vals = [I(0), I(1), {"f": 1}, NAN, VN, WA, WN, {"s": "a"}, None]
        fns = ["inc", "str", "id", "throw", {"const": I(1)}, {"const": NAN}]
        for _ in range(40):
            def rop():
                k = rng.random()
                api = rng.choice(["py", "core"])
                if k < 0.45:
                    return swap(rng.choice(fns), api, api == "core" and rng.random() < 0.3)
                if k < 0.7:
                    return reset(rng.choice(vals), api, api == "core" and rng.random() < 0.3)
                if k < 0.9:
                    return cas(rng.choice(vals), rng.choice(vals), api)
                return deref(api)
            nthreads = rng.choice([2, 2, 3])
            threads = [[rop() for _ in range(rng.choice([1, 1, 2]))] for _ in range(nthreads)]
            # the initial value is drawn among the values the configuration's validator accepts
            validator = rng.choice([None, None, {"lt": 2}])
            init = rng.choice([v for v in vals if valid_init(validator, v)])
            out.append(cfg(init, threads, validator=validator,
                           watches=rng.choice([0, 1, 2]), preempt=2 if nthreads == 2 else 1, limit=1500))
    assert all(valid_init(c["validator"], c["init"]) for c in out)
    return out + rejected_init(tier)


_STATS = {}


def cases(tier, rng):
    from harness.vlib import pool
    cfgs = configs(tier, rng)
    outs = pool.run_cases(IMPL, cfgs, nworkers=NWORKERS, hard_timeout=HARD_TIMEOUT, env_extra=WORKER_ENV)
    explored = 0
    res = []
    for c, o in zip(cfgs, outs):
        if not isinstance(o, dict) or "runs" not in o:
            # exploration itself failed: a case with an empty schedule makes it visible
            base = {k: c[k] for k in ("init", "validator", "watches", "threads", "gran")}
            res.append(dict(base, sched=[], msched=[], explore_failed=json.dumps(o)[:300]))
            continue
        explored += o["explored"]
        if not o.get("exhaustive", True):
            EXHAUSTIVE[tier] = False
        for r in o["runs"]:
            base = {k: c[k] for k in ("init", "validator", "watches", "threads", "gran")}
            res.append(dict(base, sched=r["sched"], msched=r["msched"]))
    _STATS["explored_schedules"] = explored
    _STATS["configurations"] = len(cfgs)
    _STATS["distinct_labelled_schedules"] = len(res)
    return res


# ---- Gallina ---------------------------------------------------------------------------
def coq_val(v):
    if v is None:
        return "VNone"
    if "i" in v:
        return f"(VInt {G.z(v['i'])})"
    if "f" in v:
        return f"(VFlt {G.z(v['f'])})"
    if "nan" in v:
        return f"(VNaN {G.n(v['nan'])})" if v["nan"] >= 0 else "VUnk"
    if "s" in v:
        return f"(VStr {G.s(v['s'])})"
    if "vn" in v:
        return f"(VOpq {G.n(v['vn'])})"
    if "w" in v:
        return f"(VW {G.n(v['w'])} {G.b(bool(v['eq']))})"
    return "VUnk"


def coq_fn(f):
    if isinstance(f, dict):
        return f"(FConst {coq_val(f['const'])})"
    return {"inc": "FInc", "str": "FStr", "id": "FId", "throw": "FThrow"}[f]


def coq_op(o):
    api = "Core" if o.get("api") == "core" else "Py"
    k = o["op"]
    if k == "swap":
        return f"(OSwap {api} {coq_fn(o['f'])} {G.b(bool(o.get('vals')))})"
    if k == "reset":
        return f"(OReset {api} {coq_val(o['v'])} {G.b(bool(o.get('vals')))})"
    if k == "cas":
        return f"(OCas {coq_val(o['old'])} {coq_val(o['new'])})"
    return "ODeref"


LABS = {"READ": "LRead", "COMPUTE": "LCompute", "VAL": "LVal", "CL": "LCL", "CMP": "LCmp",
        "SET": "LSet", "DL": "LDL", "DREAD": "LDRead", "NOTIFY": "LNotify"}


def coq_sched(ms):
    if not ms:
        return "(@nil (nat * lab * bool))"
    return "[" + "; ".join(f"({G.nat(t)}, {LABS[l]}, {G.b(bool(b))})" for t, l, b in ms) + "]"


def coq_case(c):
    vld = c.get("validator")
    threads = "[" + "; ".join(
        ("[" + "; ".join(coq_op(o) for o in ops) + "]") if ops else "(@nil (op val fn))"
        for ops in c["threads"]) + "]"
    ms = c.get("msched", [])
    if any(l not in LABS for _, l, _ in ms):
        ms = []
    return (f"(mkCase {coq_val(c['init'])} {G.opt(vld['lt'] if vld else None, G.z, 'Z')} "
            f"{G.nat(c.get('watches', 0))} {threads} {coq_sched(ms)})")


def coq_res(r):
    if isinstance(r, dict) and "vals" in r:
        return "(ORes (RVals " + G.lst([coq_val(v) for v in r["vals"]], "val") + "))"
    if isinstance(r, dict) and "bool" in r:
        return f"(ORes (RBool {G.b(bool(r['bool']))}))"
    if r == "exc":
        return "(ORes RExc)"
    if r == "invalid":
        return "(ORes RInvalid)"
    if r == "budget":
        return "OBudget"
    return "OErr"


def coq_out(o):
    if not isinstance(o, dict) or o.get("__error__") or o.get("__died__"):
        return "(OFail 9%N)"
    if o.get("__hang__") or o.get("__timeout__"):
        return "(OFail 2%N)"
    st = o.get("status")
    if st != "ok":
        return "(OFail %d%%N)" % {"deadlock": 1, "hang": 2, "maxsteps": 2, "unmapped": 3, "diverged": 4,
                                    "ctor_invalid": 5}.get(st, 9)
    if any(l not in LABS for _, l, _ in o["msched"]):
        return "(OFail 3%N)"
    results = "[" + "; ".join(G.lst([coq_res(r) for r in rs], "ores") for rs in o["res"]) + "]"
    wl = G.lst([f"({G.nat(k)}, {coq_val(a)}, {coq_val(b)})" for k, a, b in o["wlog"]], "(nat * val * val)")
    return f"(OObs {results} {coq_val(o['final'])} {wl} {coq_sched(o['msched'])})"


def nontrivial(c, o):
    ms = c.get("msched", [])
    tids = [t for t, _, _ in ms]
    # some thread's steps are interrupted by another thread's step
    for t in set(tids):
        idx = [i for i, x in enumerate(tids) if x == t]
        if idx and any(x != t for x in tids[idx[0]:idx[-1]]):
            return True
    return False


def describe(c):
    return f"{len(c['threads'])} threads, ops {[[o['op'] for o in t] for t in c['threads']]}, init {c['init']}"


def shrink(c):
    # drop the tail of the schedule (the scheduler completes it with its default policy) is not a
    # replayable case for the model; shrink only by removing watches
    if c.get("watches", 0) > 0:
        return []
    return []


def extra_evidence(cases_, outs):
    dist = {}
    for c in cases_:
        key = "+".join(sorted({o["op"] + ":" + o.get("api", "py") for t in c["threads"] for o in t}))
        dist[key] = dist.get(key, 0) + 1
    blocked = sum(1 for c in cases_ if any(b for _, _, b in c.get("msched", [])))
    retried = sum(1 for c in cases_
                  if any(sum(1 for t, l, b in c.get("msched", []) if t == tt and l == "CMP" and not b) >
                         sum(1 for o in c["threads"][tt] if o["op"] != "deref")
                         for tt in range(len(c["threads"]))))
    return {"input_distribution": dist, "exploration": dict(_STATS),
            "cases_with_blocked_lock_attempt": blocked, "cases_with_a_retry": retried}
