"""Shared by C01 and C02: program generator, Lisp printer, Gallina printer."""
import itertools

from harness.vlib import gallina as G

LOCALS = ["a-b", "a_b", "x?", "x__Q__", "i", "i__", "acc", "acc__", "f", "f__", "e", "e__", "n", "n__", "*v*", "__STAR__v__STAR__"]
S1_LOCALS = [0, 2, 1, 14]
CONSTS = [None, True, False, 0, 1, 2, ["vec"], ["vec", 1, None]]
OPTS = list(itertools.product([False, True], repeat=3))   # (use-var-indirection, inline-functions, generate-auto-inlines)


# ---- program representation: nested lists -----------------------------------------------
def const(v): return ["const", v]
def local(x): return ["local", x]
def if_(c, t, e): return ["if", c, t, e]
def do(s, r): return ["do", s, r]
def let(x, i, b): return ["let", x, i, b]
def call(f, *args): return ["call", f, list(args)]
def t(e): return call("t", e)


def to_lisp(e):
    k = e[0]
    if k == "const":
        return lisp_val(e[1])
    if k == "local":
        return LOCALS[e[1]]
    if k == "if":
        return f"(if {to_lisp(e[1])} {to_lisp(e[2])} {to_lisp(e[3])})"
    if k == "do":
        return f"(do {to_lisp(e[1])} {to_lisp(e[2])})"
    if k == "let":
        from harness.props import c01_full as _F
        if _F.FLAT[0]:
            binds, body = [], e
            while body[0] == "let":
                binds.append(f"{LOCALS[body[1]]} {to_lisp(body[2])}")
                body = body[3]
            return f"(let* [{' '.join(binds)}] {to_lisp(body)})"
        return f"(let* [{LOCALS[e[1]]} {to_lisp(e[2])}] {to_lisp(e[3])})"
    if k == "call":
        fn = {"t": "t", "vec": "vector"}[e[1]]
        return "(" + " ".join([fn] + [to_lisp(a) for a in e[2]]) + ")"
    raise ValueError(k)


def lisp_val(v):
    if v is None:
        return "nil"
    if v is True:
        return "true"
    if v is False:
        return "false"
    if isinstance(v, int):
        return str(v)
    if isinstance(v, list) and v[0] == "vec":
        return "[" + " ".join(lisp_val(x) for x in v[1:]) + "]"
    raise ValueError(v)


Q = "Verif.C01.Lisp."


def coq_val(v):
    if v is None:
        return Q + "VNil"
    if v is True:
        return f"({Q}VBool true)"
    if v is False:
        return f"({Q}VBool false)"
    if isinstance(v, int):
        return f"({Q}VInt {G.z(v)})"
    if isinstance(v, list) and v[0] == "vec":
        return f"({Q}VVec " + G.lst([coq_val(x) for x in v[1:]], Q + "value") + ")"
    raise ValueError(v)


def coq_expr(e):
    k = e[0]
    if k == "const":
        return f"({Q}EConst {coq_val(e[1])})"
    if k == "local":
        return f"({Q}ELocal {G.n(e[1])})"
    if k == "if":
        return f"({Q}EIf {coq_expr(e[1])} {coq_expr(e[2])} {coq_expr(e[3])})"
    if k == "do":
        return f"({Q}EDo {coq_expr(e[1])} {coq_expr(e[2])})"
    if k == "let":
        return f"({Q}ELet {G.n(e[1])} {coq_expr(e[2])} {coq_expr(e[3])})"
    if k == "call":
        f = {"t": Q + "PTrace", "vec": Q + "PVec"}[e[1]]
        return f"({Q}ECall {f} " + G.lst([coq_expr(a) for a in e[2]], Q + "expr") + ")"
    raise ValueError(k)


def coq_case(c):
    if c.get("lmodel"):
        from harness.props import c01_full as F
        return f"(CL {F.coq_lexpr(c['e'])})"
    if c.get("cmodel"):
        from harness.props import c01_full as F
        return f"(CC {F.coq_cexpr(c['e'])} {F.coq_expr(c['e'])})"
    if c.get("xmodel"):
        from harness.props import c01_full as F
        return f"(CX {F.coq_xexpr(c['e'])} {F.coq_expr(c['e'])})"
    if c.get("full"):
        from harness.props import c01_full as F
        return f"(CF {F.coq_expr(c['e'])})"
    return f"(CS {coq_expr(c['e'])})"


def coq_obs(v):
    if v is None:
        return "ONil"
    if v is True:
        return "(OBool true)"
    if v is False:
        return "(OBool false)"
    if isinstance(v, int):
        return f"(OInt {G.z(v)})"
    if isinstance(v, list) and v[0] == "vec":
        return "(OVec " + G.lst([coq_obs(x) for x in v[1:]], "obs") + ")"
    if isinstance(v, dict) and "fn" in v:
        return "OFn"
    if isinstance(v, dict) and "var" in v:
        return f"(OVar {G.n(v['var'])})"
    if isinstance(v, dict) and "excv" in v:
        return f"(OExc {G.n(v['excv'])} {coq_obs(v['payload'])})"
    raise ValueError(v)


def coq_out(o):
    try:
        if "val" in o:
            return f"(RVal {coq_obs(o['val'])} " + G.lst([coq_obs(x) for x in o["trace"]], "obs") + ")"
        if "exc" in o and isinstance(o["exc"], int):
            return f"(RExc {G.n(o['exc'])} " + G.lst([coq_obs(x) for x in o.get("trace", [])], "obs") + ")"
    except ValueError:
        return "RStuck"
    if o.get("__hang__") or o.get("__timeout__"):
        return "RFuel"
    return "RStuck"


def size(e):
    k = e[0]
    if k in ("const", "local"):
        return 1
    if k == "call":
        return 1 + sum(size(a) for a in e[2])
    return 1 + sum(size(x) for x in e[1:] if isinstance(x, list))


# ---- generators -------------------------------------------------------------------------
def rand_expr(rng, depth, scope, ctr):
    """Random well-formed program; every (t ...) traces a distinct constant when possible."""
    def k():
        ctr[0] += 1
        return const(ctr[0])
    if depth <= 0 or rng.random() < 0.15:
        r = rng.random()
        if scope and r < 0.4:
            return local(rng.choice(scope))
        if r < 0.7:
            return t(k())
        return const(rng.choice(CONSTS))
    r = rng.random()
    sub = lambda sc=scope: rand_expr(rng, depth - 1, sc, ctr)
    if r < 0.2:
        return if_(sub(), sub(), sub())
    if r < 0.3:
        return do(sub(), sub())
    if r < 0.55:
        x = rng.choice(S1_LOCALS)
        return let(x, sub(), rand_expr(rng, depth - 1, sorted(set(scope + [x])), ctr))
    if r < 0.7:
        return t(sub())
    n = rng.choice([0, 1, 2, 2, 3, 3, 4])
    return call("vec", *[sub() for _ in range(n)])


def arg_shapes(ctr):
    """The argument kinds of the C02 quantifier: plain, traced call, and each compound form."""
    def k():
        ctr[0] += 1
        return const(ctr[0])
    return [
        lambda: k(),
        lambda: t(k()),
        lambda: let(0, t(k()), local(0)),
        lambda: if_(t(k()), t(k()), const(None)),
        lambda: if_(const(False), t(k()), t(k())),
        lambda: do(t(k()), k()),
        lambda: call("vec", t(k())),
        lambda: let(1, k(), t(local(1))),
    ]


CONTEXTS = [
    ("top", lambda p: p),
    ("stmt", lambda p: do(p, const(5))),
    ("arg", lambda p: call("vec", const(0), p, t(const(99)))),
    ("let-init", lambda p: let(2, p, call("vec", local(2), local(2)))),
    ("if-test", lambda p: if_(p, const(1), const(2))),
    ("let-body", lambda p: let(3, t(const(98)), p)),
]


def programs(tier, rng):
    # (a) every placement of the argument kinds among 2 (quick) / 3 (thorough) arguments
    nshapes = len(arg_shapes([0]))
    arity = [2] if tier == "quick" else [2, 3]
    for n in arity:
        for combo in itertools.product(range(nshapes), repeat=n):
            ctr = [100]
            shapes = arg_shapes(ctr)
            yield "placement", call("vec", *[shapes[i]() for i in combo])
    # (b) each placement program of arity 2 inside each context (thorough: all, quick: sample)
    combos = list(itertools.product(range(nshapes), repeat=2))
    if tier == "quick":
        combos = rng.sample(combos, 12)
    for combo in combos:
        for name, wrap in CONTEXTS:
            ctr = [200]
            shapes = arg_shapes(ctr)
            yield "context:" + name, wrap(call("vec", *[shapes[i]() for i in combo]))
    # (c) truthiness of every constant
    for c in CONSTS:
        yield "truthy", if_(const(c), const(1), const(2))
    # (d) random programs
    n = 250 if tier == "quick" else 6000
    for _ in range(n):
        ctr = [0]
        e = rand_expr(rng, rng.choice([2, 3, 3, 4, 5]), [], ctr)
        yield "random", e


def cases(tier, rng):
    """every program is printed either with nested single-binding let* forms or (flat) with one
    let* binding vector, as the `let` macro emits; the Coq case is the same program"""
    from harness.props import c01_full as F
    out = []
    for c in _cases(tier, rng):
        flat = (rng.random() < 0.5) or c["kind"].startswith("mech:let-rebind")
        F.FLAT[0] = flat
        try:
            c["lisp"] = F.to_lisp(c["e"]) if c.get("full") else to_lisp(c["e"])
        finally:
            F.FLAT[0] = False
        c["flat"] = flat
        out.append(c)
        if c["kind"].startswith("mech:") and flat and "let*" in c["lisp"]:
            c2 = dict(c, flat=False, lisp=F.to_lisp(c["e"]))
            out.append(c2)
    return out


def _cases(tier, rng):
    from harness.props import c01_full as F
    seen = set()
    for kind, e in programs(tier, rng):
        key = repr(e)
        if key in seen:
            continue
        seen.add(key)
        optsets = OPTS if (tier != "quick" or kind != "random" or rng.random() < 0.25) else [rng.choice(OPTS)]
        if tier == "quick" and kind == "placement":
            optsets = [OPTS[0], OPTS[7]]
        for o in optsets:
            yield {"kind": kind, "e": e, "opts": list(o), "lisp": to_lisp(e)}
        # the same program through the full-fragment model
        fe = F.embed(e)
        yield {"kind": kind + "/full", "full": True, "e": fe, "opts": list(optsets[0]), "lisp": F.to_lisp(fe)}
    for kind, e in F.hazard_programs():
        for o in (OPTS if tier != "quick" else [OPTS[0], OPTS[5], OPTS[7]]):
            yield {"kind": "mech:" + kind, "full": True, "e": e, "opts": list(o), "lisp": F.to_lisp(e)}
    # every compound form in every child slot, in statement and expression position
    for kind, e in F.position_programs():
        for o in ([rng.choice(OPTS)] if tier == "quick" else OPTS):
            yield {"kind": kind, "full": True, "e": e, "opts": list(o), "lisp": F.to_lisp(e)}
    if tier != "quick":
        # the importer path (`basilisp run` on a generated file): a sample, each in a child interpreter
        hp = F.hazard_programs()
        for kind, e in rng.sample(hp, min(30, len(hp))):
            yield {"kind": "importer:" + kind, "full": True, "via": "importer", "e": e, "opts": [False, True, True],
                   "lisp": F.to_lisp(e)}
    # the loop fragment (simulation theorem of C01L): dedicated programs + every full program that fits
    lps = [("loop", e) for e in F.loop_programs(rng, 60 if tier == "quick" else 1500)]
    lps += [("mech:" + k, e) for k, e in F.hazard_programs() if F.in_l_fragment(e)]
    for kind, e in lps:
        key = "L" + repr(e)
        if key in seen:
            continue
        seen.add(key)
        yield {"kind": "loopfrag:" + kind, "full": True, "lmodel": True, "e": e, "opts": list(rng.choice(OPTS)),
               "lisp": F.to_lisp(e)}
    # the closure fragment (simulation theorem of C01C): dedicated programs + every mechanism that fits
    cps = [("clo", e) for e in F.closure_programs(rng, 60 if tier == "quick" else 1500)]
    cps += [("mech:" + k, e) for k, e in F.hazard_programs() if F.in_c_fragment(e) and F.has_fn(e)]
    for kind, e in cps:
        key = "C" + repr(e)
        if key in seen:
            continue
        seen.add(key)
        yield {"kind": "clofrag:" + kind, "full": True, "cmodel": True, "e": e, "opts": list(rng.choice(OPTS)),
               "lisp": F.to_lisp(e)}
    # the exception fragment (simulation theorem of C01X): dedicated programs + every mechanism that fits
    xps = [("exc", e) for e in F.exc_programs(rng, 60 if tier == "quick" else 1500)]
    xps += [("mech:" + k, e) for k, e in F.hazard_programs() if F.in_x_fragment(e) and F.has_try(e)]
    for kind, e in xps:
        key = "X" + repr(e)
        if key in seen:
            continue
        seen.add(key)
        yield {"kind": "excfrag:" + kind, "full": True, "xmodel": True, "e": e, "opts": list(rng.choice(OPTS)),
               "lisp": F.to_lisp(e)}
    n = 400 if tier == "quick" else 8000
    for _ in range(n):
        e = F.random_program(rng)
        key = repr(e)
        if key in seen:
            continue
        seen.add(key)
        yield {"kind": "random/full", "full": True, "e": e, "opts": list(rng.choice(OPTS)), "lisp": F.to_lisp(e)}


def nontrivial(c, o):
    if c.get("full"):
        return len(c["lisp"]) >= 12
    return size(c["e"]) >= 3


def describe(c):
    return f"{c['kind']} opts={c['opts']}: {c['lisp']}"


def shrink(c):
    if c.get("full"):
        return
    e = c["e"]
    def subs(e):
        k = e[0]
        if k in ("if", "do"):
            for x in e[1:]:
                yield x
        if k == "let":
            yield e[2]
        if k == "call":
            for a in e[2]:
                yield a
            for i in range(len(e[2])):
                yield ["call", e[1], e[2][:i] + e[2][i + 1:]] if e[1] == "vec" else e
    for s in subs(e):
        if s != e and closed(s, []):
            yield dict(c, e=s, lisp=to_lisp(s))


def closed(e, scope):
    k = e[0]
    if k == "const":
        return True
    if k == "local":
        return e[1] in scope
    if k in ("if", "do"):
        return all(closed(x, scope) for x in e[1:])
    if k == "let":
        return closed(e[2], scope) and closed(e[3], scope + [e[1]])
    if k == "call":
        return all(closed(a, scope) for a in e[2])
    return False


def extra_evidence(cases_, outs):
    dist, sizes = {}, {}
    for c in cases_:
        dist[c["kind"]] = dist.get(c["kind"], 0) + 1
        s = min(len(c["lisp"]) // 10, 30)
        sizes[s] = sizes.get(s, 0) + 1
    return {"input_distribution": dist, "program_text_length_div10": {str(k): v for k, v in sorted(sizes.items())}}
