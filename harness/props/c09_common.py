"""C09: shared between the property module (harness process) and the worker: the namespace
configurations of the syntax-quote cases and the printers from case JSON to Lisp text.

JSON encodings
  value   : null | true | false | int | {"s": str} | {"k": [ns|null, name]} | {"y": [ns|null, name]}
            | {"l": [...]} (list/seq) | {"v": [...]} | {"m": [[k, v], ...]} | {"set": [...]}
  expr    : {"c": value} (a literal / quoted datum) | {"x": name} (a symbol to be evaluated)
  pattern : {"sym": name}
            | {"vec": [pattern...], "rest": name|null, "as": name|null}
            | {"map": 1, "kgroups": [[ns|null, [[ns|null, name]...]]...], "strs": [name...],
               "sgroups": [...like kgroups...], "entries": [[pattern, expr]...],
               "ors": [[name, expr]...], "as": name|null}
  template: {"a": value(atom)} | {"y": [ns|null, name]} | {"g": prefix} | {"u": h} | {"sp": h}
            | {"l": [...]} | {"v": [...]} | {"set": [...]} | {"m": [[k, v]...]}
"""

# ---- namespaces of the syntax-quote cases (set up by the worker exactly as described here) ----
LIB = "c09.lib"
LIB_VARS = ["lf", "lv", "map"]            # c09.lib/lf ... ; values are the keywords :c09.lib/lf ...
CORE = "basilisp.core"
CORE_USED = ["map", "first", "str", "inc"]   # core Vars the vocabulary mentions (all referred everywhere)

CONFIGS = {
    # name: interns (own Vars), refers from LIB (on top of all of core), aliases
    "c09.cur0": {"interns": ["loc", "h"], "refers": [], "aliases": {"lb": LIB}},
    "c09.cur1": {"interns": ["loc", "map", "h"], "refers": [], "aliases": {"lb": LIB, "core": LIB}},
    "c09.cur2": {"interns": ["h"], "refers": ["lf"], "aliases": {}},
    "c09.cur3": {"interns": ["loc", "first", "h"], "refers": ["lv"], "aliases": {"str": LIB, "c09.cur0": LIB}},
    # use-site namespaces of the hygiene cases
    "c09.use0": {"interns": [], "refers": [], "aliases": {}},
    "c09.use1": {"interns": ["map", "loc", "lf"], "refers": [], "aliases": {"lb": "c09.cur0", "c09.lib": "c09.cur0"}},
}


def nslite(cfg):
    """The namespace record of the model for configuration `cfg`, restricted to the vocabulary."""
    c = CONFIGS[cfg]
    interns = [[n, [cfg, n]] for n in c["interns"]]
    refers = [[n, [LIB, n]] for n in c["refers"]]
    refers += [[n, [CORE, n]] for n in CORE_USED]
    return {"cur": cfg, "interns": interns, "refers": refers,
            "aliases": [[a, t] for a, t in sorted(c["aliases"].items())]}


def all_globals():
    g = [[LIB, n] for n in LIB_VARS] + [[CORE, n] for n in CORE_USED]
    for cfg, c in CONFIGS.items():
        g += [[cfg, n] for n in c["interns"] if n != "h"]
    return g


# ---- Lisp text ---------------------------------------------------------------------------
def sym_text(ns, name):
    return f"{ns}/{name}" if ns else name


def data_text(v):
    """A value as it is written inside (quote ...)."""
    if v is None:
        return "nil"
    if v is True:
        return "true"
    if v is False:
        return "false"
    if isinstance(v, int):
        return str(v)
    if "s" in v:
        assert all(32 <= ord(c) < 127 and c not in '"\\' for c in v["s"])
        return '"' + v["s"] + '"'
    if "k" in v:
        return ":" + sym_text(*v["k"])
    if "y" in v:
        return sym_text(*v["y"])
    if "l" in v:
        return "(" + " ".join(data_text(e) for e in v["l"]) + ")"
    if "v" in v:
        return "[" + " ".join(data_text(e) for e in v["v"]) + "]"
    if "set" in v:
        return "#{" + " ".join(data_text(e) for e in v["set"]) + "}"
    if "m" in v:
        return "{" + " ".join(data_text(k) + " " + data_text(x) for k, x in v["m"]) + "}"
    raise ValueError(v)


def _self_evaluating(v):
    return v is None or isinstance(v, (bool, int)) or "s" in v or "k" in v


def expr_text(e):
    if "x" in e:
        return e["x"]
    v = e["c"]
    return data_text(v) if _self_evaluating(v) else "(quote " + data_text(v) + ")"


def pat_text(p):
    if "sym" in p:
        return p["sym"]
    if "vec" in p:
        parts = [pat_text(c) for c in p["vec"]]
        if p.get("rest"):
            parts += ["&", p["rest"]]
        if p.get("as"):
            parts += [":as", p["as"]]
        return "[" + " ".join(parts) + "]"
    parts = []
    for gns, xs in p["kgroups"]:
        parts.append(":" + sym_text(gns, "keys") + " [" + " ".join(sym_text(a, b) for a, b in xs) + "]")
    if p["strs"]:
        parts.append(":strs [" + " ".join(p["strs"]) + "]")
    for gns, xs in p["sgroups"]:
        parts.append(":" + sym_text(gns, "syms") + " [" + " ".join(sym_text(a, b) for a, b in xs) + "]")
    for q, k in p["entries"]:
        parts.append(pat_text(q) + " " + expr_text(k))
    if p["ors"]:
        parts.append(":or {" + " ".join(n + " " + expr_text(e) for n, e in p["ors"]) + "}")
    if p.get("as"):
        parts.append(":as " + p["as"])
    return "{" + " ".join(parts) + "}"


def outs_text(outs):
    return "[" + " ".join(outs) + "]"


def let_text(case):
    bs = " ".join(pat_text(p) + " " + expr_text(e) for p, e in case["bs"])
    return f"(let [{bs}] {outs_text(case['outs'])})"


def fn_text(case):
    params = [pat_text(p) for p in case["ps"]]
    if case["rest"] is not None:
        params += ["&", pat_text(case["rest"])]
    args = " ".join(expr_text({"c": a}) for a in case["args"])
    return f"((fn [{' '.join(params)}] {outs_text(case['outs'])}) {args})"


LOOP_COUNTER = "c09-i"


def loop_text(case):
    bs = " ".join(pat_text(p) + " " + expr_text(e) for p, e in case["bs"])
    if case["rec"] is None:
        return f"(loop [{bs}] {outs_text(case['outs'])})"
    rv = " ".join(expr_text({"c": v}) for v in case["rec"])
    return (f"(loop [{bs} {LOOP_COUNTER} 0] (if (= {LOOP_COUNTER} 0) (recur {rv} 1) "
            f"{outs_text(case['outs'])}))")


def tmpl_text(t):
    if "a" in t:
        return data_text(t["a"])
    if "y" in t:
        return sym_text(*t["y"])
    if "g" in t:
        return t["g"] + "#"
    if "u" in t:
        return f"~(h {t['u']})"
    if "sp" in t:
        return f"~@(h {t['sp']})"
    if "l" in t:
        return "(" + " ".join(tmpl_text(e) for e in t["l"]) + ")"
    if "v" in t:
        return "[" + " ".join(tmpl_text(e) for e in t["v"]) + "]"
    if "set" in t:
        return "#{" + " ".join(tmpl_text(e) for e in t["set"]) + "}"
    if "m" in t:
        return "{" + " ".join(tmpl_text(k) + " " + tmpl_text(v) for k, v in t["m"]) + "}"
    raise ValueError(t)


def tmpl_tokens(t):
    """Leaf tokens of a template, namespaces dropped, order inside sets/maps ignored."""
    if "a" in t:
        return [("a", data_text(t["a"]))]
    if "y" in t:
        return [("y", t["y"][1])]
    if "g" in t:
        return [("g", t["g"])]
    if "u" in t:
        return [("h", t["u"])]
    if "sp" in t:
        return [("h", t["sp"])]
    if "l" in t or "v" in t:
        out = [("(" if "l" in t else "[",)]
        for e in t.get("l", t.get("v")):
            out += tmpl_tokens(e)
        return out + [(")",)]
    if "set" in t:
        return [("#{",)] + sorted(sum((tmpl_tokens(e) for e in t["set"]), []), key=repr) + [(")",)]
    if "m" in t:
        return [("{",)] + sorted(sum((tmpl_tokens(k) + tmpl_tokens(v) for k, v in t["m"]), []), key=repr) + [(")",)]
    raise ValueError(t)


def tmpl_gens(t):
    if "g" in t:
        return {t["g"]}
    out = set()
    for key in ("l", "v", "set"):
        if key in t:
            for e in t[key]:
                out |= tmpl_gens(e)
    if "m" in t:
        for k, v in t["m"]:
            out |= tmpl_gens(k) | tmpl_gens(v)
    return out
