"""C05 implementation side: builds values from JSON descriptions and observes core `=`,
`hash`, `get` and `contains?` on the real basilisp of /repo's working tree.

Every call of build() creates fresh objects (a fresh float NaN per occurrence, fresh
collections), so two built values never share identity; `same` pairs use ONE built object
on both sides.  Lazy seqs are built unrealised and never printed."""
import decimal
import fractions
import math

from harness.vlib import bl

_fns = {}
_recs = {}

REC_FIELDS = {"R1": 1, "R2": 1, "R3": 2}


def setup():
    for n in ("=", "hash", "get", "contains?", "hash-map", "hash-set", "count"):
        _fns[n] = bl.core(n)
    ns = bl.fresh_ns("verif.c05.")
    bl.ev("(defrecord R1 [a]) (defrecord R2 [a]) (defrecord R3 [a b])", ns)
    for t in REC_FIELDS:
        _recs[t] = bl.ev(f"->{t}", ns)
    from basilisp.lang import keyword as kw
    _fns["found"] = kw.keyword("found")


class BadValue(Exception):
    pass


def build(d):
    from basilisp.lang import keyword as kw, symbol as sym, vector as vec, list as llist
    from basilisp.lang import queue as lqueue, map as lmap, set as lset, seq as lseq
    t = d["t"]
    if t == "nil":
        return None
    if t == "bool":
        return bool(d["v"])
    if t == "num":
        k = d["k"]
        if "s" in d:
            if k != "float":
                raise BadValue("special values are floats")
            return {"nan": float("nan"), "inf": math.inf, "-inf": -math.inf, "-0": -0.0}[d["s"]]
        n, den = int(d["n"]), int(d["d"])
        want = fractions.Fraction(n, den)
        if k == "int":
            if den != 1:
                raise BadValue("int with denominator")
            return n
        if k == "float":
            x = n / den
            if fractions.Fraction(x) != want:
                raise BadValue("float not exact")
            return x
        if k == "ratio":
            return fractions.Fraction(n, den)
        if k == "dec":
            x = decimal.Decimal(n) / decimal.Decimal(den)
            if fractions.Fraction(x) != want:
                raise BadValue("decimal not exact")
            return x
        raise BadValue(k)
    if t == "str":
        return d["v"]
    if t == "kw":
        return kw.keyword(d["name"], ns=d.get("ns"))
    if t == "sym":
        return sym.symbol(d["name"], ns=d.get("ns"))
    if t == "seq":
        items = [build(e) for e in d["l"]]
        k = d["k"]
        if k == "vec":
            return vec.vector(items)
        if k == "entry":
            if len(items) != 2:
                raise BadValue("map entry needs two items")
            return vec.MapEntry.of(items[0], items[1])
        if k == "list":
            return llist.list(items)
        if k == "queue":
            return lqueue.queue(items)
        if k == "cons":
            acc = lseq.EMPTY
            for x in reversed(items):
                acc = lseq.Cons(x, acc)
            return acc
        if k == "lazy":
            return lseq.LazySeq(lambda: llist.list(items) if items else None)
        raise BadValue(k)
    if t == "map":
        kvs = []
        for k_, v_ in d["l"]:
            kvs.append(build(k_))
            kvs.append(build(v_))
        m = _fns["hash-map"](*kvs)
        if len(m) != len(d["l"]):
            raise BadValue("map description has keys the map identifies")
        return m
    if t == "set":
        items = [build(e) for e in d["l"]]
        s = _fns["hash-set"](*items)
        if len(s) != len(items):
            raise BadValue("set description has members the set identifies")
        return s
    if t == "rec":
        items = [build(e) for e in d["l"]]
        if REC_FIELDS.get(d["tag"]) != len(items):
            raise BadValue("record arity")
        return _recs[d["tag"]](*items)
    raise BadValue(t)


def _b(x):
    return bool(x)


def run(case):
    eq, hsh, get, has = _fns["="], _fns["hash"], _fns["get"], _fns["contains?"]
    found = _fns["found"]
    try:
        if case["k"] == "pair":
            x = build(case["x"])
            y = x if case["same"] else build(case["y"])

            def probe(key, p):
                return get(_fns["hash-map"](key, found), p) is found

            def member(key, p):
                return _b(has(_fns["hash-set"](key), p))
            return {"bits": [_b(eq(x, y)), _b(eq(y, x)), hsh(x) == hsh(y),
                             probe(x, y), probe(y, x), member(x, y), member(y, x)]}
        if case["k"] == "triple":
            x, y, z = build(case["x"]), build(case["y"]), build(case["z"])
            return {"bits": [_b(eq(x, y)), _b(eq(y, x)), _b(eq(y, z)), _b(eq(z, y)),
                             _b(eq(x, z)), _b(eq(z, x))]}
    except BadValue as e:
        return {"bad": str(e)}
    except Exception as e:  # any exception is an observable
        return {"err": type(e).__name__, "msg": str(e)[:200]}
    return {"bad": "unknown case kind"}


def typename(d):
    return type(build(d)).__name__
