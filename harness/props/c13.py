"""C13 -- Delays run once, promises deliver once, futures yield their body's outcome.

Delay and Promise: as C12, two phases.  `cases()` lets implementation workers explore each
configuration under harness/vlib/sched.py (all schedules with <= N pre-emptions; timeouts
of timed derefs are scheduling choices: a scripted clock), merges schedules with the same
projection on the model's program points, and emits one replayable case per schedule.  The
framework replays it on the real Delay/Promise; Coq checks the observation against the
specification (Corr.spec_ok: once-only body log and stable value; linearizability of the
call/return history against the reference promise) and against the model run on the same
labelled schedule.  Future: sequential action lists on a real futures.Future whose body is
gated by the harness.
"""
import itertools
import json

from harness.vlib import gallina as G

ID = "C13"
TITLE = "Delays run once, promises deliver once, futures yield their body's outcome"
CORR = "Verif.C13.Corr"
CORR_TARGETS = ["theories/C13/Corr.vo"]
TARGETS = ["theories/Properties/C13.vo"]
PROPERTIES_FILE = "theories/Properties/C13.v"
IMPL = "harness.props.c13_impl"
TABLE_DEPS = ["delay_deref_mode", "promise_shape", "future_deref_mode", "atom_cas_mode"]
SHARD = 150
NWORKERS = 3
HARD_TIMEOUT = 300
WORKER_ENV = {"VERIF_CASE_SOFT_TIMEOUT": "240"}
TAGGED = True
BASILISP = False      # Delay/Promise/Future and runtime.deref are plain Python: no core bootstrap
EXHAUSTIVE = {"quick": True, "thorough": False}
FINDINGS = {}
RULE = ("delay: 2-3 threads x 1-2 of {deref, realized?} on one delay whose body returns, or throws on its "
        "first run(s); promise: 2-3 threads x 1-2 of {deliver v, deref, timed deref, realized?}, including a "
        "deref nobody answers (deadlock is an observation); every schedule with <= 2 pre-emptions (<= 1 for "
        "the larger configurations; one delay configuration at source-line granularity), timeouts being "
        "scheduling choices; future: every action list of length <= 3 (thorough 4) over {timed deref, deref, "
        "realized?, release body} for bodies returning, raising ValueError, raising TimeoutError.  A delay/"
        "promise case is non-trivial when the steps of some thread are interleaved with another's.")
TRUSTED = ["threading.RLock / threading.Condition are modelled as owner lock + wait set (harness/vlib/sched.py "
           "SchedRLock, SchedCondition replace them in the objects under test; wait timeouts are scheduler "
           "choices, not wall-clock)",
           "concurrent.futures.Future is an abstract one-shot cell (Section hypotheses cf_stable, result/done "
           "as transcribed in C13/Future.v); the executor thread is real, the body gated by an Event",
           "harness/vlib/sched.py and harness/tr/tr_conc.py as for C12",
           "attrs equality of _DelayState is modelled as equality of (value, computed)"]
ASSUMPTIONS = ["the delay body does not deref its own delay; deliver/deref arguments are ints or nil",
               "timeout values differ from delivered values (so that a timeout is recognisable)"]


def dcfg(script, threads, gran="label", preempt=2, limit=None, random=0):
    return {"k": "delay", "script": script, "threads": threads, "gran": gran,
            "explore": {"preempt": preempt, "limit": limit, "random": random}}


def pcfg(threads, preempt=2, limit=None, random=0):
    return {"k": "promise", "threads": threads, "gran": "label",
            "explore": {"preempt": preempt, "limit": limit, "random": random}}


def deliver(v):
    return {"op": "deliver", "v": v}


DEREF = {"op": "deref", "timed": None}
TDEREF = {"op": "deref", "timed": {"tv": -1}}
REAL = {"op": "realized"}


def configs(tier):
    out = [
        dcfg([7], [["deref"], ["deref"]]),
        dcfg([7], [["deref"], ["deref"]], gran="line", preempt=1),
        dcfg([None, 7], [["deref", "deref"], ["deref"]], preempt=1),
        dcfg([7], [["deref", "realized"], ["realized", "deref"]], preempt=1),
        dcfg([None, None, 3], [["deref"], ["deref"], ["deref"]], preempt=1),
        pcfg([[TDEREF], [deliver(5)]]),
        pcfg([[DEREF], [deliver(5)]]),
        pcfg([[deliver(5), DEREF], [deliver(6), TDEREF]], preempt=1),
        pcfg([[DEREF], [REAL]], preempt=1),                       # nobody delivers: deadlock observed
        pcfg([[TDEREF, REAL], [deliver(None), REAL]], preempt=1),
        pcfg([[TDEREF], [deliver(5)], [DEREF]], preempt=1),
    ]
    if tier != "quick":
        out += [
            dcfg([7], [["deref"], ["deref"], ["deref"]], preempt=2, limit=6000),
            dcfg([None, 7], [["deref", "deref"], ["deref", "realized"]], preempt=2, limit=6000),
            dcfg([7], [["deref"], ["deref"]], gran="line", preempt=2, limit=6000),
            dcfg([None, 7], [["deref", "realized"], ["deref"], ["realized", "deref"], ["deref"]],
                 preempt=1, limit=3000, random=400),
            pcfg([[TDEREF, DEREF], [deliver(5), deliver(6)]], preempt=2, limit=6000),
            pcfg([[TDEREF], [deliver(5)], [DEREF], [deliver(6), REAL]], preempt=1, limit=4000, random=400),
            pcfg([[DEREF, REAL], [REAL, deliver(1)], [TDEREF, TDEREF]], preempt=2, limit=6000),
        ]
    return out


def future_cases(tier):
    bodies = [{"val": 3}, {"raise": "ValueError"}, {"raise": "TimeoutError"}, {"raise": "KeyError"}]
    acts = [{"a": "deref_timed", "tv": -1}, {"a": "deref", "tv": -2}, {"a": "realized"}, {"a": "release"}]
    maxlen = 3 if tier == "quick" else 4
    n = 0
    for b in bodies:
        for k in range(1, maxlen + 1):
            for seq in itertools.product(acts, repeat=k):
                if sum(1 for a in seq if a["a"] == "release") > 1:
                    continue
                if sum(1 for a in seq if a["a"] == "deref_timed") > 2:
                    continue
                n += 1
                yield {"k": "future", "body": b, "acts": list(seq), "api": "core" if n % 3 == 0 else "py"}


_STATS = {}


def cases(tier, rng):
    from harness.vlib import pool
    cfgs = configs(tier)
    outs = pool.run_cases(IMPL, cfgs, nworkers=NWORKERS, hard_timeout=HARD_TIMEOUT, env_extra=WORKER_ENV,
                          basilisp=BASILISP)
    explored, res = 0, []
    for c, o in zip(cfgs, outs):
        base = {k: v for k, v in c.items() if k != "explore"}
        if not isinstance(o, dict) or "runs" not in o:
            res.append(dict(base, sched=[], msched=[], explore_failed=json.dumps(o)[:300]))
            continue
        explored += o["explored"]
        if not o.get("exhaustive", True):
            EXHAUSTIVE[tier] = False
        for r in o["runs"]:
            res.append(dict(base, sched=r["sched"], msched=r["msched"]))
    _STATS["explored_schedules"] = explored
    _STATS["configurations"] = len(cfgs)
    _STATS["distinct_labelled_schedules"] = len(res)
    fc = list(future_cases(tier))
    _STATS["future_cases"] = len(fc)
    return res + fc


# ---- Gallina ---------------------------------------------------------------------------
DLABS = {"DL": "LDL", "DREAD": "LDRead", "QCHK": "LQChk", "QL": "LQL", "READ": "LRead",
         "COMPUTE": "LCompute", "BODYB": "LBodyB", "BODYE": "LBodyE", "VAL": "LVal", "CL": "LCL",
         "CMP": "LCmp", "SET": "LSet"}
PLABS = {"PL": "LPL", "PCHK": "LPChk", "PFLAG": "LPFlag", "PVAL": "LPVal", "PNOTIFY": "LPNotify",
         "PRED": "LPred", "PGET": "LPGet", "PTMO": "LPTmo", "PREAL": "LPReal"}
KINDS = {"run": "KRun", "block": "KBlock", "wait": "KWait", "wake": "KWake", "timeout": "KTimeout",
         "wake+block": "KWakeBlock", "timeout+block": "KTimeoutBlock"}
EXN = {"TimeoutError": "ETimeoutError", "ValueError": "(EOther 1)", "KeyError": "(EOther 2)"}


def oz(v):
    return G.opt(v, G.z, "Z")


def pvz(v):
    """a promise value (int or nil) as a term of type pv = option Z"""
    return f"(Some {G.z(v)})" if v is not None else "(@None Z)"


def dsched(ms):
    if not ms or any(l not in DLABS for _, l, _ in ms):
        return "(@nil (nat * dlab * bool))"
    return "[" + "; ".join(f"({G.nat(t)}, {DLABS[l]}, {G.b(bool(b))})" for t, l, b in ms) + "]"


def psched(ms):
    if not ms or any(l not in PLABS or k not in KINDS for _, l, k in ms):
        return "(@nil (nat * plab * pkind))"
    return "[" + "; ".join(f"({G.nat(t)}, {PLABS[l]}, {KINDS[k]})" for t, l, k in ms) + "]"


def pop(o):
    if o["op"] == "deliver":
        return f"(PDeliver {pvz(o['v'])})"
    if o["op"] == "deref":
        tm = o.get("timed")
        return "(PDeref (@None pv))" if tm is None else f"(PDeref (Some {pvz(tm['tv'])}))"
    return "(@PReal pv)"


def fact(a):
    k = a["a"]
    if k == "deref_timed":
        return f"(FDerefTimed {G.z(a['tv'])})"
    if k == "deref":
        return f"(FDeref {G.z(a['tv'])})"
    return "FRealized" if k == "realized" else "FRelease"


def coq_case(c):
    if c["k"] == "delay":
        script = G.lst([oz(v) for v in c["script"]], "(option Z)")
        threads = "[" + "; ".join(G.lst([{"deref": "DDeref", "realized": "DReal"}[o] for o in ops], "dop")
                                  for ops in c["threads"]) + "]"
        return f"(CDelay {script} {threads} {dsched(c.get('msched', []))})"
    if c["k"] == "promise":
        threads = "[" + "; ".join(G.lst([pop(o) for o in ops], "(pop pv)") for ops in c["threads"]) + "]"
        return f"(CPromise {threads} {psched(c.get('msched', []))})"
    b = c["body"]
    body = f"(FBVal {G.z(b['val'])})" if "val" in b else f"(FBRaise {EXN[b['raise']]})"
    return f"(CFuture {body} {G.lst([fact(a) for a in c['acts']], 'fact')})"


def fail(o):
    if not isinstance(o, dict) or o.get("__error__") or o.get("__died__"):
        return "(OFail 9%N)"
    if o.get("__hang__") or o.get("__timeout__"):
        return "(OFail 2%N)"
    st = o.get("status")
    if st != "ok":
        return "(OFail %d%%N)" % {"deadlock": 1, "hang": 2, "maxsteps": 2, "unmapped": 3, "diverged": 4}.get(st, 9)
    return None


def coq_out(o):
    f = fail(o)
    if f:
        return f
    k = o["k"]
    if k == "delay":
        if any(l not in DLABS for _, l, _ in o["msched"]):
            return "(OFail 3%N)"

        def dres(r):
            if isinstance(r, dict) and "val" in r:
                return f"(DVal {G.z(r['val'])})"
            if isinstance(r, dict) and "bool" in r:
                return f"(@DBool Z {G.b(r['bool'])})"
            if r == "exc":
                return "(@DExc Z)"
            return None
        rows = []
        for rs in o["res"]:
            xs = [dres(r) for r in rs]
            if any(x is None for x in xs):
                return "(OFail 7%N)"
            rows.append(G.lst(xs, "(dres Z)"))
        bl = G.lst([f"({G.nat(e[0])}, {'BBegin' if e[1] == 'b' else 'BEnd ' + G.b(bool(e[2]))})"
                    for e in o["blog"]], "(nat * bev)")
        return f"(ODelay [{'; '.join(rows)}] {bl} {dsched(o['msched'])})"
    if k == "promise":
        if any(l not in PLABS or kk not in KINDS for _, l, kk in o["msched"]):
            return "(OFail 3%N)"

        def pres(r):
            if isinstance(r, dict) and "ret" in r:
                return f"(PRet {pvz(r['ret'])})"
            if isinstance(r, dict) and "bool" in r:
                return f"(@PBool pv {G.b(r['bool'])})"
            return None
        rows = []
        for rs in o["res"]:
            xs = [pres(r) for r in rs]
            if any(x is None for x in xs):
                return "(OFail 7%N)"
            rows.append(G.lst(xs, "(pres pv)"))
        hist = G.lst([f"({'HCall' if e[0] == 'c' else 'HRet'} {G.nat(e[1])} {G.nat(e[2])})" for e in o["hist"]],
                     "hev")
        return f"(OPromise [{'; '.join(rows)}] {hist} {G.b(bool(o['deadlock']))} {psched(o['msched'])})"

    def fres(r):
        if r == "unit":
            return "FUnit"
        if isinstance(r, dict) and "ret" in r:
            return f"(FRet {G.z(r['ret'])})"
        if isinstance(r, dict) and "bool" in r:
            return f"(FBool {G.b(r['bool'])})"
        if isinstance(r, dict) and "exc" in r:
            return f"(FExc {EXN[r['exc']]})"
        return None
    xs = [fres(r) for r in o["res"]]
    if any(x is None for x in xs):
        return "(OFail 7%N)"
    return f"(OFuture {G.lst(xs, 'fres')})"


def nontrivial(c, o):
    if c["k"] == "future":
        return any(a["a"] == "release" for a in c["acts"]) and len(c["acts"]) > 1
    tids = [e[0] for e in c.get("msched", [])]
    for t in set(tids):
        idx = [i for i, x in enumerate(tids) if x == t]
        if idx and any(x != t for x in tids[idx[0]:idx[-1]]):
            return True
    return False


def describe(c):
    if c["k"] == "future":
        return f"future body {c['body']} actions {[a['a'] for a in c['acts']]}"
    return f"{c['k']} threads {c['threads']}"


def extra_evidence(cases_, outs):
    dist = {}
    for c in cases_:
        dist[c["k"]] = dist.get(c["k"], 0) + 1
    dl = sum(1 for o in outs if isinstance(o, dict) and o.get("deadlock"))
    tmo = sum(1 for c in cases_ if c["k"] == "promise" and any(k.startswith("timeout") for _, _, k in c.get("msched", [])))
    thrown = sum(1 for o in outs if isinstance(o, dict) and o.get("k") == "delay"
                 and any(len(e) == 3 and not e[2] for e in o.get("blog", [])))
    return {"input_distribution": dist, "exploration": dict(_STATS), "promise_deadlock_observations": dl,
            "promise_cases_with_a_timeout": tmo, "delay_cases_with_a_throwing_run": thrown}
