"""C01 -- compiled programs compute the values their source denotes."""
from harness.props.c01_common import *  # noqa: F401,F403
from harness.props import c01_common as _c

ID = "C01"
TITLE = "Compiled programs compute the values their source denotes"
CORR = "Verif.C01.CorrC01"
CORR_TARGETS = ["theories/C01/CorrC01.vo"]
TARGETS = ["theories/Properties/C01.vo"]
PROPERTIES_FILE = "theories/Properties/C01.v"
IMPL = "harness.props.c01_impl"
TAGGED = True
HARD_TIMEOUT = 400        # importer-path cases start a child interpreter
SHARD = 400
RULE = ("programs of the modelled fragment: every placement of 8 argument kinds (plain, traced, let, if, "
        "do, nested call) among 2-3 call arguments, those placed in 6 syntactic contexts, truthiness of every "
        "constant, random programs to depth 5 with shadowing over names with Python-unsafe characters; each "
        "compiled under the 2^3 code-generation option combinations. Non-trivial = program size >= 3; "
        "distinct = distinct (program, options).")
TRUSTED = ["Python names genname(munge(x)) are modelled as structured pairs (collision freedom is C10's subject)",
           "CPython executes the generated AST as C01/Py.v's semantics states",
           "basilisp's analyzer and the runtime helpers called by generated code (vector, the tracing fn) are primitives of the model"]
ASSUMPTIONS = ["proofs cover the first-order core (const, local, if, do, let*, calls), loop*/recur (C01L) and "
               "throw/try/catch/finally (C01X), each with the core, and fn*/closures/invocation with the core (C01C); the "
               "combinations (closures inside loops or handlers, def, named fns) are covered by the executable "
               "full-fragment model and the correspondence run only",
               "C01C abstracts munge as injective (programs with a munge collision involving a parameter are run "
               "through the full-fragment model instead: F-01c) and restricts a called function's view of its "
               "defining frame to the names generated before the definition (Python captures exactly the free "
               "variables)"]
FINDINGS = {
    "F-01a": lambda c, o, tag: bool(tag & 2),     # closure over a loop-bound local
    "F-01c": lambda c, o, tag: bool(tag & 4),     # munge collision involving a fn parameter
    "F-01d": lambda c, o, tag: bool(tag & 8),     # closure over a catch local
    "F-02": lambda c, o, tag: bool(tag & 1),      # hoisting can change which exception/value results
    "F-02c": lambda c, o, tag: bool(tag & 16),
}
cases = _c.cases
