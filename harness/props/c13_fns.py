"""The delay body handed to the real Delay by the C13 harness.  This file is in the
scheduler's traced set: the two marked lines are the program points "a body run begins" and
"a body run ends" (keep the marker comments: c13_impl finds the lines by them)."""


class BodyThrow(Exception):
    """Raised by a delay body that 'throws'."""


def make_body(begin, end):
    def body():
        idx = begin()  # BODYB
        return end(idx)  # BODYE
    return body
