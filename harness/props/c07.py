"""C07 -- Sequence functions and their transducers agree with each other and the model."""
import itertools

from harness.vlib import gallina as G

ID = "C07"
TITLE = "Sequence functions and their transducers agree with each other and the model"
CORR = "Verif.C07.Corr"
CORR_TARGETS = ["theories/C07/Corr.vo"]
TARGETS = ["theories/Properties/C07.vo"]
PROPERTIES_FILE = "theories/Properties/C07.v"
IMPL = "harness.props.c07_impl"
SHARD = 800
HARD_TIMEOUT = 60
EXHAUSTIVE = {"quick": False, "thorough": False}

RULE = (
    "One case = one transducer pipeline x one input, run through all five application forms "
    "(lazy-seq arities nested, into [], sequence, transduce conj, eduction) on an instrumented "
    "iterator that counts pulls, with a probe transducer last in the pipeline that counts "
    "completion calls. Observables per form: elements (canonical; vectors and seqs identified), "
    "pulls and completion calls (transducing forms), or exception class. "
    "Depth 1: each of the 139 (function, parameter) stages of the tables; all input sequences "
    "over {nil,false,0,1,2,:a} up to length 2 (quick) / 4 (thorough) for 27 primary stages "
    "(at least one per listed function), PRNG samples (lengths 1-6, and 3-12 over a wider "
    "universe with true, 3, :b and the two sentinel keywords) for every stage; cat on "
    "collection-valued inputs. Depth 2 (quick: 160 PRNG pipelines x 4 inputs; thorough: 3000 x 12) "
    "and depth 3 (thorough: 3000 x 6) among the type-correct compositions (cat only on "
    "collections), plus a fixed family of 41 stateful x early-terminating pairs (quick: 14 PRNG "
    "inputs each, thorough: all inputs up to length 4) and 6 pairs whose second stage stops inside "
    "what the first hands it (30 / 600 PRNG inputs each). Unbounded sources (limit=true: pulling "
    "past the listed prefix raises) for pipelines containing take/take-while and for "
    "pipelines that never stop. (take n (iterate f x)) for the constant maps and PRNG finite "
    "maps f over the universe. One pipeline case in 25 goes through compiled Lisp source, the "
    "others through direct calls of the same basilisp.core function objects. "
    "A case is non-trivial when the input is non-empty; distinct = distinct JSON encoding.")
TRUSTED = [
    "iterator-seq over a Python iterator pulls one element per realised cell (measured: no read-ahead)",
    "a deque is modelled as an append-only log plus a count of popped elements (eduction)",
    "lazy-seq realisation order is modelled only through fully realised results; for unbounded "
    "sources the lazy form is taken to terminate exactly when the transducer pipeline stops",
    "the parameter functions (FN1/FN2/FNL of c07_impl.py) are transcribed by hand into fn1/fn2/fnl of C07/Corr.v",
    "python == on the value universe (False == 0, True == 1) is modelled by heqb; basilisp = on "
    "vectors/seqs is element-wise python ==",
]
ASSUMPTIONS = [
    "take-nth and partition-all are used with n >= 1 (n = 0 raises / does not terminate, as in Clojure)",
    "cat/mapcat inputs are collections or nil (other values raise TypeError; not generated)",
    "(take 0) as a transducer consumes one input before stopping (a transducer can only stop when called; same in Clojure)",
]

KW_IDS = {"a": 0, "b": 1, "basilisp.core.dedupe/default": 2, "basilisp.core.partition-by/default": 3, "s": 4}
SENTINELS = ("basilisp.core.dedupe/default", "basilisp.core.partition-by/default")


def kw(n):
    return {"kw": n}


U0 = [None, False, 0, 1, 2, kw("a")]
U0_WIDE = U0 + [True, 3, kw("b"), kw(SENTINELS[0]), kw(SENTINELS[1])]
U1 = [None, [], [0], [None, False], [1, 2, kw("a")]]

N_FN1, N_FN2, N_FNL = 15, 5, 4


# ---- pipelines -------------------------------------------------------------------------
def stage_depth(st, d):
    """Safe nesting depth after the stage (how many times `cat` may follow), or None if the
    stage is not applicable to elements of safe depth d."""
    name = st[0]
    p = st[1] if len(st) > 1 else None
    if name in ("filter", "remove", "take-while", "drop-while", "take", "drop", "take-nth",
                "distinct", "dedupe"):
        return d
    if name in ("map", "keep"):
        if p in (0, 3, 14):
            return d
        if p == 2:
            return d + 1
        return 0
    if name == "map-indexed":
        return 1 if p == 0 else 0
    if name == "keep-indexed":
        return 1 if p == 0 else (d if p == 2 else 0)
    if name == "interpose":
        return d if (p is None or d == 0) else 0
    if name in ("partition-all", "partition-by"):
        return d + 1
    if name == "mapcat":
        if p == 2:
            return max(d - 1, 0)
        return d
    if name == "cat":
        return d - 1 if d >= 1 else None
    raise ValueError(name)


def all_stages():
    out = []
    for f in range(N_FN1):
        out += [["map", f], ["filter", f], ["remove", f], ["keep", f], ["take-while", f],
                ["drop-while", f], ["partition-by", f]]
    for f in range(N_FN2):
        out += [["map-indexed", f], ["keep-indexed", f]]
    for n in (0, 1, 2, 3):
        out += [["take", n], ["drop", n]]
    for n in (1, 2, 3):
        out += [["take-nth", n], ["partition-all", n]]
    for sep in (kw("s"), None, 0):
        out.append(["interpose", sep])
    for f in range(N_FNL):
        out.append(["mapcat", f])
    out += [["distinct"], ["dedupe"], ["cat"]]
    return out


STAGES = all_stages()
# a smaller palette for compositions: one or two parameters per function
CORE = [["map", 3], ["map", 2], ["map", 14], ["map-indexed", 0], ["map-indexed", 1], ["filter", 0], ["filter", 8],
        ["remove", 1], ["keep", 14], ["keep", 0], ["keep-indexed", 2], ["keep-indexed", 3],
        ["take", 0], ["take", 1], ["take", 2], ["take", 3], ["take-while", 10], ["take-while", 7],
        ["take-while", 13], ["take-while", 12], ["take-nth", 2], ["take-nth", 3], ["drop", 1], ["drop", 2],
        ["drop-while", 1], ["drop-while", 8], ["interpose", kw("s")], ["interpose", None],
        ["partition-all", 1], ["partition-all", 2], ["partition-all", 3], ["partition-by", 0],
        ["partition-by", 8], ["partition-by", 6], ["distinct"], ["dedupe"], ["mapcat", 0],
        ["mapcat", 1], ["mapcat", 2], ["cat"]]
STOPPERS = [["take", 0], ["take", 1], ["take", 2], ["take", 3], ["take-while", 10], ["take-while", 7],
            ["take-while", 8], ["take-while", 12], ["take-while", 13]]


def typed(pipe, d0=0):
    d = d0
    for st in pipe:
        d = stage_depth(st, d)
        if d is None:
            return False
    return True


def rand_pipe(rng, depth, d0=0, palette=CORE, must_stop=False):
    for _ in range(200):
        pipe = [rng.choice(palette) for _ in range(depth)]
        if must_stop and not any(st in STOPPERS for st in pipe):
            pipe[rng.randrange(depth)] = rng.choice(STOPPERS)
        if typed(pipe, d0):
            return pipe
    return [["map", 0]] * depth


def seqs(universe, maxlen, minlen=0):
    for n in range(minlen, maxlen + 1):
        for t in itertools.product(universe, repeat=n):
            yield list(t)


def rand_input(rng, universe, lo, hi):
    return [rng.choice(universe) for _ in range(rng.randint(lo, hi))]


def pipe_case(pipe, inp, limit=False):
    return {"k": "pipe", "pipe": pipe, "input": inp, "limit": limit}


# one parameter choice per listed function: these get the exhaustive small inputs
PRIMARY = [["map", 3], ["map", 14], ["map-indexed", 0], ["filter", 0], ["remove", 1], ["keep", 14], ["keep", 0],
           ["keep-indexed", 2], ["keep-indexed", 3], ["take", 0], ["take", 1], ["take", 2], ["take-while", 10],
           ["take-while", 7], ["take-nth", 2], ["drop", 1], ["drop-while", 1], ["interpose", kw("s")],
           ["interpose", None], ["partition-all", 1], ["partition-all", 2], ["partition-by", 0],
           ["partition-by", 6], ["distinct"], ["dedupe"], ["mapcat", 0], ["mapcat", 1]]


def _gen(tier, rng):
    quick = tier == "quick"
    # 1. every single stage: exhaustive small inputs for one or two parameters per function,
    #    PRNG samples for every parameter of the tables
    ex_len = 2 if quick else 4
    small = list(seqs(U0, ex_len))
    for st in STAGES:
        if st == ["cat"]:
            for inp in seqs(U1, 2 if quick else 3):
                yield pipe_case([st], inp)
            for _ in range(10 if quick else 200):
                yield pipe_case([st], rand_input(rng, U1, 3, 8))
            continue
        if st in PRIMARY:
            for inp in small:
                yield pipe_case([st], inp)
        for _ in range(6 if quick else 120):
            yield pipe_case([st], rand_input(rng, U0, 1, ex_len + 2))
        for _ in range(2 if quick else 40):
            yield pipe_case([st], rand_input(rng, U0_WIDE, 3, 12))
    # 2. compositions
    for depth, count, per in ((2, 160 if quick else 3000, 4 if quick else 12),
                              (3, 0 if quick else 3000, 6)):
        for _ in range(count):
            d0 = 1 if rng.random() < 0.15 else 0
            pipe = rand_pipe(rng, depth, d0)
            uni = U1 if d0 else U0
            for _ in range(per):
                r = rng.random()
                if r < 0.7:
                    inp = rand_input(rng, uni, 0, 4 if quick else 6)
                elif r < 0.9:
                    inp = rand_input(rng, uni if d0 else U0_WIDE, 5, 12)
                else:
                    inp = rand_input(rng, uni, 0, 2)
                yield pipe_case(pipe, inp)
    # 3. depth-2 exhaustive on a fixed family (stateful x early termination)
    fam = [[a, b] for a in (["partition-all", 2], ["partition-by", 0], ["interpose", kw("s")], ["dedupe"],
                            ["mapcat", 0], ["take-nth", 2])
           for b in (["take", 1], ["take", 2], ["take-while", 10])]
    fam += [[b, a] for a, b in fam if typed([b, a])]
    fam += [[["partition-all", 2], ["cat"]], [["partition-by", 0], ["cat"]], [["map", 2], ["cat"]],
            [["partition-all", 2], ["partition-all", 2]], [["mapcat", 0], ["partition-all", 3]]]
    # pairs in which the second stage stops in the middle of what the first one hands it
    special = [[["interpose", 0], ["take-while", 10]], [["interpose", None], ["take-while", 7]],
               [["partition-by", 0], ["take-while", 13]], [["partition-by", 8], ["take-while", 12]],
               [["mapcat", 0], ["take-while", 10]], [["partition-all", 2], ["take-while", 12]]]
    for pipe in special:
        for _ in range(30 if quick else 600):
            yield pipe_case(pipe, rand_input(rng, [0, 1, 2, 2, None, False], 2, 6))
    for pipe in fam:
        if not typed(pipe):
            continue
        if quick:
            for _ in range(14):
                yield pipe_case(pipe, rand_input(rng, U0, 0, 5))
        else:
            for inp in seqs(U0, 4, 0):
                yield pipe_case(pipe, inp)
    # 4. unbounded sources: pipelines with an early-terminating stage
    for _ in range(260 if quick else 5000):
        depth = rng.choice((1, 2, 2, 3) if not quick else (1, 2, 2))
        d0 = 1 if rng.random() < 0.1 else 0
        pipe = rand_pipe(rng, depth, d0, must_stop=True)
        inp = rand_input(rng, U1 if d0 else U0, 1, 10)
        yield pipe_case(pipe, inp, True)
    for _ in range(25 if quick else 400):       # pipelines that never stop: the limit must be hit
        pipe = rand_pipe(rng, rng.choice((1, 2)), 0)
        yield pipe_case(pipe, rand_input(rng, U0, 1, 6), True)
    # 5. iterate with finite maps over the universe
    for x in U0:
        for dflt in (None, False, 1):
            yield {"k": "iterate", "n": 4, "table": [], "dflt": dflt, "x": x}
    for _ in range(40 if quick else 1500):
        table = [[k, rng.choice(U0)] for k in U0]
        yield {"k": "iterate", "n": rng.randint(0, 7), "table": table, "dflt": rng.choice(U0),
               "x": rng.choice(U0)}


def cases(tier, rng):
    """Every 25th pipeline case additionally goes through compiled Lisp source instead of direct
    calls of the basilisp.core function objects (same observables)."""
    for i, c in enumerate(_gen(tier, rng)):
        if c["k"] == "pipe" and i % 25 == 7:
            c = dict(c, via="src")
        yield c


# ---- Gallina ---------------------------------------------------------------------------
def coq_val(v):
    if v is None:
        return "VNil"
    if v is True:
        return "(VBool true)"
    if v is False:
        return "(VBool false)"
    if isinstance(v, int):
        return f"(VInt {G.z(v)})"
    if isinstance(v, dict) and "kw" in v:
        k = KW_IDS.get(v["kw"])
        if k is None:
            k = 100 + (sum(ord(c) for c in v["kw"]) % 1000)
        return f"(VKw {G.n(k)})"
    if isinstance(v, list):
        return "(VVec " + G.lst([coq_val(e) for e in v], "val") + ")"
    raise ValueError(v)


_CTOR = {"map": "SMap", "map-indexed": "SMapIdx", "filter": "SFilter", "remove": "SRemove", "keep": "SKeep",
         "keep-indexed": "SKeepIdx", "take": "STake", "take-while": "STakeWhile", "take-nth": "STakeNth",
         "drop": "SDrop", "drop-while": "SDropWhile", "partition-all": "SPartAll", "partition-by": "SPartBy",
         "mapcat": "SMapcat"}


def coq_stage(st):
    name = st[0]
    if name == "interpose":
        return f"(SInterpose {coq_val(st[1])})"
    if name == "distinct":
        return "SDistinct"
    if name == "dedupe":
        return "SDedupe"
    if name == "cat":
        return "SCat"
    return f"({_CTOR[name]} {G.n(int(st[1]))})"


def coq_case(c):
    if c["k"] == "pipe":
        return ("(CPipe " + G.lst([coq_stage(s) for s in c["pipe"]], "stage") + " "
                + G.lst([coq_val(v) for v in c["input"]], "val") + " " + G.b(bool(c.get("limit"))) + ")")
    tbl = G.lst([f"({coq_val(k)}, {coq_val(v)})" for k, v in c["table"]], "(val * val)%type")
    return f"(CIterate {G.n(int(c['n']))} {tbl} {coq_val(c['dflt'])} {coq_val(c['x'])})"


def _has_other(v):
    if isinstance(v, dict):
        return "other" in v
    if isinstance(v, list):
        return any(_has_other(e) for e in v)
    return False


def coq_res(r):
    if not isinstance(r, dict):
        return "(RErr 2)"
    if "e" in r:
        if _has_other(r["e"]) or not isinstance(r.get("p", 0), int) or not isinstance(r.get("c", 0), int):
            return "(RErr 2)"
        try:
            return (f"(ROk {G.lst([coq_val(v) for v in r['e']], 'val')} "
                    f"{G.n(r.get('p', 0))} {G.n(r.get('c', 0))})")
        except (ValueError, AssertionError):
            return "(RErr 2)"
    if r.get("err") == "PullLimit":
        return "(RErr 1)"
    return "(RErr 2)"


def coq_out(o):
    if o.get("__timeout__") or o.get("__hang__"):
        r = "(RErr 3)"
        return f"(OPipe {r} {r} {r} {r} {r})"
    if "lazy" in o:
        return "(OPipe " + " ".join(coq_res(o.get(f)) for f in
                                    ("lazy", "into", "sequence", "transduce", "eduction")) + ")"
    if "e" in o or "err" in o:
        return f"(OOne {coq_res(o)})"
    r = "(RErr 2)"
    return f"(OOne {r})"


# ---- findings --------------------------------------------------------------------------
def _flat(v):
    if isinstance(v, list):
        for e in v:
            yield from _flat(e)
    else:
        yield v


def _stage_names(c):
    return {s[0] for s in c.get("pipe", [])}


def _mentions_sentinel(c):
    vals = list(_flat(c.get("input", []))) + [s[1] for s in c.get("pipe", []) if s[0] == "interpose"]
    return any(isinstance(v, dict) and v.get("kw") in SENTINELS for v in vals)


BOOL_FNS = {1, 6, 7, 8, 9, 10, 11, 12, 13, 14}


def _bool_int_mix(c):
    vals = list(_flat(c.get("input", []))) + [s[1] for s in c.get("pipe", []) if s[0] == "interpose"]
    has_bool = any(isinstance(v, bool) for v in vals)
    has_int = any(isinstance(v, int) and not isinstance(v, bool) for v in vals)
    for s in c.get("pipe", []):
        if s[0] in ("map", "keep", "partition-by") and s[1] in BOOL_FNS:
            has_bool = True
        if s[0] in ("map-indexed", "keep-indexed") or (s[0] in ("map", "keep") and s[1] in (3, 5)):
            has_int = True
    return has_bool and has_int


def f07j(c, o):
    """dedupe / partition-by take their keyword sentinel, when it occurs as data, for 'no previous element'."""
    return c.get("k") == "pipe" and bool(_stage_names(c) & {"dedupe", "partition-by"}) and _mentions_sentinel(c)


def f07l(c, o):
    """distinct (set membership) and dedupe/partition-by on collections compare with python ==."""
    return (c.get("k") == "pipe" and bool(_stage_names(c) & {"distinct", "dedupe", "partition-by"})
            and _bool_int_mix(c))


FINDINGS = {"F-07j": f07j, "F-07l": f07l}


def nontrivial(c, o):
    if c["k"] == "pipe":
        return len(c["input"]) >= 1
    return c["n"] >= 1


def describe(c):
    if c["k"] == "pipe":
        return ("pipeline " + " ".join(str(s) for s in c["pipe"]) + f" on {len(c['input'])} elements"
                + (" of an unbounded source" if c.get("limit") else ""))
    return f"(take {c['n']} (iterate f x))"


def shrink(c):
    if c["k"] != "pipe":
        if c["n"] > 0:
            yield dict(c, n=c["n"] - 1)
        return
    inp, pipe = c["input"], c["pipe"]
    for i in range(len(inp)):
        yield dict(c, input=inp[:i] + inp[i + 1:])
    if len(pipe) > 1:
        for i in range(len(pipe)):
            p2 = pipe[:i] + pipe[i + 1:]
            d0 = 1 if any(isinstance(v, list) for v in inp) else 0
            if typed(p2, d0):
                yield dict(c, pipe=p2)
    for i, v in enumerate(inp):
        if isinstance(v, list) and v:
            yield dict(c, input=inp[:i] + [v[1:]] + inp[i + 1:])


def extra_evidence(cases_, outs):
    dist, lens, stops = {}, {}, 0
    for c, o in zip(cases_, outs):
        if c["k"] != "pipe":
            dist["iterate"] = dist.get("iterate", 0) + 1
            continue
        key = f"depth{len(c['pipe'])}" + ("-unbounded" if c.get("limit") else "")
        dist[key] = dist.get(key, 0) + 1
        n = len(c["input"])
        lens[n] = lens.get(n, 0) + 1
        r = o.get("into") if isinstance(o, dict) else None
        if isinstance(r, dict) and "p" in r and r["p"] < n:
            stops += 1
    return {"input_distribution": dist, "input_lengths": {str(k): v for k, v in sorted(lens.items())},
            "cases_with_early_termination": stops, "forms_per_case": 5}
