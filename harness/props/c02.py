"""C02 -- sub-expressions are evaluated left to right, exactly once."""
from harness.props.c01_common import *  # noqa: F401,F403
from harness.props import c01_common as _c

ID = "C02"
TITLE = "Sub-expressions are evaluated left to right, exactly once"
CORR = "Verif.C01.CorrC02"
CORR_TARGETS = ["theories/C01/CorrC02.vo"]
TARGETS = ["theories/Properties/C02.vo"]
PROPERTIES_FILE = "theories/Properties/C02.v"
IMPL = "harness.props.c01_impl"
TAGGED = True
HARD_TIMEOUT = 400        # importer-path cases start a child interpreter
SHARD = 400
RULE = _c.__doc__ + (" Programs as for C01; the observable is the sequence of calls to the tracing function. "
                     "Non-trivial = program size >= 3; distinct = distinct (program, options).")
TRUSTED = ["as C01"]
ASSUMPTIONS = ["effects are calls of the tracing function t interned in a scratch namespace"]
# F-02: hoisting hazard. Signature: the model's hazard predicate fires (tag 1) -- and the verdict
# logic additionally requires the implementation's trace to equal the model's.
FINDINGS = {
    "F-02": lambda c, o, tag: bool(tag & 1),
    "F-02c": lambda c, o, tag: bool(tag & 16),
    "F-01a": lambda c, o, tag: bool(tag & 2),
    "F-01c": lambda c, o, tag: bool(tag & 4),
    "F-01d": lambda c, o, tag: bool(tag & 8),
}
cases = _c.cases
