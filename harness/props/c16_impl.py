"""C16 implementation side: reads a text with basilisp.lang.reader.read_str exactly as the REPL
does (resolver=runtime.resolve_alias, a private eof sentinel) and canonicalises the result:
class of the outcome, line/col of errors, the forms as type-tagged trees with the location
metadata of symbols and collections, and the located sub-forms whose span does not re-read to
an equal form."""
import datetime
import decimal
import fractions
import re
import uuid

_S = {}


def setup():
    from basilisp.lang import keyword as kw, reader, runtime, symbol as sym
    ns = runtime.Namespace.get_or_create(sym.symbol("c16ns"))
    core_ns = runtime.Namespace.get(sym.symbol("basilisp.core"))
    ns.refer_all(core_ns)
    _S["ns"] = ns
    _S["nsvar"] = runtime.Var.find(sym.symbol("*ns*", ns="basilisp.core"))
    _S["eof"] = object()
    _S["reader"] = reader
    _S["runtime"] = runtime
    _S["loc_kws"] = (reader.READER_LINE_KW, reader.READER_COL_KW,
                     reader.READER_END_LINE_KW, reader.READER_END_COL_KW)
    _S["form_kw"] = kw.keyword("form")


class Alien(Exception):
    """Something which is not Lisp data inside a form (the EOF sentinel, a Comment object...)."""


_FLOAT_RE = re.compile(r"^(-?)(\d+)(?:\.(\d+))?(?:e([+-]?\d+))?$")


def dec_of_repr(txt):
    """'-1.5e-07' -> [neg, mantissa, exponent] with the mantissa not divisible by 10."""
    m = _FLOAT_RE.match(txt)
    if not m:
        raise ValueError(txt)
    neg = m.group(1) == "-"
    ip, fp, ex = m.group(2), m.group(3) or "", int(m.group(4) or "0")
    mant = int(ip + fp)
    e = ex - len(fp)
    if mant == 0:
        return [neg, "0", 0]
    while mant % 10 == 0:
        mant //= 10
        e += 1
    return [neg, str(mant), e]


def dec_of_decimal(d):
    sign, digits, exp = d.as_tuple()
    mant = int("".join(map(str, digits)) or "0")
    e = exp
    if mant == 0:
        return [bool(sign), "0", 0]
    while mant % 10 == 0:
        mant //= 10
        e += 1
    return [bool(sign), str(mant), e]


def special(f):
    if f != f:
        return 0
    if f == float("inf"):
        return 1
    if f == float("-inf"):
        return 2
    return None


def loc_of(x):
    m = getattr(x, "meta", None)
    if m is None:
        return None
    vals = [m.val_at(k) for k in _S["loc_kws"]]
    if any(not isinstance(v, int) for v in vals):
        return None
    return vals


def canon(x):
    from basilisp.lang import keyword as kw, list as llist, map as lmap, queue as lqueue, set as lset
    from basilisp.lang import symbol as sym, vector as vec
    from basilisp.lang.tagged import TaggedLiteral
    reader = _S["reader"]
    if x is None:
        return ["nil"]
    if isinstance(x, bool):
        return ["bool", x]
    if isinstance(x, int):
        return ["int", str(x)]
    if isinstance(x, float):
        k = special(x)
        return ["special", k] if k is not None else ["float"] + dec_of_repr(repr(x))
    if isinstance(x, decimal.Decimal):
        if not x.is_finite():
            raise Alien("non-finite Decimal")
        return ["dec"] + dec_of_decimal(x)
    if isinstance(x, fractions.Fraction):
        return ["ratio", str(x.numerator), str(x.denominator)]
    if isinstance(x, complex):
        k = special(x.imag)
        if k is not None or x.real != 0:
            return ["complexx"]
        return ["complex"] + dec_of_repr(repr(x.imag))
    if isinstance(x, str):
        return ["str", [ord(c) for c in x]]
    if isinstance(x, bytes):
        return ["bytes", list(x)]
    if isinstance(x, re.Pattern):
        return ["regex", [ord(c) for c in x.pattern]]
    if isinstance(x, kw.Keyword):
        return ["kw", x.ns, x.name]
    if isinstance(x, sym.Symbol):
        return ["sym", x.ns, x.name, loc_of(x)]
    if isinstance(x, llist.PersistentList):
        loc = loc_of(x)
        items = list(x)
        if loc is None and items and isinstance(items[0], sym.Symbol):
            h = items[0]
            if (h.ns == "basilisp.core" and h.name in ("seq", "apply", "str")) or \
                    (h.ns is None and h.name == "quote"):
                for e in items:
                    canon(e)          # still refuse aliens inside
                return ["opaque"]
        return ["list", [canon(e) for e in items], loc]
    if isinstance(x, vec.PersistentVector):
        return ["vec", [canon(e) for e in x], loc_of(x)]
    if isinstance(x, lmap.PersistentMap):
        flat = []
        for k, v in x.items():
            flat.append(canon(k))
            flat.append(canon(v))
        return ["map", flat, loc_of(x)]
    if isinstance(x, lset.PersistentSet):
        return ["set", [canon(e) for e in x], loc_of(x)]
    if isinstance(x, lqueue.PersistentQueue):
        return ["queue", [canon(e) for e in x]]
    if isinstance(x, tuple):
        return ["py", 0, [canon(e) for e in x]]
    if isinstance(x, list):
        return ["py", 1, [canon(e) for e in x]]
    if isinstance(x, (set, frozenset)):
        return ["py", 2, [canon(e) for e in x]]
    if isinstance(x, dict):
        flat = []
        for k, v in x.items():
            flat.append(canon(k))
            flat.append(canon(v))
        return ["py", 3, flat]
    if isinstance(x, datetime.datetime):
        return ["inst"]
    if isinstance(x, uuid.UUID):
        return ["uuid"]
    if isinstance(x, TaggedLiteral):
        return ["tagged", canon(x.tag), canon(x.form)]
    if isinstance(x, reader.ReaderConditional):
        return ["rcond", bool(x.is_splicing), [canon(e) for e in x.val_at(_S["form_kw"])]]
    raise Alien(type(x).__name__)


# ---- "an equal form": locations dropped, numbers by value, sets and maps unordered ------------
def _numval(t):
    k = t[0]
    if k == "int":
        return fractions.Fraction(int(t[1]))
    if k in ("float", "dec"):
        v = fractions.Fraction(int(t[2])) * fractions.Fraction(10) ** t[3]
        return -v if t[1] else v
    if k == "ratio":
        return fractions.Fraction(int(t[1]), int(t[2]))
    if k == "bool":
        return fractions.Fraction(1 if t[1] else 0)
    return None


def key(t):
    k = t[0]
    v = _numval(t)
    if v is not None and k != "bool":
        return ("num", str(v))
    if k == "bool":
        return ("bool", t[1])
    if k in ("sym",):
        return ("sym", t[1], t[2])
    if k in ("list", "vec"):
        return (k, tuple(key(e) for e in t[1]))
    if k == "set":
        return (k, tuple(sorted((key(e) for e in t[1]), key=repr)))
    if k == "map":
        pairs = [(key(t[1][i]), key(t[1][i + 1])) for i in range(0, len(t[1]) - 1, 2)]
        return (k, tuple(sorted(pairs, key=repr)))
    if k == "queue":
        return (k, tuple(key(e) for e in t[1]))
    if k == "py":
        items = [key(e) for e in t[2]]
        if t[1] == 2:
            items = sorted(items, key=repr)
        if t[1] == 3:
            items = sorted([(items[i], items[i + 1]) for i in range(0, len(items) - 1, 2)], key=repr)
        return (k, t[1], tuple(items))
    if k == "tagged":
        return (k, key(t[1]), key(t[2]))
    if k == "rcond":
        return (k, t[1], tuple(key(e) for e in t[2]))
    return tuple(_freeze(e) for e in t)


def _freeze(e):
    return tuple(_freeze(x) for x in e) if isinstance(e, list) else e


# ---- true locations (same convention as Spec.spec_loc, written independently) ------------------
def offsets(s):
    """{(line, col): index} for every position 0..len(s)."""
    out = {}
    line, col = 1, 0
    for i in range(len(s) + 1):
        if i > 0:
            p = s[i - 1]
            nxt = s[i] if i < len(s) else ""
            if p == "\n" or (p == "\r" and nxt != "\n"):
                line, col = line + 1, 0
            else:
                col += 1
        out[(line, col)] = i
    return out


def read_raw(s):
    reader, runtime = _S["reader"], _S["runtime"]
    with runtime.bindings({_S["nsvar"]: _S["ns"]}):
        return list(reader.read_str(s, resolver=runtime.resolve_alias, eof=_S["eof"]))


def bad_spans(s, trees):
    offs = offsets(s)
    bad = []

    def check(t, loc):
        a, b = offs.get((loc[0], loc[1])), offs.get((loc[2], loc[3]))
        ok = False
        if a is not None and b is not None and a <= b:
            try:
                forms = read_raw(s[a:b])
                ok = len(forms) == 1 and key(canon(forms[0])) == key(t)
            except Exception:
                ok = False
        if not ok:
            bad.append(list(loc))

    def walk(t):
        k = t[0]
        if k == "sym":
            if t[3] is not None:
                check(t, t[3])
        elif k in ("list", "vec", "map", "set"):
            if t[2] is not None:
                check(t, t[2])
            for e in t[1]:
                walk(e)
        elif k == "queue":
            for e in t[1]:
                walk(e)
        elif k in ("py", "rcond"):
            for e in t[2]:
                walk(e)
        elif k == "tagged":
            walk(t[1])
            walk(t[2])

    for t in trees:
        walk(t)
    return bad


def run(case):
    reader = _S["reader"]
    s = case["s"]
    try:
        forms = read_raw(s)
    except reader.UnexpectedEOFError as e:
        return {"r": "eof", "l": e.line, "c": e.col}
    except reader.SyntaxError as e:
        return {"r": "syn", "l": e.line, "c": e.col}
    except RecursionError:
        return {"r": "other", "cls": "RecursionError"}
    except Exception as e:
        return {"r": "other", "cls": type(e).__name__}
    try:
        trees = [canon(f) for f in forms]
    except Alien as e:
        return {"r": "alien", "what": str(e)}
    return {"r": "forms", "fs": trees, "bad": bad_spans(s, trees)}
