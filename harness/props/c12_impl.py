"""C12 implementation side: runs atom operations of several threads on the REAL
basilisp.lang.atom.Atom (and the core.lpy wrappers) under harness/vlib/sched.py.

case (replay):  {"init": V, "validator": VLD, "watches": n, "threads": [[OP...]...],
                 "sched": [tid...]}            -> observation (see `observe`)
case (explore): same without "sched", plus {"explore": {"preempt": 2, "limit": n,
                 "random": k, "seed": s}}      -> {"runs": [{"sched", "msched"}...]}

V   : {"i": n} | {"f": n} (the float n.0) | {"nan": k} | {"s": "txt"} | null
      | {"vn": k} (a basilisp vector holding NaN; equal only to itself)
      | {"w": k, "eq": true|false} (object whose __eq__ always answers `eq`)
OP  : {"op": "swap", "api": "py"|"core", "f": FN, "vals": bool}
      {"op": "reset", "api": ..., "v": V, "vals": bool}
      {"op": "cas", "api": ..., "old": V, "new": V} | {"op": "deref", "api": ...}
FN  : "inc" | "str" | "id" | "throw" | {"const": V}
VLD : null | {"lt": n}  (value must be an int < n; anything else is rejected)

An initial value the validator rejects makes Atom.__init__ raise "Invalid reference state":
replay -> {"status": "ctor_invalid"} (Corr: OFail 5, predicted by model and spec);
explore -> one run with the empty schedule.
"""
import math
import os

from harness.vlib import sched
from harness.props import c12_fns
from harness.props.c12_fns import FnThrow

_S = {}


def setup():
    from basilisp.lang import atom, reference, vector
    from basilisp.lang.exception import ExceptionInfo
    from harness.tr import tr_conc
    _S["atom"] = atom
    _S["vector"] = vector
    _S["ExceptionInfo"] = ExceptionInfo
    _S["files"] = [atom.__file__, reference.__file__, c12_fns.__file__]
    try:
        labels = dict(tr_conc.labels())
        _S["label_error"] = None
    except Exception as e:      # fail closed: no label table -> every run is "unmapped"
        labels = {}
        _S["label_error"] = str(e)[:300]
    src = open(c12_fns.__file__).read().splitlines()
    base = os.path.basename(c12_fns.__file__)
    for i, line in enumerate(src, 1):
        if line.rstrip().endswith("# COMPUTE"):
            labels[(base, i)] = "COMPUTE"
        elif line.strip():
            labels.setdefault((base, i), None)
    _S["labels"] = labels
    try:
        from harness.vlib import bl
        _S["core"] = {n: bl.core(n) for n in
                      ("swap!", "reset!", "swap-vals!", "reset-vals!", "compare-and-set!", "deref")}
    except Exception:
        _S["core"] = None


class Weird:
    def __init__(self, k, eq):
        self.k, self.eq = k, eq

    def __eq__(self, other):
        return self.eq

    __hash__ = object.__hash__


class Pool:
    """One Python object per non-reflexive / identity-sensitive model value."""

    def __init__(self):
        self.objs = {}
        self.back = {}

    def dec(self, v):
        if v is None:
            return None
        if "i" in v:
            return int(v["i"])
        if "f" in v:
            return float(v["f"])
        if "s" in v:
            return str(v["s"])
        key = repr(sorted(v.items()))
        if key not in self.objs:
            if "nan" in v:
                o = float("nan")
            elif "vn" in v:
                o = _S["vector"].v(self.dec({"nan": 0}))
            elif "w" in v:
                o = Weird(v["w"], bool(v["eq"]))
            else:
                raise ValueError(v)
            self.objs[key] = o
            self.back[id(o)] = v
        return self.objs[key]

    def enc(self, o):
        if o is None:
            return None
        if id(o) in self.back and self.objs.get(repr(sorted(self.back[id(o)].items()))) is o:
            return self.back[id(o)]
        if type(o) is bool:
            return {"?": "bool"}
        if type(o) is int:
            return {"i": o}
        if type(o) is float:
            if math.isnan(o):
                return {"nan": -1}
            return {"f": int(o)} if o == int(o) else {"?": "float"}
        if type(o) is str:
            return {"s": o}
        return {"?": type(o).__name__}


def _str(x):
    if x is None or type(x) in (int, float, str):
        return str(x)
    return "<obj>"


def _apply_kind(fn, pool):
    if fn == "inc":
        def k(x):
            if type(x) is int:
                return x + 1
            raise FnThrow("inc")
    elif fn == "str":
        k = _str
    elif fn == "id":
        def k(x):
            return x
    elif fn == "throw":
        def k(x):
            raise FnThrow("throw")
    elif isinstance(fn, dict) and "const" in fn:
        c = pool.dec(fn["const"])

        def k(x):
            return c
    else:
        raise ValueError(fn)
    return k


def _validator(v):
    if v is None:
        return None
    n = v["lt"]
    return lambda x: type(x) is int and x < n


class CtorRejected(Exception):
    """Atom.__init__ refused the initial value (its validator answers false on it)."""


class Build:
    """Fresh shared state for one execution of a configuration."""

    def __init__(self, cfg):
        self.cfg = cfg
        self.pool = Pool()
        pool = self.pool
        Atom = _S["atom"].Atom
        with sched.instrumented_threading():
            try:
                self.atom = Atom(pool.dec(cfg["init"]), validator=_validator(cfg.get("validator")))
            except _S["ExceptionInfo"] as e:
                if "Invalid reference state" in str(e):
                    raise CtorRejected("Atom.__init__: Invalid reference state") from None
                raise
        self.wlog = []
        for w in range(cfg.get("watches", 0)):
            self.atom.add_watch(w, self._watch)
        self.results = [[] for _ in cfg["threads"]]
        self.marks = [[] for _ in cfg["threads"]]

    def _watch(self, k, ref, old, new):
        self.wlog.append([k, self.pool.enc(old), self.pool.enc(new)])

    def do(self, o):
        a, pool, core = self.atom, self.pool, _S["core"]
        kind, api = o["op"], o.get("api", "py")
        if api == "core" and core is None:
            raise RuntimeError("basilisp.core not available")
        if kind == "swap":
            f = c12_fns.make_fn(_apply_kind(o["f"], pool))
            if api == "py":
                if o.get("vals"):
                    raise ValueError("swap-vals! is core only")
                return {"vals": [pool.enc(a.swap(f))]}
            r = core["swap-vals!" if o.get("vals") else "swap!"](a, f)
            return {"vals": [pool.enc(x) for x in r]} if o.get("vals") else {"vals": [pool.enc(r)]}
        if kind == "reset":
            v = pool.dec(o["v"])
            if api == "py":
                return {"vals": [pool.enc(a.reset(v))]}
            r = core["reset-vals!" if o.get("vals") else "reset!"](a, v)
            return {"vals": [pool.enc(x) for x in r]} if o.get("vals") else {"vals": [pool.enc(r)]}
        if kind == "cas":
            old, new = pool.dec(o["old"]), pool.dec(o["new"])
            r = a.compare_and_set(old, new) if api == "py" else core["compare-and-set!"](a, old, new)
            return {"bool": bool(r)}
        if kind == "deref":
            return {"vals": [pool.enc(a.deref() if api == "py" else core["deref"](a))]}
        raise ValueError(kind)

    def body(self, t):
        ops = self.cfg["threads"][t]
        ExceptionInfo = _S["ExceptionInfo"]

        def run():
            for o in ops:
                sched.op_begin()
                try:
                    r = self.do(o)
                except FnThrow:
                    r = "exc"
                except ExceptionInfo as e:
                    r = "invalid" if "Invalid reference state" in str(e) else "err:ExceptionInfo"
                except sched.BudgetExhausted:
                    self.results[t].append("budget")
                    return
                except Exception as e:   # noqa: BLE001 - any other exception is an observation
                    r = "err:" + type(e).__name__
                self.results[t].append(r)
        return run

    def bodies(self):
        return [self.body(t) for t in range(len(self.cfg["threads"]))]


def msched_of(trace):
    labels = _S["labels"]
    out, bad = [], None
    for e in trace:
        if e.loc == "<start>":
            continue
        base, _, ln = e.loc.partition(":")
        key = (base, int(ln))
        if key not in labels:
            bad = bad or f"unmapped line {e.loc} in {e.func}"
            continue
        lab = labels[key]
        if lab is None:
            continue
        if e.kind == "run":
            out.append([e.tid, lab, False])
        elif e.kind == "block":
            out.append([e.tid, lab, True])
        else:
            bad = bad or f"unexpected step kind {e.kind} at {e.loc}"
    return out, bad


OPTS = dict(grace=2.0, hang_timeout=4.0, step_budget=250, max_steps=4000)


def _points(filename, lineno, funcname):
    """Scheduling points of the "label" granularity: only the labelled program points."""
    return _S["labels"].get((os.path.basename(filename), lineno)) is not None


def opts(case):
    o = dict(OPTS)
    if case.get("gran", "label") == "label" and not _S.get("label_error"):
        o["points"] = _points
    return o


def observe(b, res):
    ms, bad = msched_of(res.trace)
    if _S.get("label_error"):
        bad = "label table refused: " + _S["label_error"]
    results = [list(r) for r in b.results]
    # retries per operation = reads of the cell beyond the first, per swap/reset
    return {"status": res.status if not bad else "unmapped", "why": bad,
            "res": results, "final": b.pool.enc(b.atom.deref()), "wlog": b.wlog,
            "msched": ms, "leaked": res.leaked}


def run(case):
    if "explore" in case:
        return explore(case)
    try:
        b = Build(case)
    except CtorRejected as e:
        return {"status": "ctor_invalid", "why": str(e), "res": [], "final": None, "wlog": [],
                "msched": [], "leaked": 0}
    res = sched.run(b.bodies(), _S["files"], schedule=case["sched"], strict=True, **opts(case))
    return observe(b, res)


def explore(case):
    ex = case["explore"]
    try:
        Build(case)             # probe: no atom, nothing to schedule
    except CtorRejected:
        return {"runs": [{"sched": [], "msched": []}], "explored": 1, "exhaustive": True,
                "ctor_invalid": True}
    made = []

    def factory():
        b = Build(case)
        made.append(b)
        return b.bodies()
    runs, seen = [], set()
    n = 0
    exhaustive = True
    for res in sched.explore(factory, _S["files"], preemptions=ex.get("preempt", 2),
                             limit=ex.get("limit"), **opts(case)):
        n += 1
        b = made.pop()
        ms, bad = msched_of(res.trace)
        key = repr(ms)
        if key in seen and res.status == "ok" and not bad:
            continue
        seen.add(key)
        runs.append({"sched": res.choices, "msched": ms})
    if ex.get("limit") and n >= ex["limit"]:
        exhaustive = False
    if ex.get("random"):
        import random
        rng = random.Random(ex.get("seed", 0))
        for res in sched.random_runs(factory, _S["files"], ex["random"], rng, **opts(case)):
            n += 1
            made.pop()
            ms, bad = msched_of(res.trace)
            key = repr(ms)
            if key in seen:
                continue
            seen.add(key)
            runs.append({"sched": res.choices, "msched": ms})
    return {"runs": runs, "explored": n, "exhaustive": exhaustive}
