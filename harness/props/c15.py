"""C15 -- the Python-AST optimization pass never changes what generated code does."""
from harness.vlib import gallina as G

ID = "C15"
TITLE = "The Python-AST optimization pass never changes what generated code does"
CORR = "Verif.C15.Corr"
CORR_TARGETS = ["theories/C15/Corr.vo"]
TARGETS = ["theories/Properties/C15.vo"]
PROPERTIES_FILE = "theories/Properties/C15.v"
IMPL = "harness.props.c15_impl"
BASILISP = False          # the worker module installs the capture hook, then bootstraps basilisp itself
NWORKERS = 1
HARD_TIMEOUT = 900
TAGGED = True
SHARD = 60
TABLE_DEPS = ["opt_binops", "opt_unaryops", "opt_compareops", "opt_isops", "opt_terminators",
              "opt_expr_droppable", "opt_visitors", "opt_ctx_openers", "opt_contains_swapped", "opt_is_uses_eq",
              "opt_try_keeps_finally", "opt_ctx_fresh"]
WORKER_ENV = {"VERIF_CASE_SOFT_TIMEOUT": "600"}
RULE = ("every top-level form (ast.Module) the real optimizer visits while the listed namespaces are compiled from "
        "source (quick: basilisp.core and four small namespaces; thorough: every bundled namespace), plus the forms of "
        "the generated C01/C02 program corpus, which are also executed with and without the pass. Each changed "
        "(before, after) pair is serialised as a generic tree and checked rewrite by rewrite by the Coq checker. "
        "Non-trivial = the optimizer changed the form; distinct = distinct (namespace, index) / program text.")
TRUSTED = ["the Python AST -> generic tree serialiser (harness/props/c15_impl.py): field order checked against the running "
           "Python; identical expression subtrees of before/after are abstracted to one hashed atom (56-bit sha1 prefix)",
           "the reference meaning of operator-module functions (harness/props/c15_tags.py REF_*: operator.add(a,b) = a + b ...)",
           "CPython gives the opaque (unchanged) node kinds the same meaning on both sides"]
ASSUMPTIONS = ["dropping a bare Name statement assumes the name is bound (generated code only emits bound names)",
               "semantic preservation is proved for the first-order statement subset of C01/Py.v; for all other "
               "node kinds the deliverable is the rewrite-by-rewrite validation against the `allowed` relation"]
FINDINGS = {
    "F-15a": lambda c, o, tag: bool(tag & 1),
    "F-15b": lambda c, o, tag: bool(tag & 2),
    "F-15c": lambda c, o, tag: bool(tag & 4),
    "F-15d": lambda c, o, tag: bool(tag & 8),
}

WITNESS_PROGRAMS = [
    "(fn* [a b] (identical? a b))",
    "(fn* [a] (identical? 1.0 a))",
    "(import operator) (fn* [a b] (operator/contains (t a) (t b)))",
    "(import operator) (fn* [a b] (operator/add a b))",
    "(defn verif-c15-outer [] (def verif-c15-gy 1) (fn ^:async verif-c15-inner [] (def verif-c15-gy 2)))",
    "(defn verif-c15-f [c] (if c (do (def verif-c15-gx 2) 1) (do (throw (python/ValueError \"x\")) (def verif-c15-gx 1))))",
    # `global` is per Python function: a nested (non-async) fn declaring the same name again must keep its own
    # declaration; the same name declared twice in ONE function body is de-duplicated
    "(defn verif-c15-outer2 [] (def verif-c15-gz 1) (fn verif-c15-inner2 [] (def verif-c15-gz 2)))",
    "(defn verif-c15-outer3 [] (def verif-c15-gw 1) (fn [] (fn [] (def verif-c15-gw 3) (def verif-c15-gw 4))) (def verif-c15-gw 5))",
    "(defn verif-c15-outer4 [] (fn [] (def verif-c15-gv 1)) (def verif-c15-gv 2) (fn [] (def verif-c15-gv 3)))",
]

QUICK_NS = [("basilisp.core", 900), ("basilisp.string", 80), ("basilisp.set", 60), ("basilisp.walk", 60),
            ("basilisp.edn", 150)]
THOROUGH_NS = QUICK_NS + [("basilisp.data", 60), ("basilisp.json", 120), ("basilisp.io", 200), ("basilisp.pprint", 300),
                          ("basilisp.process", 150), ("basilisp.reflect", 120), ("basilisp.repl", 60),
                          ("basilisp.shell", 60), ("basilisp.stacktrace", 60), ("basilisp.template", 40),
                          ("basilisp.test", 150), ("basilisp.url", 80), ("basilisp.csv", 40),
                          ("basilisp.contrib.bencode", 80), ("basilisp.contrib.nrepl-server", 300)]


def cases(tier, rng):
    from harness.props import c01_full as F
    for ns, cap in (QUICK_NS if tier == "quick" else THOROUGH_NS):
        for i in range(cap):
            yield {"k": "form", "ns": ns, "i": i}
    progs = [(k, e) for k, e in F.hazard_programs()]
    n = 120 if tier == "quick" else 3000
    for _ in range(n):
        progs.append(("random", F.random_program(rng)))
    # programs that exercise the rewrites the pass makes on code in function bodies
    extra = WITNESS_PROGRAMS
    seen = set()
    for k, e in progs:
        lisp = F.to_lisp(e)
        if lisp in seen:
            continue
        seen.add(lisp)
        yield {"k": "prog", "kind": k, "lisp": lisp}
    for lisp in extra:
        yield {"k": "prog", "kind": "extra", "lisp": lisp}


def coq_pair(c, o):
    if c["k"] == "form":
        if "b" in o:
            return f"(CForm {o['b']}, OForm {o['a']})"
        if o.get("same") or o.get("none"):
            return "(CTriv, OTriv)"
        return "(CTriv, OErr 1)"
    if "pairs" in o:
        bs = G.lst([p[0] for p in o["pairs"]], "tree")
        as_ = G.lst([p[1] for p in o["pairs"]], "tree")
        return f"(CProg {bs}, OProg {G.b(bool(o.get('same_exec')))} {as_})"
    return "(CTriv, OErr 2)"


def nontrivial(c, o):
    return "b" in o or bool(o.get("pairs"))


def describe(c):
    return f"{c['k']} {c.get('ns', '')} {c.get('i', '')} {c.get('lisp', '')}"[:300]


def extra_evidence(cases_, outs):
    forms = sum(1 for c, o in zip(cases_, outs) if c["k"] == "form" and not o.get("none"))
    changed = sum(1 for c, o in zip(cases_, outs) if c["k"] == "form" and "b" in o)
    progs = sum(1 for c in cases_ if c["k"] == "prog")
    pp = sum(len(o.get("pairs", [])) for o in outs)
    nodes = sum(o.get("nodes", 0) for o in outs)
    per_ns = {}
    for c, o in zip(cases_, outs):
        if c["k"] == "form" and not o.get("none"):
            per_ns[c["ns"]] = per_ns.get(c["ns"], 0) + 1
    return {"programs": forms + progs, "forms_seen": forms, "forms_changed_by_optimizer": changed,
            "generated_programs": progs, "program_form_pairs_checked": pp, "ast_nodes_in_checked_forms": nodes,
            "forms_per_namespace": per_ns, "disagreements_checked": changed + pp}
