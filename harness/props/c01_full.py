"""Full special-form fragment for C01/C02: representation, Lisp printer, Gallina printer,
program generator (typed, so that generated programs do not get stuck)."""
from harness.vlib import gallina as G
from harness.props.c01_common import LOCALS

GLOBALS = ["g0", "g1", "g-2", "g3"]
EXC = {0: "python/Exception", 1: "python/ValueError", 2: "python/TypeError", 4: "python/KeyError"}


# ---- printers ------------------------------------------------------------------------
def lisp_const(v):
    if v is None:
        return "nil"
    if v is True:
        return "true"
    if v is False:
        return "false"
    if isinstance(v, int):
        return str(v)
    return "[" + " ".join(lisp_const(x) for x in v[1:]) + "]"


FLAT = [False]      # when set, nested single-binding lets are printed as ONE let* binding vector


def to_lisp(e):
    k = e[0]
    if k == "const":
        return lisp_const(e[1])
    if k == "local":
        return LOCALS[e[1]]
    if k == "global":
        return GLOBALS[e[1]]
    if k == "def":
        return f"(def {GLOBALS[e[1]]} {to_lisp(e[2])})"
    if k == "if":
        return f"(if {to_lisp(e[1])} {to_lisp(e[2])} {to_lisp(e[3])})"
    if k == "do":
        return f"(do {to_lisp(e[1])} {to_lisp(e[2])})"
    if k == "let":
        if FLAT[0]:
            binds, body = [], e
            while body[0] == "let":
                binds.append(f"{LOCALS[body[1]]} {to_lisp(body[2])}")
                body = body[3]
            return f"(let* [{' '.join(binds)}] {to_lisp(body)})"
        return f"(let* [{LOCALS[e[1]]} {to_lisp(e[2])}] {to_lisp(e[3])})"
    if k == "fn":
        name = (LOCALS[e[1]] + " ") if e[1] is not None else ""
        return f"(fn* {name}[{' '.join(LOCALS[p] for p in e[2])}] {to_lisp(e[3])})"
    if k == "invoke":
        return "(" + " ".join([to_lisp(e[1])] + [to_lisp(a) for a in e[2]]) + ")"
    if k == "prim":
        p = e[1]
        name = {"t": "t", "vec": "vector", "conj": "conj", "inc": "inc", "lt": "<"}.get(p)
        if name is None:
            name = EXC[int(p[3:])]          # "exc<cls>"
        return "(" + " ".join([name] + [to_lisp(a) for a in e[2]]) + ")"
    if k == "loop":
        bs = " ".join(f"{LOCALS[x]} {to_lisp(i)}" for x, i in e[1])
        return f"(loop* [{bs}] {to_lisp(e[2])})"
    if k == "recur":
        return "(" + " ".join(["recur"] + [to_lisp(a) for a in e[1]]) + ")"
    if k == "throw":
        return f"(throw {to_lisp(e[1])})"
    if k == "try":
        s = f"(try {to_lisp(e[1])}"
        if e[2] is not None:
            cls, x, hb = e[2]
            s += f" (catch {EXC[cls]} {LOCALS[x]} {to_lisp(hb)})"
        if e[3] is not None:
            s += f" (finally {to_lisp(e[3])})"
        return s + ")"
    if k == "veclit":
        return "[" + " ".join(to_lisp(a) for a in e[1]) + "]"
    if k == "pylit":
        o, c = ("[", "]") if e[1] == "list" else ("(", ")")
        return "#py " + o + " ".join(to_lisp(a) for a in e[2]) + c
    raise ValueError(k)


def coq_const(v):
    if v is None:
        return "KNil"
    if v is True:
        return "(KBool true)"
    if v is False:
        return "(KBool false)"
    if isinstance(v, int):
        return f"(KInt {G.z(v)})"
    return "(KVec " + G.lst([coq_const(x) for x in v[1:]], "const") + ")"


def coq_prim(p):
    if p.startswith("exc"):
        return f"(PMkExc {G.n(int(p[3:]))})"
    return {"t": "PTrace", "vec": "PVec", "conj": "PConj", "inc": "PInc", "lt": "PLt"}[p]


def coq_list(es):
    return G.lst([coq_expr(a) for a in es], "expr")


def coq_expr(e):
    k = e[0]
    if k == "const":
        return f"(EConst {coq_const(e[1])})"
    if k == "local":
        return f"(ELocal {G.n(e[1])})"
    if k == "global":
        return f"(EGlobal {G.n(e[1])})"
    if k == "def":
        return f"(EDef {G.n(e[1])} {coq_expr(e[2])})"
    if k == "if":
        return f"(EIf {coq_expr(e[1])} {coq_expr(e[2])} {coq_expr(e[3])})"
    if k == "do":
        return f"(EDo {coq_expr(e[1])} {coq_expr(e[2])})"
    if k == "let":
        return f"(ELet {G.n(e[1])} {coq_expr(e[2])} {coq_expr(e[3])})"
    if k == "fn":
        return f"(EFn {G.opt(e[1], G.n, 'N')} {G.lst([G.n(p) for p in e[2]], 'N')} {coq_expr(e[3])})"
    if k == "invoke":
        return f"(EInvoke {coq_expr(e[1])} {coq_list(e[2])})"
    if k == "prim":
        return f"(EPrim {coq_prim(e[1])} {coq_list(e[2])})"
    if k == "loop":
        bs = G.lst([f"({G.n(x)}, {coq_expr(i)})" for x, i in e[1]], "(N * expr)%type")
        return f"(ELoop {bs} {coq_expr(e[2])})"
    if k == "recur":
        return f"(ERecur {coq_list(e[1])})"
    if k == "throw":
        return f"(EThrow {coq_expr(e[1])})"
    if k == "try":
        h = "None" if e[2] is None else f"(Some ({G.n(e[2][0])}, {G.n(e[2][1])}, {coq_expr(e[2][2])}))"
        f = "None" if e[3] is None else f"(Some {coq_expr(e[3])})"
        return f"(ETry {coq_expr(e[1])} {h} {f})"
    if k == "veclit":
        return f"(EVecLit {coq_list(e[1])})"
    if k == "pylit":
        # a Python list/tuple literal: same evaluation rule and same generated shape as a vector literal
        # (elements left to right, their statements hoisted in order); compared as the sequence of elements
        return f"(EVecLit {coq_list(e[2])})"
    raise ValueError(k)


def embed(e):
    """A first-order-core program (c01_common representation) as a full-fragment program."""
    k = e[0]
    if k in ("const", "local"):
        return e
    if k == "if":
        return ["if", embed(e[1]), embed(e[2]), embed(e[3])]
    if k == "do":
        return ["do", embed(e[1]), embed(e[2])]
    if k == "let":
        return ["let", e[1], embed(e[2]), embed(e[3])]
    if k == "call":
        return ["prim", e[1], [embed(a) for a in e[2]]]
    raise ValueError(k)


def size(e):
    n = 1
    for x in e[1:]:
        if isinstance(x, list):
            if x and isinstance(x[0], str):
                n += size(x)
            else:
                for y in x:
                    if isinstance(y, list) and y and isinstance(y[0], str):
                        n += size(y)
                    elif isinstance(y, (list, tuple)) and len(y) == 2 and isinstance(y[1], list):
                        n += size(y[1])
        elif isinstance(x, tuple) and len(x) == 3:
            n += size(x[2])
    return n


# ---- constructors ---------------------------------------------------------------------
def K(v): return ["const", v]
def L(x): return ["local", x]
def T(e): return ["prim", "t", [e]]
def IF(c, a, b): return ["if", c, a, b]
def DO(a, b): return ["do", a, b]
def LET(x, i, b): return ["let", x, i, b]
def FN(ps, body, name=None): return ["fn", name, list(ps), body]
def INV(f, *args): return ["invoke", f, list(args)]
def P(p, *args): return ["prim", p, list(args)]
def LOOP(binds, body): return ["loop", [list(b) for b in binds], body]
def RECUR(*args): return ["recur", list(args)]
def THROW(e): return ["throw", e]
def TRY(b, h=None, f=None): return ["try", b, list(h) if h else None, f]
def VEC(*es): return ["veclit", list(es)]
def PYL(*es): return ["pylit", "list", list(es)]
def PYT(*es): return ["pylit", "tuple", list(es)]
def DEF(g, i): return ["def", g, i]
def GL(g): return ["global", g]


A_B, A__B, XQ, XQ2, I, ACC, F, E, N_, V = 0, 1, 2, 3, 4, 6, 8, 10, 12, 14


def hazard_programs():
    """Systematic programs around each mechanism the property names."""
    out = []
    # closures keep the bindings in effect when they were created (loop locals, let in loop)
    out.append(("closure-loop-call", LOOP([(I, K(0)), (F, K(None))],
        IF(P("lt", L(I), K(2)), RECUR(P("inc", L(I)), IF(L(F), L(F), FN([], L(I)))), INV(L(F))))))
    out.append(("closure-let-in-loop", LOOP([(I, K(0)), (F, K(None))],
        LET(N_, L(I), IF(P("lt", L(I), K(2)), RECUR(P("inc", L(I)), IF(L(F), L(F), FN([], L(N_)))), INV(L(F)))))))
    out.append(("closure-let-outside-loop", LET(N_, K(5), LOOP([(I, K(0)), (F, K(None))],
        IF(P("lt", L(I), K(2)), RECUR(P("inc", L(I)), FN([], L(N_))), INV(L(F)))))))
    out.append(("closure-fn-recur", INV(FN([I, F], IF(P("lt", L(I), K(2)),
        RECUR(P("inc", L(I)), IF(L(F), L(F), FN([], L(I)))), INV(L(F))), name=E), K(0), K(None))))
    out.append(("closure-catch-var", LET(F, TRY(THROW(P("exc1", K(7))), (0, E, FN([], L(E)))), INV(L(F)))))
    out.append(("catch-var-direct", TRY(THROW(P("exc1", K(7))), (1, E, L(E)))))
    # shadowing and Python-unsafe names
    out.append(("param-munge-shadow", INV(FN([A_B], INV(FN([A__B], L(A_B)), K(2))), K(1))))
    out.append(("param-munge-shadow2", INV(FN([XQ], INV(FN([XQ2], L(XQ)), K(2))), K(1))))
    out.append(("let-munge-shadow", LET(A_B, K(1), LET(A__B, K(2), VEC(L(A_B), L(A__B))))))
    out.append(("param-vs-let", INV(FN([A_B], LET(A__B, K(2), VEC(L(A_B), L(A__B)))), K(1))))
    out.append(("shadow-5", LET(A_B, K(1), LET(A_B, P("inc", L(A_B)), INV(FN([A_B], LET(A_B, P("inc", L(A_B)),
        LOOP([(A_B, P("inc", L(A_B)))], L(A_B)))), P("inc", L(A_B)))))))
    # recur rebinding all loop locals simultaneously
    out.append(("recur-simultaneous", LOOP([(I, K(0)), (N_, K(10))],
        IF(P("lt", L(I), K(2)), RECUR(P("inc", L(I)), L(I)), VEC(L(I), L(N_))))))
    out.append(("recur-swap", LOOP([(I, K(1)), (N_, K(2)), (ACC, K(0))],
        IF(P("lt", L(ACC), K(3)), RECUR(L(N_), L(I), P("inc", L(ACC))), VEC(L(I), L(N_))))))
    out.append(("fn-recur-swap", INV(FN([I, N_, ACC], IF(P("lt", L(ACC), K(3)),
        RECUR(L(N_), L(I), P("inc", L(ACC))), VEC(L(I), L(N_)))), K(1), K(2), K(0))))
    # only nil and false are falsey
    for c in [None, False, True, 0, ["vec"], ["vec", None]]:
        out.append(("truthy", IF(K(c), K(1), K(2))))
    # try / catch / finally
    out.append(("try-finally-order", TRY(T(K(1)), (1, E, T(K(2))), T(K(3)))))
    out.append(("try-catch-finally", TRY(DO(T(K(1)), THROW(P("exc1", T(K(2))))), (1, E, T(K(3))), T(K(4)))))
    out.append(("try-catch-base", TRY(THROW(P("exc4", K(1))), (0, E, T(K(3))), None)))
    out.append(("try-nomatch", TRY(TRY(THROW(P("exc4", K(1))), (1, E, T(K(3))), T(K(5))), (4, E, T(K(6))), None)))
    out.append(("throw-in-arg", TRY(VEC(T(K(1)), THROW(P("exc1", K(0))), T(K(2))), (1, E, K(9)), None)))
    # a binding init whose code depends on its syntactic position, in a let*/loop* that is itself a
    # non-final statement of a body (F-01e)
    out.append(("let-init-in-stmt-position", LET(XQ, K(15), DO(LET(A_B, IF(L(XQ), L(XQ), T(K(16))), T(L(A_B))), K(3)))))
    out.append(("loop-init-in-stmt-position", LET(XQ, K(15), DO(LOOP([(I, IF(L(XQ), L(XQ), T(K(16))))], T(L(I))), K(3)))))
    out.append(("let-init-in-fn-stmt-position", INV(FN([XQ], DO(LET(A_B, IF(L(XQ), VEC(L(XQ)), T(K(16))), T(L(A_B))), L(XQ))), K(7))))
    out.append(("let-try-init-in-stmt-position", LET(XQ, K(15), DO(LET(A_B, TRY(IF(L(XQ), L(XQ), K(1)), (0, E, K(2)), None), T(L(A_B))), K(3)))))
    # a finally clause (or a handler) that is only a constant or a local: nothing is left of it after
    # the optimizer's constant-statement elimination
    out.append(("try-finally-constant", TRY(T(K(1)), None, K(None))))
    out.append(("try-finally-constant2", LET(V, K(5), TRY(VEC(T(K(1)), L(V)), None, L(V)))))
    out.append(("try-catch-finally-constant", TRY(THROW(P("exc1", T(K(1)))), (1, E, K(2)), K(3))))
    out.append(("try-finally-constant-in-fn", INV(FN([V], TRY(T(L(V)), None, K(True))), K(4))))
    out.append(("try-finally-constant-in-loop", LOOP([(I, K(0))], IF(P("lt", L(I), K(2)),
        RECUR(TRY(P("inc", L(I)), None, K(0))), L(I)))))
    out.append(("recur-in-try", LOOP([(I, K(0))], TRY(IF(P("lt", L(I), K(2)), RECUR(P("inc", L(I))), L(I)), None, T(L(I))))))
    out.append(("finally-in-loop", LOOP([(I, K(0)), (ACC, VEC())], IF(P("lt", L(I), K(2)),
        RECUR(P("inc", L(I)), TRY(P("conj", L(ACC), T(L(I))), None, T(K(9)))), L(ACC)))))
    # def and globals
    out.append(("def-read", DO(DEF(0, T(K(5))), VEC(GL(0), GL(0)))))
    out.append(("def-redef", DO(DEF(0, K(1)), DO(DEF(0, P("inc", GL(0))), GL(0)))))
    out.append(("def-in-fn", DO(INV(FN([V], DEF(1, L(V))), K(7)), GL(1))))
    out.append(("def-fn-self", DO(DEF(2, FN([N_, ACC], IF(P("lt", L(N_), K(3)),
        INV(GL(2), P("inc", L(N_)), P("conj", L(ACC), T(L(N_)))), L(ACC)))), INV(GL(2), K(0), VEC()))))
    out.append(("def-value-is-var", DEF(3, K(1))))
    # named fn self reference and closures capturing params
    out.append(("named-fn", INV(FN([N_], IF(P("lt", L(N_), K(3)), INV(L(F), P("inc", L(N_))), L(N_)), name=F), K(0))))
    out.append(("adder", LET(F, FN([A_B], FN([XQ], VEC(L(A_B), L(XQ)))), VEC(INV(INV(L(F), K(1)), K(2)), INV(INV(L(F), K(3)), K(4))))))
    out.append(("counter-closures", LET(F, FN([N_], FN([], L(N_))), LET(E, INV(L(F), K(1)), LET(V, INV(L(F), K(2)), VEC(INV(L(E)), INV(L(V))))))))
    # one let* vector binding the same name twice with a closure in between (printed flat)
    out.append(("let-rebind-closure", LET(A_B, K(1), LET(F, FN([], L(A_B)), LET(A_B, K(2), VEC(INV(L(F)), L(A_B)))))))
    out.append(("let-rebind-closure2", LET(XQ, T(K(1)), LET(F, FN([V], VEC(L(XQ), L(V))), LET(XQ, P("inc", L(XQ)), INV(L(F), L(XQ)))))))
    out.append(("let-rebind-chain", LET(I, K(1), LET(I, P("inc", L(I)), LET(F, FN([], L(I)), LET(I, P("inc", L(I)), VEC(INV(L(F)), L(I))))))))
    # evaluation order with compound forms among call arguments / collection literals / recur
    for a in (lambda k: T(K(k)), lambda k: LET(V, T(K(k)), L(V)), lambda k: IF(T(K(k)), T(K(k + 1)), K(None)),
              lambda k: TRY(T(K(k)), None, T(K(k + 1))), lambda k: LOOP([(V, T(K(k)))], L(V)), lambda k: DO(T(K(k)), K(k))):
        for b in (lambda k: T(K(k)), lambda k: LET(V, T(K(k)), L(V)), lambda k: TRY(T(K(k)), (1, E, K(0)), None), lambda k: K(k)):
            out.append(("order-veclit", VEC(a(10), b(20), T(K(30)))))
            out.append(("order-pylit", PYL(a(10), b(20), T(K(30)))))
            out.append(("order-pytuple-in-if", IF(T(K(1)), PYT(a(10), b(20)), PYL(T(K(40))))))
            out.append(("order-invoke", INV(T(FN([A_B, XQ], VEC(L(A_B), L(XQ)))), a(10), b(20))))
            out.append(("order-recur", LOOP([(I, K(0)), (ACC, K(0))], IF(P("lt", L(I), K(1)), RECUR(P("inc", a(0)), b(20)), L(ACC)))))
            out.append(("order-fn-recur", INV(FN([I, ACC], IF(P("lt", L(I), K(1)), RECUR(P("inc", a(0)), b(20)), L(ACC)), name=F), K(0), K(0))))
            out.append(("order-fn-recur-else", INV(FN([I, ACC], IF(P("lt", L(I), K(1)), DO(T(K(5)), RECUR(P("inc", L(I)), a(10))), VEC(L(ACC), b(20)))), K(0), K(0))))
    return out


# ---- random typed generator ------------------------------------------------------------
class Gen:
    def __init__(self, rng):
        self.rng = rng
        self.k = 0

    def tk(self):
        self.k += 1
        return K(self.k)

    def expr(self, kind, depth, scope, tail=None):
        """kind: 'int' | 'any' | 'vec'.  scope: list of (id, kind) ; fn values have kind ('fn', nparams, retkind).
        tail: None or ('loop', n) / ('fn', n): recur allowed here with n args."""
        r = self.rng
        ints = [x for x, kd in scope if kd == "int"]
        vecs = [x for x, kd in scope if kd == "vec"]
        fns = [(x, kd) for x, kd in scope if isinstance(kd, tuple) and (kind == "any" or kd[2] == kind)]
        if depth <= 0:
            if kind == "int":
                return L(r.choice(ints)) if ints and r.random() < 0.5 else (T(self.tk()) if r.random() < 0.5 else self.tk())
            if kind == "vec":
                return L(r.choice(vecs)) if vecs and r.random() < 0.5 else VEC()
            return r.choice([K(None), K(True), K(False), self.tk(), VEC()] + [L(x) for x, _ in scope[:3]])
        c = r.random()
        sub = lambda kd=kind, sc=scope, tl=None: self.expr(kd, depth - 1, sc, tl)
        name = lambda: r.choice([A_B, A__B, XQ, XQ2, I, ACC, F, E, N_, V])
        if c < 0.10:
            return IF(sub("any"), sub(kind, scope, tail), sub(kind, scope, tail))
        if c < 0.16:
            return DO(sub("any"), sub(kind, scope, tail))
        if c < 0.30:
            x = name()
            kd = r.choice(["int", "int", "vec", "any"])
            return LET(x, sub(kd), self.expr(kind, depth - 1, [(x, kd)] + [s for s in scope if s[0] != x], tail))
        if c < 0.40:     # immediately invoked / let-bound fn
            n = r.randint(0, 2)
            ps = r.sample([A_B, XQ, I, ACC, N_, V, A__B, XQ2], n)
            body_scope = [(p, "int") for p in ps] + [s for s in scope if s[0] not in ps]
            f = FN(ps, self.expr(kind, depth - 1, body_scope))
            return INV(f, *[sub("int") for _ in ps])
        if c < 0.46 and fns:
            x, kd = r.choice(fns)
            return INV(L(x), *[sub("int") for _ in range(kd[1])])
        if c < 0.54:     # bind a closure, use it later
            x = r.choice([F, E])
            n = r.randint(0, 1)
            ps = r.sample([N_, V, A_B], n)
            rk = r.choice(["int", kind])
            body_scope = [(p, "int") for p in ps] + [s for s in scope if s[0] not in ps]
            f = FN(ps, self.expr(rk, depth - 1, body_scope))
            return LET(x, f, self.expr(kind, depth - 1, [(x, ("fn", n, rk))] + [s for s in scope if s[0] != x], tail))
        if c < 0.64:     # counting loop
            i, acc = r.choice([I, N_]), r.choice([ACC, V])
            if i == acc:
                acc = ACC
            bound = r.randint(1, 3)
            sc = [(i, "int"), (acc, "vec")] + [s for s in scope if s[0] not in (i, acc)]
            step = P("conj", L(acc), self.expr("any", depth - 2, sc))
            res = self.expr(kind, depth - 2, sc)
            return LOOP([(i, K(0)), (acc, VEC())], IF(P("lt", L(i), K(bound)), RECUR(P("inc", L(i)), step), res))
        if c < 0.68:     # counting fn with recur (trampoline)
            i, acc = r.choice([I, N_]), r.choice([ACC, V])
            if i == acc:
                acc = ACC
            bound = r.randint(1, 3)
            sc = [(i, "int"), (acc, "vec")] + [s for s in scope if s[0] not in (i, acc)]
            step = P("conj", L(acc), self.expr("any", depth - 2, sc))
            res = self.expr(kind, depth - 2, sc)
            body = IF(P("lt", L(i), K(bound)), RECUR(P("inc", L(i)), step), res)
            if r.random() < 0.3:
                body = LET(E, T(self.tk()), body)
            return INV(FN([i, acc], body, name=r.choice([None, F])), K(0), VEC())
        if c < 0.74:
            h = None
            if r.random() < 0.7:
                x = r.choice([E, V])
                h = (r.choice([0, 1, 1, 4]), x, self.expr(kind, depth - 1, [(x, "any")] + [s for s in scope if s[0] != x]))
            body = sub(kind)
            if r.random() < 0.5:
                body = DO(T(self.tk()), IF(sub("any"), THROW(P("exc" + str(r.choice([1, 1, 4])), self.tk())), body))
            fin = T(self.tk()) if r.random() < 0.5 else None
            if h is None and fin is None:
                fin = T(self.tk())
            return TRY(body, h, fin)
        if kind == "int":
            if c < 0.82:
                return P("inc", sub("int"))
            return T(sub("int"))
        if kind == "vec":
            if c < 0.85:
                return VEC(*[sub("any") for _ in range(r.randint(0, 3))])
            return P("conj", sub("vec"), sub("any"))
        if c < 0.85:
            return VEC(*[sub("any") for _ in range(r.randint(0, 3))])
        if c < 0.92:
            return T(sub("any"))
        return sub(r.choice(["int", "vec"]))


def random_program(rng):
    g = Gen(rng)
    e = g.expr(rng.choice(["any", "int", "vec"]), rng.choice([2, 3, 3, 4]), [])
    if rng.random() < 0.15:
        e = DO(DEF(0, g.expr("int", 2, [])), VEC(e, GL(0)))
    return e


# ---- the first-order + loop fragment of C01L (simulation theorem) ------------------------
QL = "Verif.C01L.LLisp."
QS = "Verif.C01.Lisp."


def in_l_fragment(e):
    k = e[0]
    if k in ("const", "local"):
        return True
    if k in ("if", "do"):
        return all(in_l_fragment(x) for x in e[1:])
    if k == "let":
        return in_l_fragment(e[2]) and in_l_fragment(e[3])
    if k == "prim":
        return e[1] in ("t", "vec", "conj", "inc", "lt") and all(in_l_fragment(a) for a in e[2])
    if k == "veclit":
        return all(in_l_fragment(a) for a in e[1])
    if k == "loop":
        return all(in_l_fragment(i) for _, i in e[1]) and in_l_fragment(e[2])
    if k == "recur":
        return all(in_l_fragment(a) for a in e[1])
    return False


def _sval(v):
    if v is None:
        return QS + "VNil"
    if v is True:
        return f"({QS}VBool true)"
    if v is False:
        return f"({QS}VBool false)"
    if isinstance(v, int):
        return f"({QS}VInt {G.z(v)})"
    return f"({QS}VVec " + G.lst([_sval(x) for x in v[1:]], QS + "value") + ")"


def coq_lexpr(e):
    k = e[0]
    L_ = lambda es: G.lst([coq_lexpr(a) for a in es], QL + "lexpr")
    if k == "const":
        return f"({QL}LConst {_sval(e[1])})"
    if k == "local":
        return f"({QL}LLocal {G.n(e[1])})"
    if k == "if":
        return f"({QL}LIf {coq_lexpr(e[1])} {coq_lexpr(e[2])} {coq_lexpr(e[3])})"
    if k == "do":
        return f"({QL}LDo {coq_lexpr(e[1])} {coq_lexpr(e[2])})"
    if k == "let":
        return f"({QL}LLet {G.n(e[1])} {coq_lexpr(e[2])} {coq_lexpr(e[3])})"
    if k == "prim":
        f = {"t": "PTrace", "vec": "PVec", "conj": "PConj", "inc": "PInc", "lt": "PLt"}[e[1]]
        return f"({QL}LCall {QS}{f} {L_(e[2])})"
    if k == "veclit":
        return f"({QL}LCall {QS}PVec {L_(e[1])})"
    if k == "loop":
        bs = G.lst([f"({G.n(x)}, {coq_lexpr(i)})" for x, i in e[1]], f"(N * {QL}lexpr)%type")
        return f"({QL}LLoop {bs} {coq_lexpr(e[2])})"
    if k == "recur":
        return f"({QL}LRecur {L_(e[1])})"
    raise ValueError(k)


def loop_programs(rng, n):
    """programs of the loop fragment: counting loops with traced, nested and compound pieces"""
    out = []
    g = Gen(rng)

    def piece(kind, depth, scope):
        # expressions without fn/try/def
        for _ in range(30):
            e = g.expr(kind, depth, scope)
            if in_l_fragment(e):
                return e
        return K(1) if kind == "int" else VEC()

    for _ in range(n):
        i, acc = rng.choice([I, N_]), rng.choice([ACC, V])
        bound = rng.randint(1, 3)
        sc = [(i, "int"), (acc, "vec")]
        step = P("conj", L(acc), piece("any", 2, sc))
        res = piece(rng.choice(["any", "vec", "int"]), 2, sc)
        body = IF(P("lt", L(i), K(bound)), RECUR(P("inc", L(i)), step), res)
        if rng.random() < 0.3:
            body = LET(E, T(g.tk()), body)
        if rng.random() < 0.3:
            body = DO(T(L(i)), body)
        e = LOOP([(i, K(0)), (acc, VEC())], body)
        if rng.random() < 0.4:
            e = VEC(T(g.tk()), e, piece("any", 1, []))
        out.append(e)
    out.append(LOOP([(A_B, K(1)), (XQ, K(2)), (I, K(None))], IF(L(I), VEC(L(A_B), L(XQ)), RECUR(L(XQ), L(A_B), K(7)))))
    return out


# ---- the exception fragment of C01X (simulation theorem): core + loops + throw/try --------
QX = "Verif.C01X.XLisp."


def in_x_fragment(e, in_try=False):
    """syntactic membership; a recur may not cross a try (it must belong to a loop inside it)"""
    k = e[0]
    if k in ("const", "local"):
        return True
    if k in ("if", "do"):
        return all(in_x_fragment(x, in_try) for x in e[1:])
    if k == "let":
        return in_x_fragment(e[2], in_try) and in_x_fragment(e[3], in_try)
    if k == "prim":
        return all(in_x_fragment(a, in_try) for a in e[2])
    if k == "veclit":
        return all(in_x_fragment(a, in_try) for a in e[1])
    if k == "loop":
        return all(in_x_fragment(i, in_try) for _, i in e[1]) and in_x_fragment(e[2], False)
    if k == "recur":
        return not in_try and all(in_x_fragment(a, in_try) for a in e[1])
    if k == "throw":
        return in_x_fragment(e[1], in_try)
    if k == "try":
        return (in_x_fragment(e[1], True) and (e[2] is None or in_x_fragment(e[2][2], True))
                and (e[3] is None or in_x_fragment(e[3], True)))
    return False


def has_try(e):
    if isinstance(e, (list, tuple)):
        if e and e[0] in ("try", "throw"):
            return True
        return any(has_try(x) for x in e)
    return False


def coq_xexpr(e):
    k = e[0]
    L_ = lambda es: G.lst([coq_xexpr(a) for a in es], QX + "xexpr")
    nil = f"({QX}XConst {QS}VNil)"
    if k == "const":
        return f"({QX}XConst {_sval(e[1])})"
    if k == "local":
        return f"({QX}XLocal {G.n(e[1])})"
    if k == "if":
        return f"({QX}XIf {coq_xexpr(e[1])} {coq_xexpr(e[2])} {coq_xexpr(e[3])})"
    if k == "do":
        return f"({QX}XDo {coq_xexpr(e[1])} {coq_xexpr(e[2])})"
    if k == "let":
        return f"({QX}XLet {G.n(e[1])} {coq_xexpr(e[2])} {coq_xexpr(e[3])})"
    if k == "prim":
        if e[1].startswith("exc"):
            f = f"({QS}PMkExc {G.n(int(e[1][3:]))})"
        else:
            f = QS + {"t": "PTrace", "vec": "PVec", "conj": "PConj", "inc": "PInc", "lt": "PLt"}[e[1]]
        return f"({QX}XCall {f} {L_(e[2])})"
    if k == "veclit":
        return f"({QX}XCall {QS}PVec {L_(e[1])})"
    if k == "loop":
        bs = G.lst([f"({G.n(x)}, {coq_xexpr(i)})" for x, i in e[1]], f"(N * {QX}xexpr)%type")
        return f"({QX}XLoop {bs} {coq_xexpr(e[2])})"
    if k == "recur":
        return f"({QX}XRecur {L_(e[1])})"
    if k == "throw":
        return f"({QX}XThrow {coq_xexpr(e[1])})"
    if k == "try":
        h = "None" if e[2] is None else f"(Some ({G.n(e[2][0])}, {G.n(e[2][1])}))"
        hb = nil if e[2] is None else coq_xexpr(e[2][2])
        fin = nil if e[3] is None else coq_xexpr(e[3])
        return f"({QX}XTry {coq_xexpr(e[1])} {h} {hb} {'false' if e[3] is None else 'true'} {fin})"
    raise ValueError(k)


def exc_programs(rng, n):
    """programs of the exception fragment: random typed programs that fit, plus loops whose
    bodies raise, catch and run finally clauses"""
    out = []
    g = Gen(rng)
    tries = 0
    while len(out) < n and tries < 60 * n:
        tries += 1
        e = g.expr(rng.choice(["any", "int", "vec"]), rng.choice([2, 3, 3, 4]), [])
        if in_x_fragment(e) and has_try(e):
            out.append(e)
    for _ in range(max(3, n // 4)):
        i, acc = rng.choice([I, N_]), rng.choice([ACC, V])
        bound = rng.randint(1, 3)
        cls = rng.choice([1, 4])
        hcls = rng.choice([0, 1, 4])
        guarded = TRY(DO(T(L(i)), IF(P("lt", L(i), K(rng.randint(0, 2))), L(i), THROW(P("exc" + str(cls), T(L(i)))))),
                      (hcls, E, DO(T(g.tk()), K(-1))) if rng.random() < 0.7 else None,
                      T(g.tk()) if rng.random() < 0.7 else None)
        if guarded[2] is None and guarded[3] is None:
            guarded = TRY(guarded[1], None, T(g.tk()))
        body = IF(P("lt", L(i), K(bound)), RECUR(P("inc", L(i)), P("conj", L(acc), guarded)), L(acc))
        e = LOOP([(i, K(0)), (acc, VEC())], body)
        if rng.random() < 0.5:
            e = TRY(e, (rng.choice([0, 1, 4]), V, VEC(T(g.tk()), L(V))), T(g.tk()) if rng.random() < 0.5 else None)
        out.append(e)
    return out


# ---- the closure fragment of C01C (simulation theorem): core + fn*/closures/invocation ----
QC = "Verif.C01C.CLisp."


def in_c_fragment(e):
    k = e[0]
    if k in ("const", "local"):
        return True
    if k in ("if", "do"):
        return all(in_c_fragment(x) for x in e[1:])
    if k == "let":
        return in_c_fragment(e[2]) and in_c_fragment(e[3])
    if k == "prim":
        return e[1] in ("t", "vec", "conj", "inc", "lt") and all(in_c_fragment(a) for a in e[2])
    if k == "veclit":
        return all(in_c_fragment(a) for a in e[1])
    if k == "fn":
        return in_c_fragment(e[3])
    if k == "invoke":
        return in_c_fragment(e[1]) and all(in_c_fragment(a) for a in e[2])
    return False


def has_fn(e):
    if isinstance(e, (list, tuple)):
        if e and e[0] == "fn":
            return True
        return any(has_fn(x) for x in e)
    return False


def coq_cexpr(e):
    k = e[0]
    L_ = lambda es: G.lst([coq_cexpr(a) for a in es], QC + "cexpr")
    if k == "const":
        return f"({QC}CConst {coq_const(e[1])})"
    if k == "local":
        return f"({QC}CLocal {G.n(e[1])})"
    if k == "if":
        return f"({QC}CIf {coq_cexpr(e[1])} {coq_cexpr(e[2])} {coq_cexpr(e[3])})"
    if k == "do":
        return f"({QC}CDo {coq_cexpr(e[1])} {coq_cexpr(e[2])})"
    if k == "let":
        return f"({QC}CLet {G.n(e[1])} {coq_cexpr(e[2])} {coq_cexpr(e[3])})"
    if k == "prim":
        return f"({QC}CCall {coq_prim(e[1])} {L_(e[2])})"
    if k == "veclit":
        return f"({QC}CCall PVec {L_(e[1])})"
    if k == "fn":
        return f"({QC}CFn {G.opt(e[1], G.n, 'N')} {G.lst([G.n(p) for p in e[2]], 'N')} {coq_cexpr(e[3])})"
    if k == "invoke":
        return f"({QC}CInvoke {coq_cexpr(e[1])} {L_(e[2])})"
    raise ValueError(k)


def closure_programs(rng, n):
    """programs of the closure fragment: random typed programs that fit, plus closures that are
    returned, stored, passed to other functions and called several times"""
    out = []
    g = Gen(rng)
    tries = 0
    while len(out) < n and tries < 80 * n:
        tries += 1
        e = g.expr(rng.choice(["any", "int", "vec"]), rng.choice([2, 3, 3, 4]), [])
        if in_c_fragment(e) and has_fn(e):
            out.append(e)
    for _ in range(max(4, n // 3)):
        a, b, c = rng.sample([A_B, XQ, I, ACC, N_, V], 3)
        k1, k2, k3 = g.tk(), g.tk(), g.tk()
        shapes = [
            # a closure factory: each closure keeps its own argument
            LET(F, FN([a], FN([], VEC(L(a), T(k1)))), LET(E, INV(L(F), k2), LET(V, INV(L(F), k3), VEC(INV(L(E)), INV(L(V)), INV(L(E)))))),
            # a later binding of the same name does not reach the closure
            LET(a, k1, LET(F, FN([b], VEC(L(a), L(b))), LET(a, P("inc", L(a)), VEC(INV(L(F), L(a)), L(a))))),
            # functions as arguments and results
            INV(FN([F, a], INV(L(F), INV(L(F), L(a)))), FN([b], T(P("inc", L(b)))), k1),
            LET(F, FN([a], FN([b], FN([c], VEC(L(a), L(b), L(c))))), INV(INV(INV(L(F), T(k1)), T(k2)), T(k3))),
            # closures stored in a vector and called later, effects inside the bodies
            LET(a, T(k1), LET(V, VEC(FN([], T(L(a))), FN([b], VEC(L(a), T(L(b))))), IF(L(a), INV(FN([c], L(c)), L(a)), K(None)))),
            # a named fn* calling itself (recursion through its own name), with effects per call
            INV(FN([a, b], IF(P("lt", L(a), K(rng.randint(1, 3))), INV(L(F), P("inc", L(a)), P("conj", L(b), T(L(a)))), L(b)), name=F), K(0), VEC()),
            LET(c, k1, INV(FN([a], IF(P("lt", L(a), K(2)), VEC(L(c), INV(L(E), P("inc", L(a)))), T(L(a))), name=E), K(0))),
            # shadowing of a captured name by a parameter and by an inner let
            LET(a, k1, INV(FN([a], LET(a, P("inc", L(a)), INV(FN([], L(a))))), P("inc", L(a)))),
        ]
        out.append(rng.choice(shapes))
    return out


# ---- every compound form in every child slot of every parent, the parent in statement and in
# ---- expression position ("the result does not depend on where the form sits") -------------
def position_programs():
    out = []
    X = XQ                                   # a local bound to 15 by every context

    def value_children(k):
        return [
            ("if", IF(L(X), T(K(k)), T(K(k + 1)))),
            ("let", LET(V, T(K(k)), VEC(L(V), L(X)))),
            ("do", DO(T(K(k)), L(X))),
            ("try", TRY(T(K(k)), (1, E, K(0)), None)),
            ("loop", LOOP([(V, T(K(k)))], VEC(L(V)))),
            ("call", INV(FN([], T(K(k))))),
            ("pylist", PYL(T(K(k)), LET(V, T(K(k + 1)), L(V)), IF(L(X), T(K(k + 2)), K(0)))),
            ("pytuple", PYT(DO(T(K(k)), K(1)), T(K(k + 1)))),
        ]

    def fn_children(k):
        f1 = FN([A_B], VEC(K(k), L(A_B)))
        f2 = FN([A_B], VEC(K(k + 1), L(A_B)))
        return [
            ("if", IF(L(X), f1, f2)),
            ("let", LET(F, f1, L(F))),
            ("do", DO(T(K(k)), f1)),
            ("try", TRY(f1, None, T(K(k)))),
        ]

    parents = []
    for cn, ch in value_children(20):
        parents += [
            ("let-init/" + cn, LET(A_B, ch, T(L(A_B)))),
            ("loop-init/" + cn, LOOP([(I, ch)], T(L(I)))),
            ("invoke-arg/" + cn, INV(FN([N_], T(L(N_))), ch)),
            ("prim-arg/" + cn, T(ch)),
            ("if-test/" + cn, IF(ch, T(K(1)), T(K(2)))),
            ("throw-arg/" + cn, TRY(THROW(P("exc1", ch)), (1, E, T(K(5))), None)),
            ("vec-elem/" + cn, VEC(ch, T(K(6)))),
            ("pylist-elem/" + cn, PYL(T(K(4)), ch, T(K(6)))),
            ("if-branch/" + cn, IF(L(X), ch, T(K(7)))),
            ("recur-arg/" + cn, LOOP([(I, K(0)), (ACC, K(0))],
                                     IF(P("lt", L(I), K(1)), RECUR(P("inc", L(I)), ch), T(L(ACC))))),
            ("def-init/" + cn, DO(DEF(0, ch), T(GL(0)))),
            ("try-body/" + cn, TRY(ch, None, T(K(9)))),
            ("catch-body/" + cn, TRY(THROW(P("exc1", K(0))), (1, E, ch), None)),
        ]
    for cn, ch in fn_children(30):
        parents += [("invoke-callee/" + cn, INV(ch, K(7))),
                    ("invoke-callee-traced/" + cn, T(INV(ch, T(K(8)))))]
    contexts = [
        ("expr", lambda p: LET(X, K(15), VEC(p))),
        ("let-do-stmt", lambda p: LET(X, K(15), DO(p, K(3)))),
        ("fn-body-stmt", lambda p: INV(FN([X], DO(p, L(X))), K(15))),
        ("finally", lambda p: LET(X, K(15), TRY(K(1), None, p))),
        ("if-branch-stmt", lambda p: LET(X, K(15), DO(IF(L(X), p, K(4)), K(5)))),
    ]
    for pn, p in parents:
        for cxn, cx in contexts:
            out.append((f"position:{cxn}:{pn}", cx(p)))
    return out
