"""C08 implementation side: defines fns of a given arity signature by evaluating generated
Lisp, calls them in every shape (direct, Var, global call site, apply with an instrumented
lazy tail, partial) and reports which arity ran, what it bound and how much of the tail was
realized when the body started.  Also: recur re-binding and Python stack depth under recur."""
import re
import sys

from harness.vlib import bl

_S = {}
LIMIT = 200           # an "infinite" tail raises Diverged when realized beyond this


class Diverged(Exception):
    pass


def setup():
    ns = bl.fresh_ns("verif.c08x")
    _S["ns"] = ns
    _S["cnt"] = bl.ev("(def cnt (atom 0)) cnt", ns)
    _S["st"] = bl.ev("(def st (atom 0)) st", ns)
    _S["rv"] = bl.ev("(def rv (atom [])) rv", ns)
    mk = bl.ev(
        "(fn [exc limit]"
        "  (fn ltail [n]"
        "    (reset! cnt 0)"
        "    ((fn step [i]"
        "       (lazy-seq"
        "         (when (or (nil? n) (< i n))"
        "           (when (>= i limit) (throw (exc \"diverged\")))"
        "           (swap! cnt inc)"
        "           (cons i (step (inc i))))))"
        "     0)))", ns)
    _S["ltail"] = mk(Diverged, LIMIT)
    _S["deref"] = bl.core("deref")
    _S["reset!"] = bl.core("reset!")
    _S["fns"] = {}
    _S["rfns"] = {}
    _S["callers"] = {}
    _S["stack"] = {}
    from basilisp.lang import runtime
    _S["RuntimeException"] = runtime.RuntimeException


# ---- generated Lisp ----------------------------------------------------------------------
def _params(n):
    return " ".join(f"a{i}" for i in range(n))


def _fn_src(fx, vr):
    ars = []
    for n in fx:
        ars.append(f"([{_params(n)}] (let [c (deref cnt)] [{n} [{_params(n)}] nil c]))")
    if vr is not None:
        ars.append(f"([{_params(vr)} & r] (let [c (deref cnt)] "
                   f"[{100 + vr} [{_params(vr)}] (if (nil? r) nil (vec (take 10 r))) c]))")
    if len(ars) == 1:
        return "(fn " + ars[0][1:]
    return "(fn " + " ".join(ars) + ")"


def _sigkey(fx, vr):
    return ("s" + "_".join(map(str, fx)) + ("v" + str(vr) if vr is not None else ""))


def _get_fn(fx, vr):
    key = _sigkey(fx, vr)
    hit = _S["fns"].get(key)
    if hit is None:
        from basilisp.lang import runtime, symbol as sym
        bl.ev(f"(def {key} {_fn_src(fx, vr)})", _S["ns"])
        var = runtime.Var.find(sym.symbol(key, ns=_S["ns"].name))
        hit = (var.value, var, key)
        _S["fns"][key] = hit
    return hit


def _recur_fn_src(fx, vr):
    ars = []
    for n in fx:
        rec = " ".join(f"(nth (deref rv) {i})" for i in range(n))
        ars.append(f"([{_params(n)}] (if (= 1 (swap! st inc)) (recur {rec}) [{n} [{_params(n)}] nil]))")
    if vr is not None:
        rec = " ".join(f"(nth (deref rv) {i})" for i in range(vr + 1))
        ars.append(f"([{_params(vr)} & r] (if (= 1 (swap! st inc)) (recur {rec}) "
                   f"[{100 + vr} [{_params(vr)}] (if (nil? r) nil (vec (take 10 r)))]))")
    if len(ars) == 1:
        return "(fn " + ars[0][1:]
    return "(fn " + " ".join(ars) + ")"


def _get_rfn(fx, vr):
    key = _sigkey(fx, vr)
    hit = _S["rfns"].get(key)
    if hit is None:
        hit = bl.ev(_recur_fn_src(fx, vr), _S["ns"])
        _S["rfns"][key] = hit
    return hit


def _caller(kind, *a):
    key = (kind,) + a
    hit = _S["callers"].get(key)
    if hit is None:
        if kind == "direct":
            (n,) = a
            src = "(fn [f] (f " + " ".join(str(100 + i) for i in range(n)) + "))"
        elif kind == "global":
            name, n = a
            src = f"(fn [] ({name} " + " ".join(str(100 + i) for i in range(n)) + "))"
        elif kind == "apply":
            (k,) = a
            src = "(fn [f tail] (apply f " + " ".join(str(100 + i) for i in range(k)) + " tail))"
        elif kind == "partial":
            frm, cnt = a
            src = "(fn [f] (partial f " + " ".join(str(200 + frm + i) for i in range(cnt)) + "))"
        else:
            raise ValueError(kind)
        hit = bl.ev(src, _S["ns"])
        _S["callers"][key] = hit
    return hit


_ARITY_MSG = re.compile(r"(takes (from )?\d+( to \d+)? positional arguments? but \d+ (was|were) given"
                        r"|missing \d+ required positional arguments?)")


def _is_arity_error(e):
    if isinstance(e, _S["RuntimeException"]):
        return bool(e.args) and str(e.args[0]).startswith("Wrong number of args")
    if type(e) is TypeError:
        return bool(_ARITY_MSG.search(str(e)))
    return False


def _forced():
    return int(_S["deref"](_S["cnt"]))


def _build_callee(f, ps):
    frm = 0
    for p in ps:
        f = _caller("partial", frm, p)(f)
        frm += p
    return f


def _run_call(c):
    fx, vr, ps, how, sh = c["fx"], c["vr"], c["ps"], c["how"], c["sh"]
    fobj, var, name = _get_fn(fx, vr)
    target = var if how == 1 else fobj
    _S["reset!"](_S["cnt"], 0)
    try:
        if sh["t"] == "direct":
            n = sh["n"]
            if how == 2 and not ps:
                res = _caller("global", name, n)()
            else:
                res = _caller("direct", n)(_build_callee(target, ps))
        else:
            callee = _build_callee(var if sh["var"] else target, ps)
            tail = _S["ltail"](sh["tl"])
            res = _caller("apply", sh["k"])(callee, tail)
    except Diverged:
        return {"diverge": True}
    except Exception as e:
        if _is_arity_error(e):
            return {"arity_err": _forced(), "cls": type(e).__name__}
        return {"err": type(e).__name__, "msg": str(e)[:200]}
    code, params, rest, cnt = res
    return {"bound": [int(code), [int(x) for x in params],
                      None if rest is None else [int(x) for x in rest], int(cnt)]}


def _run_arities(c):
    fobj, var, name = _get_fn(c["fx"], c["vr"])
    f = _build_callee(fobj, c["ps"])
    from basilisp.lang import keyword as kw
    ints, rest = [], False
    for a in f.arities:
        if isinstance(a, kw.Keyword):
            if a.name != "rest":
                return {"err": "UnknownArityKeyword"}
            rest = True
        else:
            ints.append(int(a))
    return {"arities": sorted(set(ints)), "rest": rest}


def _mk_rval(v):
    from basilisp.lang import list as llist, vector as vec
    t = v[0]
    if t == "nil":
        return None
    if t == "a":
        return int(v[1])
    if t == "seq":
        return llist.l(*v[1])
    if t == "vec":
        return vec.v(*v[1])
    if t == "inf":
        return _S["ltail"](None)
    raise ValueError(t)


def _obs_rval(x, top=True):
    from basilisp.lang import vector as vec
    from basilisp.lang.interfaces import ISeq
    if x is None:
        return ["nil"]
    if isinstance(x, bool):
        return ["other", "bool"]
    if isinstance(x, int):
        return ["a", x]
    if not top:
        return ["other", type(x).__name__]
    if isinstance(x, ISeq):
        import itertools
        items = list(itertools.islice(iter(x), 13))
        if len(items) > 12:
            return ["inf"]
        if all(isinstance(i, int) and not isinstance(i, bool) for i in items):
            return ["seq", items]
        return ["other", "seq-of-non-int"]
    if isinstance(x, vec.PersistentVector):
        items = list(x)
        if all(isinstance(i, int) and not isinstance(i, bool) for i in items):
            return ["vec", items]
        return ["other", "vec-of-non-int"]
    return ["other", type(x).__name__]


def _run_recur(c):
    fx, vr, ar, vs = c["fx"], c["vr"], c["ar"], c["vs"]
    f = _get_rfn(fx, vr)
    from basilisp.lang import vector as vec
    try:
        vals = [_mk_rval(v) for v in vs]
        _S["reset!"](_S["rv"], vec.vector(vals))
        _S["reset!"](_S["st"], 0)
        nargs = ar if ar < 100 else (ar - 100) + 1     # enter the variadic arity with one surplus argument
        res = f(*[900 + i for i in range(nargs)])
    except Diverged:
        return {"diverge": True}
    except Exception as e:
        if _is_arity_error(e):
            return {"arity_err": 0, "cls": type(e).__name__}
        return {"err": type(e).__name__, "msg": str(e)[:200]}
    try:
        code, params, rest = res
        return {"rbound": [int(code), [_obs_rval(p) for p in params],
                           None if rest is None else [_obs_rval(p) for p in rest]]}
    except Diverged:
        return {"diverge": True}


# The loop bodies use Python operators (basilisp's generic `<`, `=`, `inc` cost ~20 us each) and a
# Python sampling function, so that 10^6 iterations fit into the per-case budget.
_STACK_SRC = {
    0: "(fn [lt add samp host n] (host) (loop [i 0] (if (lt i n) (do (samp i) (recur (add i 1))) i)))",
    1: "(fn [lt add samp host n] (host) (let [f (fn [i] (if (lt i n) (do (samp i) (recur (add i 1))) i))] (f 0)))",
    2: "(fn [lt add samp host n] (host) (let [f (fn ([] :zero) ([i] (if (lt i n) (do (samp i) (recur (add i 1))) i)))] (f 0)))",
    3: "(fn [lt add samp host n] (host) (let [f (fn [i & r] (if (lt i n) (do (samp i) (recur (add i 1) r)) i))] (f 0 7 8)))",
}


def _depth_of(f):
    n = 0
    while f is not None:
        n += 1
        f = f.f_back
    return n


def _run_stack(c):
    import operator
    kind, n = c["kind"], c["iters"]
    f = _S["stack"].get(kind)
    if f is None:
        f = bl.ev(_STACK_SRC[kind], _S["ns"])
        _S["stack"][kind] = f
    want = {0, n // 2, n - 1}
    st = {"d0": None, "seen": {}}

    def host():                      # called from the frame that contains the loop / calls the fn
        st["d0"] = _depth_of(sys._getframe(1))

    def samp(i):                     # called from the body
        if i in want:
            st["seen"][i] = _depth_of(sys._getframe(1)) - st["d0"]

    try:
        res = f(operator.lt, operator.add, samp, host, n)
    except RecursionError:
        return {"err": "RecursionError"}
    except Exception as e:
        return {"err": type(e).__name__, "msg": str(e)[:200]}
    if res != n:
        return {"err": "WrongIterationCount"}
    return {"depths": [st["seen"].get(i, -1) for i in (0, n // 2, n - 1)]}


def run(case):
    k = case["k"]
    if k == "call":
        return _run_call(case)
    if k == "arities":
        return _run_arities(case)
    if k == "recur":
        return _run_recur(case)
    if k == "stack":
        return _run_stack(case)
    return {"err": "BadCase"}
