"""C09 implementation side: compiles generated Lisp with the real basilisp of /repo.

Destructuring cases: the text of a let / fn call / loop is read, compiled and run in a scratch
namespace; observable = the vector of bound locals (canonical JSON) or the exception class;
on request (`mx`) the macroexpansion of the same form is compiled and run too.
Syntax-quote cases: "`" + template text is read in a prepared namespace; observables = the
form the reader returns (gensym numerals renamed in order of first occurrence, holes `(h i)`
marked), its value, the order in which the holes were evaluated; plus the template with the
elements of its set/map nodes put into the order in which the reader iterated them.
Hygiene cases: the symbol the reader produces for a template symbol is compiled in another
namespace under a `let` that binds the same unqualified name.
"""
import re

from harness.vlib import bl
from harness.props import c09_common as K

_S = {}


def _mods():
    from basilisp.lang import (compiler, keyword as kw, list as llist, map as lmap, reader, runtime,
                               set as lset, symbol as sym, vector as vec)
    from basilisp.lang.interfaces import ISeq
    return dict(compiler=compiler, kw=kw, llist=llist, lmap=lmap, reader=reader, runtime=runtime,
                lset=lset, sym=sym, vec=vec, ISeq=ISeq)


def _h(i):
    _S["log"].append(int(i))
    return _S["hvals"][int(i)]


def setup():
    M = _mods()
    _S.update(M)
    runtime, sym, kw = M["runtime"], M["sym"], M["kw"]
    core_ns = runtime.Namespace.get(sym.symbol(K.CORE))
    _S["core_ns"] = core_ns
    _S["nsvar"] = runtime.Var.find(sym.symbol("*ns*", ns=K.CORE))
    _S["macroexpand"] = bl.core("macroexpand")
    _S["log"], _S["hvals"] = [], []
    _S["var_of_value"] = {}

    def mk(name):
        ns = runtime.Namespace.get_or_create(sym.symbol(name))
        ns.refer_all(core_ns)
        return ns

    def intern(ns, name, value):
        v = runtime.Var.intern(ns, sym.symbol(name), value)
        return v

    lib = mk(K.LIB)
    for n in K.LIB_VARS:
        val = kw.keyword(n, ns=K.LIB)
        intern(lib, n, val)
        _S["var_of_value"][id(val)] = (K.LIB, n, val)
    for n in K.CORE_USED:
        val = bl.core(n)
        _S["var_of_value"][id(val)] = (K.CORE, n, val)
    nss = {}
    for cfg in K.CONFIGS:
        nss[cfg] = mk(cfg)
    for cfg, c in K.CONFIGS.items():
        ns = nss[cfg]
        for n in c["interns"]:
            if n == "h":
                intern(ns, "h", _h)
            else:
                val = kw.keyword(n, ns=cfg)
                intern(ns, n, val)
                _S["var_of_value"][id(val)] = (cfg, n, val)
        for n in c["refers"]:
            ns.add_refer(sym.symbol(n), runtime.Var.find(sym.symbol(n, ns=K.LIB)))
        for a, target in c["aliases"].items():
            tns = lib if target == K.LIB else nss[target]
            ns.add_alias(tns, sym.symbol(a))
    _S["nss"] = nss
    _S["dns"] = mk("c09.d")
    _S["local_kw"] = kw.keyword("local", ns="c09")


# ---- values --------------------------------------------------------------------------------
def build(v):
    kw, sym, vec, llist, lmap, lset = (_S[k] for k in ("kw", "sym", "vec", "llist", "lmap", "lset"))
    if v is None or isinstance(v, (bool, int)):
        return v
    if "s" in v:
        return v["s"]
    if "k" in v:
        return kw.keyword(v["k"][1], ns=v["k"][0])
    if "y" in v:
        return sym.symbol(v["y"][1], ns=v["y"][0])
    if "l" in v:
        return llist.list([build(e) for e in v["l"]])
    if "v" in v:
        return vec.vector([build(e) for e in v["v"]])
    if "set" in v:
        return lset.set([build(e) for e in v["set"]])
    if "m" in v:
        return lmap.map({build(k): build(x) for k, x in v["m"]})
    raise ValueError(v)


class Canon:
    """basilisp data -> canonical JSON; generated symbols prefix_N are renumbered."""

    def __init__(self, gens=()):
        self.gens = set(gens)
        self.num = {}
        self.rx = re.compile(r"^(.*)_(\d+)$")

    def sym(self, s, assign):
        if s.ns is None:
            m = self.rx.match(s.name)
            if m and m.group(1) in self.gens:
                key = (m.group(1), m.group(2))
                if key not in self.num:
                    if not assign:
                        return {"y": [None, s.name]}
                    self.num[key] = len(self.num)
                return {"g": [m.group(1), self.num[key]]}
        return {"y": [s.ns, s.name]}

    def go(self, x, assign=False, code=False):
        kw, sym, vec, lmap, lset, ISeq = (_S[k] for k in ("kw", "sym", "vec", "lmap", "lset", "ISeq"))
        if x is None or isinstance(x, bool):
            return x
        if isinstance(x, int):
            return x
        if isinstance(x, str):
            return {"s": x}
        if isinstance(x, kw.Keyword):
            return {"k": [x.ns, x.name]}
        if isinstance(x, sym.Symbol):
            return self.sym(x, assign)
        if isinstance(x, vec.PersistentVector):
            return {"v": [self.go(e, assign, code) for e in x]}
        if isinstance(x, lmap.PersistentMap):
            return {"m": [[self.go(k, assign, code), self.go(v, assign, code)] for k, v in x.items()]}
        if isinstance(x, lset.PersistentSet):
            return {"set": [self.go(e, assign, code) for e in x]}
        if isinstance(x, ISeq) or hasattr(x, "first") and hasattr(x, "rest"):
            items = list(x)
            if code and len(items) == 2 and isinstance(items[0], sym.Symbol) and items[0].ns is None \
                    and items[0].name == "h" and isinstance(items[1], int):
                return {"h": items[1]}
            return {"l": [self.go(e, assign, code) for e in items]}
        return {"other": type(x).__name__}


def err_of(e):
    from basilisp.lang.compiler.exception import CompilerException
    if isinstance(e, CompilerException):
        return {"err": "CompilerException"}
    return {"err": type(e).__name__}


def read_one(text, ns):
    reader, runtime = _S["reader"], _S["runtime"]
    with runtime.bindings({_S["nsvar"]: ns}):
        forms = list(reader.read_str(text, runtime.resolve_alias))
    assert len(forms) == 1, text
    return forms[0]


def run_form(form, ns):
    compiler, runtime = _S["compiler"], _S["runtime"]
    ctx = compiler.CompilerContext("<c09>")
    with runtime.bindings({_S["nsvar"]: ns}):
        return compiler.compile_and_exec_form(form, ctx, ns)


# ---- destructuring -------------------------------------------------------------------------
def run_destructure(case, text):
    ns = _S["dns"]
    canon = Canon()
    try:
        form = read_one(text, ns)
        val = run_form(form, ns)
        res = {"vals": canon.go(val)["v"]}
    except Exception as e:  # the class is the observable
        res = err_of(e)
    if case.get("mx"):
        try:
            form = read_one(text, ns)
            runtime = _S["runtime"]
            with runtime.bindings({_S["nsvar"]: ns}):
                expanded = _S["macroexpand"](form)
            val2 = run_form(expanded, ns)
            res2 = {"vals": Canon().go(val2)["v"]}
        except Exception as e:
            res2 = err_of(e)
        if res2 != res:
            return {"mxdiff": [res, res2]}
        res["mx"] = True
    return res


# ---- syntax quote --------------------------------------------------------------------------
def part_tokens(p):
    """Leaf tokens of a piece of emitted code (the counterpart of K.tmpl_tokens)."""
    if p is None or isinstance(p, (bool, int)) or (isinstance(p, dict) and ("s" in p or "k" in p)):
        return [("a", K.data_text(p))]
    if "h" in p:
        return [("h", p["h"])]
    if "l" in p:
        items = p["l"]
        head = items[0].get("y") if items and isinstance(items[0], dict) else None
        if head == [None, "quote"] and len(items) == 2:
            q = items[1]
            if "g" in q:
                return [("g", q["g"][0])]
            return [("y", q["y"][1])]
        if head == [K.CORE, "list"] and len(items) == 2:
            return part_tokens(items[1])
        if head == [K.CORE, "seq"]:
            return [("(",)] + sum((part_tokens(e) for e in items[1]["l"][1:]), []) + [(")",)]
        if head == [K.CORE, "apply"]:
            which = items[1]["y"][1]
            inner = [part_tokens(e) for e in items[2]["l"][1:]]
            if which == "vector":
                return [("[",)] + sum(inner, []) + [(")",)]
            opener = "#{" if which == "hash-set" else "{"
            return [(opener,)] + sorted(sum(inner, []), key=repr) + [(")",)]
    raise ValueError(f"unexpected code {p}")


def unwrap(p):
    """(list x) -> x for a non-splice element."""
    if isinstance(p, dict) and "l" in p and p["l"] and isinstance(p["l"][0], dict) \
            and p["l"][0].get("y") == [K.CORE, "list"] and len(p["l"]) == 2:
        return p["l"][1]
    return p


def align(t, code):
    """The template with set/map nodes reordered as the reader iterated them."""
    for key in ("l", "v", "set", "m"):
        if key in t:
            break
    else:
        return t
    if not (isinstance(code, dict) and "l" in code):
        raise ValueError("no collection code")
    items = code["l"]
    concat = items[1] if key == "l" else items[2]
    parts = concat["l"][1:]
    if key in ("l", "v"):
        elems = t[key]
        assert len(elems) == len(parts)
        return {key: [e if ("u" in e or "sp" in e) else align(e, unwrap(p)) for e, p in zip(elems, parts)]}
    if key == "set":
        elems = list(t["set"])
        out = []
        for p in parts:
            toks = part_tokens(p)
            hit = [e for e in elems if K.tmpl_tokens(e) == toks]
            if len(hit) != 1:
                raise ValueError("ambiguous set element")
            elems.remove(hit[0])
            e = hit[0]
            out.append(e if ("u" in e or "sp" in e) else align(e, unwrap(p)))
        assert not elems
        return {"set": out}
    pairs = list(t["m"])
    assert len(parts) == 2 * len(pairs)
    out = []
    for i in range(0, len(parts), 2):
        tk, tv = part_tokens(parts[i]), part_tokens(parts[i + 1])
        hit = [kv for kv in pairs if K.tmpl_tokens(kv[0]) == tk and K.tmpl_tokens(kv[1]) == tv]
        if len(hit) != 1:
            raise ValueError("ambiguous map entry")
        pairs.remove(hit[0])
        k, v = hit[0]
        out.append([k if ("u" in k or "sp" in k) else align(k, unwrap(parts[i])),
                    v if ("u" in v or "sp" in v) else align(v, unwrap(parts[i + 1]))])
    return {"m": out}


def run_sq(case):
    ns = _S["nss"][case["cfg"]]
    text = "`" + K.tmpl_text(case["t"])
    canon = Canon(K.tmpl_gens(case["t"]))
    try:
        form = read_one(text, ns)
    except Exception as e:
        return dict(err_of(e), t=case["t"])
    rd = canon.go(form, assign=True, code=True)
    t_ord = align(case["t"], rd)
    _S["hvals"] = [build(v) for v in case["sg"]]
    _S["log"] = []
    try:
        val = run_form(form, ns)
        return {"rd": rd, "val": canon.go(val), "tr": list(_S["log"]), "t": t_ord}
    except Exception as e:
        return {"rd": rd, "everr": err_of(e)["err"], "t": t_ord}


def run_use(case):
    sym = _S["sym"]
    ns = _S["nss"][case["cfg"]]
    use = _S["nss"][case["use"]]
    form = read_one("`" + K.sym_text(*case["sym"]), ns)
    items = list(form)
    if not (len(items) == 2 and isinstance(items[0], sym.Symbol) and items[0].name == "quote"):
        return {"err": "NotAQuote"}
    resolved = items[1]
    binds = " ".join(f"{n} :c09/local" for n in case["locals"])
    text = f"(let [{binds}] {K.sym_text(resolved.ns, resolved.name)})"
    try:
        val = run_form(read_one(text, use), use)
    except Exception as e:
        if err_of(e)["err"] == "CompilerException":
            return {"den": ["none"], "resolved": [resolved.ns, resolved.name]}
        return err_of(e)
    if val is _S["local_kw"] or val == _S["local_kw"]:
        return {"den": ["local", resolved.name], "resolved": [resolved.ns, resolved.name]}
    hit = _S["var_of_value"].get(id(val))
    if hit is None:
        for (vns, vn, v) in _S["var_of_value"].values():
            if v is val or (not callable(v) and v == val):
                hit = (vns, vn, v)
                break
    if hit is None:
        return {"err": "UnknownValue"}
    return {"den": ["var", hit[0], hit[1]], "resolved": [resolved.ns, resolved.name]}


def run(case):
    k = case["k"]
    if k == "let":
        return run_destructure(case, K.let_text(case))
    if k == "fn":
        return run_destructure(case, K.fn_text(case))
    if k == "loop":
        return run_destructure(case, K.loop_text(case))
    if k == "sq":
        return run_sq(case)
    if k == "use":
        return run_use(case)
    return {"err": "BadCase"}
