"""C18 implementation side: one MultiFunction over a private hierarchy atom, driven by a history.

Tags on the wire: ["K", n] keyword (n = 0 is the un-namespaced :default, n >= 1 is
:c18s<salt>/k<n>), ["C", n] class (0 object, 1 A, 2 B(A), 3 D), ["V", [tags]] vector.
The salt only renames the keywords so that the hash order of the method table differs
between otherwise equal cases.
"""
from harness.vlib import bl

_f = {}


class A:
    pass


class B(A):
    pass


class D:
    pass


CLASSES = [object, A, B, D]


def setup():
    for n in ("atom", "swap!", "make-hierarchy", "derive", "underive", "isa?", "parents",
              "ancestors", "descendants", "prefer-method", "remove-method",
              "remove-all-methods", "identity", "get-method", "methods"):
        _f[n] = bl.core(n)
    from basilisp.lang import multifn, runtime, exception
    _f["MultiFunction"] = multifn.MultiFunction
    _f["RuntimeException"] = runtime.RuntimeException
    _f["ExceptionInfo"] = exception.ExceptionInfo


def to_tag(t, salt):
    from basilisp.lang import keyword as kw, vector as vec
    kind, v = t
    if kind == "K":
        return kw.keyword("default") if v == 0 else kw.keyword(f"k{v}", ns=f"c18s{salt}")
    if kind == "C":
        return CLASSES[v]
    return vec.vector([to_tag(e, salt) for e in v])


def from_tag(x):
    from basilisp.lang import keyword as kw, vector as vec
    if isinstance(x, kw.Keyword):
        if x.ns is None and x.name == "default":
            return ["K", 0]
        if x.name.startswith("k") and x.name[1:].isdigit():
            return ["K", int(x.name[1:])]
        return ["K", 999]
    if isinstance(x, type):
        return ["C", CLASSES.index(x) if x in CLASSES else 99]
    if isinstance(x, vec.PersistentVector):
        return ["V", [from_tag(e) for e in x]]
    return ["K", 998]


def _call(mf, k):
    try:
        r = mf(k)
        return r if isinstance(r, int) and not isinstance(r, bool) else "E:BadReturn"
    except _f["RuntimeException"]:
        return "A"
    except NotImplementedError:
        return "N"
    except Exception as e:  # any other class is observable as such
        return "E:" + type(e).__name__


def _body(m):
    def method(_v):
        return m
    return method


def _set(x):
    return [] if x is None else [from_tag(e) for e in x]


def run(case):
    from basilisp.lang import symbol as sym
    salt = case.get("salt", 0)
    T = lambda t: to_tag(t, salt)
    h = _f["atom"](_f["make-hierarchy"]())
    mf = _f["MultiFunction"](sym.symbol("c18-mf"), _f["identity"], T(case["d"]), h)
    univ = [T(t) for t in case["univ"]]
    steps = []
    for op in case["ops"]:
        name = op[0]
        try:
            if name == "add":
                mf.add_method(T(op[1]), _body(op[2]))      # what (defmethod mf k [_] m) expands to
                sr = "ok"
            elif name == "remove":
                _f["remove-method"](mf, T(op[1]))
                sr = "ok"
            elif name == "removeall":
                _f["remove-all-methods"](mf)
                sr = "ok"
            elif name == "prefer":
                try:
                    _f["prefer-method"](mf, T(op[1]), T(op[2]))
                    sr = "ok"
                except _f["RuntimeException"]:
                    sr = "err"
            elif name in ("derive", "underive"):
                try:
                    _f["swap!"](h, _f[name], T(op[1]), T(op[2]))
                    sr = "ok"
                except _f["ExceptionInfo"]:
                    sr = "err"
            elif name == "call":
                sr = ["res", _call(mf, T(op[1]))]
            else:
                return {"__error__": "BadCase"}
        except Exception as e:
            sr = "bad:" + type(e).__name__
        probes = [_call(mf, k) for k in univ] if case["every"] else []
        steps.append([sr, probes])
    final = [_call(mf, k) for k in univ]
    hv = h.deref()
    isa = [bool(_f["isa?"](hv, T(a), T(b))) for a, b in case["qs"]]
    par, anc, desc = [], [], []
    for t in case["tags"]:
        x = T(t)
        par.append(_set(_f["parents"](hv, x)))
        anc.append(_set(_f["ancestors"](hv, x)))
        try:
            desc.append(_set(_f["descendants"](hv, x)))
        except TypeError:
            desc.append(None)
    return {"steps": steps, "final": final, "isa": isa, "par": par, "anc": anc, "desc": desc,
            "order": [from_tag(k) for k in _f["methods"](mf).keys()]}
