"""C11 -- Dynamic bindings are scoped, thread-local and conveyed to futures."""
import itertools

from harness.vlib import gallina as G

ID = "C11"
TITLE = "Dynamic bindings are scoped, thread-local and conveyed to futures"
CORR = "Verif.C11.Corr"
CORR_TARGETS = ["theories/C11/Corr.vo"]
TARGETS = ["theories/Properties/C11.vo"]
PROPERTIES_FILE = "theories/Properties/C11.v"
IMPL = "harness.props.c11_impl"
TABLE_DEPS = ["push_thread_bindings_shape", "pop_thread_bindings_shape", "var_bindings_shape",
              "binding_forms_shape"]
SHARD = 250
NWORKERS = 3
HARD_TIMEOUT = 60
RULE = ("Well-nested histories over Vars 0-2 (dynamic), 3 (not dynamic), 4 (dynamic, validator) run on "
        "1-3 fresh Python threads with the interleaving of steps given by the case; ops: enter a binding "
        "form (mode 0: runtime.push_thread_bindings on a mapping with the prescribed iteration order + "
        "try/finally pop, 1: compiled `binding` macro, 2: `with-bindings*`, 3: Python `with runtime.bindings(..)`), leave normally / by exception, "
        "compiled set!, noop, spawn work (future on a pool thread, bound-fn* on a new thread, bound-fn* in "
        "the same thread, plain thread) that reports the Vars at its start and after each of its own ops. "
        "Observable after every step: result code of the step, the work's reports, and the value of all "
        "five Vars in every history thread.  Families: (A) every failing map = every subset of the dynamic "
        "Vars + non-dynamic Var / rejected value / both, failing element at every position of every "
        "iteration order (mode 0), and through the macro forms, at depth 0, 1, 2; (B) random single-thread "
        "histories to depth 4; (C) 2-3 threads: all interleavings of fixed short histories + random ones; "
        "(D) conveyance at every depth 0-4. Non-trivial = some form is entered; distinct = distinct JSON.")
TRUSTED = ["threading.local gives every Python thread its own _VarBindings.bindings / _ThreadBindings._bindings "
           "(modelled: threads = indexed family of states; exercised by the multi-thread cases)",
           "the iteration order of a persistent map is arbitrary but each key occurs once (modelled: the "
           "binding map is any list with distinct keys)",
           "concurrent.futures.ThreadPoolExecutor runs the submitted callable once on a pool thread and "
           "Future.result returns its value",
           "compiler: (set! v x) expands to `if not v.is_thread_bound: raise RuntimeException` + v.set_value(x) "
           "(exercised: set! always goes through compiled code)"]
ASSUMPTIONS = ["validators, ^:dynamic flags and roots do not change during a history",
               "Var.set_value / push_bindings / pop_bindings are not called directly by user code "
               "(only through binding forms and compiled set!)",
               "the single worker of the per-case executor pool is the model's thread 10; new Python "
               "threads are threads 20+step index"]
FINDINGS = {}
EXHAUSTIVE = {"quick": False, "thorough": False}

DYN = [0, 1, 2]
ND, VV = 3, 4
BAD = 5000


def fails(pairs):
    return any(v == ND or (v == VV and x >= 1000) for v, x in pairs)


class Gen:
    """Builds one schedule while tracking, per thread, the open forms (for well-nestedness)."""

    def __init__(self, n):
        self.n = n
        self.s = []
        self.depth = [0] * n
        self.ctr = 0

    def val(self):
        self.ctr += 1
        return self.ctr

    def enter(self, t, vs, mode=0, bad=False):
        pairs = [[v, (BAD + self.val() if (v == VV and bad) else self.val())] for v in vs]
        self.s.append([t, ["enter", mode, pairs]])
        if not fails(pairs):
            self.depth[t] += 1
        return pairs

    def leave(self, t, exc=False):
        assert self.depth[t] > 0
        self.depth[t] -= 1
        self.s.append([t, ["leave", bool(exc)]])

    def set(self, t, v, bad=False):
        self.s.append([t, ["set", v, BAD + self.val() if bad else self.val()]])

    def noop(self, t):
        self.s.append([t, ["noop"]])

    def spawn(self, t, kind, work):
        w = 10 if kind == 0 else (t if kind == 2 else 20 + len(self.s))
        self.s.append([t, ["spawn", kind, w, work]])

    def close(self, t, rng=None):
        while self.depth[t] > 0:
            self.leave(t, exc=bool(rng and rng.random() < 0.4))

    def case(self):
        return {"n": self.n, "s": self.s}


def work_hist(rng, g, maxlen=4):
    """A small well-nested history without spawn, for conveyed work."""
    ops, depth = [], 0
    for _ in range(rng.randint(0, maxlen)):
        r = rng.random()
        if r < 0.4:
            ops.append(["set", rng.choice([0, 1, 2, 2, VV, ND]), (BAD if rng.random() < 0.15 else 0) + g.val()])
        elif r < 0.7 and depth < 2:
            vs = rng.sample([0, 1, 2, VV], rng.randint(1, 2))
            if rng.random() < 0.2:
                vs.insert(rng.randint(0, len(vs)), ND)
            pairs = [[v, g.val()] for v in vs]
            ops.append(["enter", rng.choice([0, 1, 2, 3]), pairs])
            if not fails(pairs):
                depth += 1
        elif depth > 0:
            ops.append(["leave", rng.random() < 0.4])
            depth -= 1
        else:
            ops.append(["noop"])
    while depth > 0:
        ops.append(["leave", rng.random() < 0.4])
        depth -= 1
    return ops


def prefix(g, t, d):
    """open d forms in thread t: *a*; then *b* *v*; then *a* *c*"""
    forms = [[0], [1, VV], [0, 2], [1]]
    for i in range(d):
        g.enter(t, forms[i], mode=i % 3)


def family_a(tier, rng):
    """every failing map, every position of the failing element, every iteration order"""
    for d in (0, 1, 2):
        for k in range(0, 4):
            for sub in itertools.combinations(DYN, k):
                for failing in ([ND], [VV], [ND, VV]):
                    elems = list(sub) + failing
                    perms = list(itertools.permutations(elems))
                    if tier == "quick" and len(perms) > 8:
                        perms = rng.sample(perms, 8)
                    for p in perms:
                        g = Gen(1)
                        prefix(g, 0, d)
                        g.enter(0, list(p), mode=0, bad=True)
                        g.noop(0)
                        g.enter(0, [0, 1], mode=1)
                        g.set(0, 1)
                        g.leave(0, exc=True)
                        g.close(0)
                        yield g.case()
                    if len(failing) == 1:      # through the real macro / with-bindings* (hash order)
                        for mode in (1, 2, 3):
                            g = Gen(1)
                            prefix(g, 0, d)
                            g.enter(0, elems, mode=mode, bad=True)
                            g.noop(0)
                            g.spawn(0, 0, [["noop"]])
                            g.close(0)
                            yield g.case()


def random_step(rng, g, t, maxdepth=4, spawn=True):
    r = rng.random()
    d = g.depth[t]
    if r < 0.30 and d < maxdepth:
        k = rng.randint(1, 3)
        vs = rng.sample([0, 1, 2, VV], k)
        mode = rng.choice([0, 0, 1, 2, 3])
        bad = False
        f = rng.random()
        if f < 0.15:
            vs.insert(rng.randint(0, len(vs)), ND)
        elif f < 0.30 and VV in vs:
            bad = True
        elif f < 0.35 and mode == 0 and VV in vs:
            vs.insert(rng.randint(0, len(vs)), ND)
            bad = True
        g.enter(t, vs, mode=mode, bad=bad)
    elif r < 0.50 and d > 0:
        g.leave(t, exc=rng.random() < 0.4)
    elif r < 0.75:
        v = rng.choice([0, 1, 2, 0, 1, 2, VV, VV, ND])
        g.set(t, v, bad=(v == VV and rng.random() < 0.3))
    elif r < 0.90 and spawn:
        g.spawn(t, rng.choice([0, 0, 1, 2, 2, 3]), work_hist(rng, g))
    else:
        g.noop(t)


def family_b(tier, rng):
    for _ in range(320 if tier == "quick" else 2500):
        g = Gen(1)
        for _ in range(rng.randint(4, 16)):
            random_step(rng, g, 0)
        if rng.random() < 0.7:
            g.close(0, rng)
            g.noop(0)
        yield g.case()


def interleavings(lens):
    """all merges of sequences of the given lengths, as lists of thread indices"""
    if all(l == 0 for l in lens):
        yield []
        return
    for i, l in enumerate(lens):
        if l:
            rest = list(lens)
            rest[i] -= 1
            for tail in interleavings(rest):
                yield [i] + tail


def family_c(tier, rng):
    # fixed short histories, every interleaving
    hists = [
        [("enter", [0, 1], 1, False), ("set", 0), ("leave", True)],
        [("enter", [0], 0, False), ("enter", [1, ND], 0, False), ("leave", False)],
        [("enter", [2, VV], 2, True), ("enter", [0, VV], 1, False), ("leave", False)],
        [("enter", [1], 3, False), ("spawn", 0), ("leave", True)],
    ]
    pairs = [(0, 1), (0, 2), (1, 3), (2, 3), (0, 0), (1, 1)]
    for a, b in pairs:
        for order in interleavings([len(hists[a]), len(hists[b])]):
            yield build_fixed([hists[a], hists[b]], order)
    trip = list(interleavings([2, 2, 2]))
    if tier == "quick":
        trip = rng.sample(trip, 30)
    for order in trip:
        yield build_fixed([hists[0][:2], hists[1][:2], hists[3][:2]], order)
    # random histories, random interleavings
    for _ in range(200 if tier == "quick" else 1500):
        n = rng.choice([2, 2, 3])
        g = Gen(n)
        for _ in range(rng.randint(5, 18)):
            random_step(rng, g, rng.randrange(n), maxdepth=3)
        for t in range(n):
            if rng.random() < 0.6:
                g.close(t, rng)
        yield g.case()


def build_fixed(hs, order):
    g = Gen(len(hs))
    pos = [0] * len(hs)
    for t in order:
        op = hs[t][pos[t]]
        pos[t] += 1
        if op[0] == "enter":
            g.enter(t, op[1], mode=op[2], bad=op[3])
        elif op[0] == "set":
            g.set(t, op[1])
        elif op[0] == "leave":
            if g.depth[t] > 0:
                g.leave(t, exc=op[1])
            else:
                g.noop(t)
        elif op[0] == "spawn":
            g.spawn(t, op[1], [["set", 1, g.val()], ["noop"]])
    return g.case()


def family_d(tier, rng):
    """conveyance at every depth, every kind; set! inside conveyed work never escapes"""
    for d in range(0, 5):
        for kind in (0, 1, 2, 3):
            for work in ([["noop"]], [["set", 0, 901], ["set", 2, 902]],
                         [["enter", 1, [[0, 903], [2, 904]]], ["set", 0, 905], ["leave", True], ["set", 1, 906]],
                         [["enter", 0, [[1, 907], [ND, 908]]], ["set", VV, 6000], ["set", VV, 909]]):
                g = Gen(2)
                forms = [[0], [1, VV], [0, 2], [1]]
                for i in range(d):
                    g.enter(0, forms[i], mode=(i + kind) % 3)
                    if i == 1:
                        g.set(0, 0)
                g.enter(1, [2], mode=1)
                g.spawn(0, kind, work)
                g.spawn(1, kind, [["noop"]])
                g.close(0)
                g.spawn(0, kind, [["noop"]])
                yield g.case()


def cases(tier, rng):
    yield {"n": 1, "s": [[0, ["enter", 0, [[0, 1], [ND, 2]]]], [0, ["noop"]]]}      # F-11 witness
    yield {"n": 1, "s": [[0, ["enter", 0, [[0, 1], [1, 2], [VV, 5000]]]], [0, ["noop"]]]}
    yield from family_a(tier, rng)
    yield from family_d(tier, rng)
    yield from family_b(tier, rng)
    yield from family_c(tier, rng)


# ---- Gallina ---------------------------------------------------------------------------
def coq_pairs(pairs):
    return G.lst([f"({G.n(v)}, {G.z(x)})" for v, x in pairs], "(var * val)")


def coq_wop(op):
    k = op[0]
    if k == "enter":
        return f"(WEnter {coq_pairs(op[2])})"
    if k == "leave":
        return f"(WLeave {G.b(op[1])})"
    if k == "set":
        return f"(WSet {G.n(op[1])} {G.z(op[2])})"
    if k == "noop":
        return "WNoop"
    raise ValueError(op)


def coq_gop(op):
    if op[0] == "spawn":
        return f"(GSpawn {G.b(op[1] != 3)} {G.n(op[2])} {G.lst([coq_wop(o) for o in op[3]], 'wop')})"
    return f"(GLocal {coq_wop(op)})"


def coq_case(c):
    return f"(CCase {G.n(c['n'])} {G.lst([f'({G.n(t)}, {coq_gop(op)})' for t, op in c['s']], '(N * gop)')})"


def _vals(vs):
    return G.lst([G.z(int(v)) for v in vs], "Z")


def coq_out(o):
    if o.get("__timeout__") or o.get("__hang__"):
        return "(OErr 3%N)"
    if "steps" not in o:
        return "(OErr 2%N)"
    try:
        items = []
        for s in o["steps"]:
            work = G.lst([f"({G.n(c)}, {_vals(vs)})" for c, vs in s["w"]], "(N * list Z)")
            view = G.lst([_vals(v) for v in s["v"]], "(list Z)")
            items.append(f"(mkSO {G.n(s['c'])} {work} {view})")
        return f"(OSteps {G.lst(items, 'stepout')})"
    except Exception:
        return "(OErr 2%N)"


def nontrivial(c, o):
    return any(op[0] == "enter" for _, op in c["s"])


def describe(c):
    kinds = sorted({op[0] for _, op in c["s"]})
    return f"{c['n']} thread(s), {len(c['s'])} steps, ops {kinds}"


def shrink(c):
    """drop one non-nesting step, or one established form (its enter and matching leave)"""
    s = c["s"]
    for i, (t, op) in enumerate(s):
        if op[0] in ("set", "noop", "spawn") or (op[0] == "enter" and fails(op[2])):
            yield {"n": c["n"], "s": s[:i] + s[i + 1:]}
        elif op[0] == "enter":
            depth, j = 0, None
            for k in range(i + 1, len(s)):
                if s[k][0] != t:
                    continue
                o2 = s[k][1]
                if o2[0] == "enter" and not fails(o2[2]):
                    depth += 1
                elif o2[0] == "leave":
                    if depth == 0:
                        j = k
                        break
                    depth -= 1
            if j is not None:
                yield {"n": c["n"], "s": s[:i] + s[i + 1:j] + s[j + 1:]}
            else:
                yield {"n": c["n"], "s": s[:i] + s[i + 1:]}
    for i, (t, op) in enumerate(s):
        if op[0] == "spawn" and op[3]:
            yield {"n": c["n"], "s": s[:i] + [[t, ["spawn", op[1], op[2], []]]] + s[i + 1:]}
        if op[0] == "enter" and len(op[2]) > 1 and fails(op[2]):
            for k in range(len(op[2])):
                p2 = op[2][:k] + op[2][k + 1:]
                if fails(p2):
                    yield {"n": c["n"], "s": s[:i] + [[t, ["enter", op[1], p2]]] + s[i + 1:]}


def extra_evidence(cases_, outs):
    dist = {"threads": {}, "ops": {}, "failed_enters": 0, "max_depth": 0, "steps": 0, "modes": {}, "spawn_kinds": {}}
    for c in cases_:
        dist["threads"][str(c["n"])] = dist["threads"].get(str(c["n"]), 0) + 1
        depth = {}
        for t, op in c["s"]:
            dist["steps"] += 1
            dist["ops"][op[0]] = dist["ops"].get(op[0], 0) + 1
            if op[0] == "enter":
                dist["modes"][str(op[1])] = dist["modes"].get(str(op[1]), 0) + 1
                if fails(op[2]):
                    dist["failed_enters"] += 1
                else:
                    depth[t] = depth.get(t, 0) + 1
                    dist["max_depth"] = max(dist["max_depth"], depth[t])
            elif op[0] == "leave":
                depth[t] = depth.get(t, 0) - 1
            elif op[0] == "spawn":
                dist["spawn_kinds"][str(op[1])] = dist["spawn_kinds"].get(str(op[1]), 0) + 1
    return {"input_distribution": dist}
