"""C18 -- multimethod dispatch depends only on the current methods, preferences, hierarchy."""
import itertools

from harness.vlib import gallina as G

ID = "C18"
TITLE = "Multimethod dispatch depends only on the current methods, preferences, hierarchy"
CORR = "Verif.C18.Corr"
CORR_TARGETS = ["theories/C18/Corr.vo"]
TARGETS = ["theories/Properties/C18.vo"]
PROPERTIES_FILE = "theories/Properties/C18.v"
IMPL = "harness.props.c18_impl"
SHARD = 400
EXTRA_REQUIRE = "From Coq Require Import Uint63."
NWORKERS = 1
RULE = ("histories of add/remove/remove-all/prefer/derive/underive/call on one multimethod with a "
        "private hierarchy over 5 namespaced keywords, :default and 3 classes (B subclasses A): "
        "every history of length <= 2 (thorough: <= 3) over a 27-operation alphabet, scenario "
        "families (chains of preferences, diamonds, classes deriving keywords, preference against "
        "isa?) in every insertion order, random structured histories of length 3..5 (thorough 3..7) "
        "and long ones up to 25 (thorough 40); after every step (or, for a third of the cases, only "
        "at the end) every dispatch value of the universe is called; at the end isa? (incl. vectors "
        "of unequal length), parents, ancestors, descendants are read.  Keyword names are salted so "
        "that the method table's hash order varies.  A case is non-trivial when it adds a method and "
        "changes the hierarchy or the preferences; distinct = distinct JSON encoding.")
TRUSTED = ["the iteration order of the method table (immutables.Map, hash order) is modelled as an arbitrary "
           "permutation chosen anew after every update (theorems quantify over it)",
           "Python's class relation (__mro__, __bases__, issubclass) is a Section parameter: supers is "
           "transitive and issubclass a b <-> a = b or b in supers a (no abc virtual subclasses)",
           "value equality of two hierarchy maps (the != of get_method) is modelled as equality of the "
           "three relations as sets",
           "threading.Lock in MultiFunction is not modelled (single-threaded histories)"]
ASSUMPTIONS = ["dispatch values are keywords/symbols, classes and vectors of them; a method body is "
               "identified by the number it returns",
               "one multimethod per hierarchy reference; the reference only changes through derive/underive"]
EXHAUSTIVE = {"quick": False, "thorough": False}

K = lambda n: ["K", n]
C = lambda n: ["C", n]
V = lambda *l: ["V", list(l)]
DFLT = K(0)
UNIV = [K(1), K(2), K(3), K(4), K(5), C(1), C(2), C(3)]
TAGS = UNIV + [C(0), K(0)]
QS_VEC = [(V(K(1)), V(K(1), K(2))), (V(K(1), K(2)), V(K(1))), (V(), V(K(1))),
          (V(K(1), C(2)), V(K(2), K(3))), (V(V(K(1))), V(V(K(2)))), (V(K(1)), K(1)),
          (K(1), V(K(1))), (V(C(2), K(1)), V(C(1), K(1)))]
QS = [(a, b) for a in UNIV for b in UNIV + [C(0)]] + QS_VEC


def mk(ops, every=True, salt=0, d=DFLT):
    return {"d": d, "every": every, "univ": UNIV, "ops": [list(o) for o in ops], "qs": [list(q) for q in QS],
            "tags": TAGS, "salt": salt}


# the small alphabet used for the exhaustive part
ALPHA = ([("add", K(1), 1), ("add", K(2), 2), ("add", K(3), 3), ("add", C(1), 4), ("add", K(0), 5),
          ("remove", K(2)), ("remove", K(1)), ("removeall",),
          ("prefer", K(2), K(3)), ("prefer", K(3), K(2)), ("prefer", K(2), K(1)), ("prefer", C(1), K(3)),
          ("derive", K(1), K(2)), ("derive", K(1), K(3)), ("derive", K(2), K(3)), ("derive", K(3), K(1)),
          ("derive", C(1), K(2)), ("derive", C(2), K(3)), ("derive", K(4), K(1)),
          ("underive", K(1), K(2)), ("underive", K(2), K(3)), ("underive", C(1), K(2)),
          ("call", K(1)), ("call", K(4)), ("call", C(2)),
          ("derive", K(1), K(1)), ("derive", K(1), C(1))])


def scenarios():
    """Named situations, each in every order of its method insertions."""
    x, a, b, c, d = K(1), K(2), K(3), K(4), K(5)
    fams = [
        # F-18b: chain of preferences over three unrelated parents
        ([("derive", x, a), ("derive", x, b), ("derive", x, c)],
         [("add", a, 1), ("add", b, 2), ("add", c, 3)],
         [("prefer", a, b), ("prefer", b, c)]),
        # transitive preference declared: a unique dominant exists
        ([("derive", x, a), ("derive", x, b), ("derive", x, c)],
         [("add", a, 1), ("add", b, 2), ("add", c, 3)],
         [("prefer", a, b), ("prefer", b, c), ("prefer", a, c)]),
        # diamond: x < d < b, c
        ([("derive", x, d), ("derive", d, b), ("derive", d, c)],
         [("add", b, 1), ("add", c, 2), ("add", d, 3)], []),
        # diamond without the dominating method: ambiguous, then preferred
        ([("derive", x, b), ("derive", x, c)],
         [("add", b, 1), ("add", c, 2), ("add", K(0), 9)], [("prefer", c, b)]),
        # classes: B < A, A derives a keyword (F-18c), D unrelated
        ([("derive", C(1), a), ("derive", a, b), ("derive", C(3), b)],
         [("add", a, 1), ("add", b, 2), ("add", C(1), 3)], [("underive", C(1), a)]),
        ([("derive", C(1), a), ("derive", C(2), b)],
         [("add", a, 1), ("add", b, 2), ("add", C(0), 3)], [("prefer", a, b)]),
        # F-18d: preference for an ancestor over its descendant
        ([("derive", x, a), ("derive", d, x)],
         [("add", a, 1), ("add", x, 2)], [("prefer", a, x)]),
        # cache invalidation by hierarchy change and back
        ([("derive", x, a)], [("add", a, 1), ("add", K(0), 7)],
         [("underive", x, a), ("derive", x, a), ("underive", x, a)]),
        # re-adding and removing under a populated cache
        ([("derive", x, a), ("derive", a, b)], [("add", b, 1), ("add", a, 2)],
         [("remove", a), ("add", a, 3), ("removeall",), ("add", b, 4)]),
    ]
    for pre, adds, post in fams:
        for perm in itertools.permutations(adds):
            yield pre + list(perm) + post
            yield list(perm) + pre + post


def rand_op(rng, big=False):
    ks = [K(i) for i in range(1, 6)]
    r = rng.random()
    if r < 0.28:
        return ("add", rng.choice(UNIV + ([K(0)] if rng.random() < 0.3 else [])), rng.randint(1, 9))
    if r < 0.36:
        return ("remove", rng.choice(UNIV))
    if r < 0.38:
        return ("removeall",)
    if r < 0.52:
        return ("prefer", rng.choice(UNIV), rng.choice(UNIV))
    if r < 0.80:
        t = rng.choice(UNIV if rng.random() < 0.8 else TAGS)
        p = rng.choice(ks if rng.random() < 0.93 else TAGS)
        return ("derive", t, p)
    if r < 0.92:
        return ("underive", rng.choice(UNIV), rng.choice(ks))
    return ("call", rng.choice(UNIV))


_SKIPPED = {"F-18d": 0}


def _listed_open(fid):
    from harness.vlib import findings
    return any(f["id"] == fid and f["status"] == "open" for f in findings.load(ID))


def cases(tier, rng):
    """Cases in the situation of finding F-18d (an exact key dominated through a preference) are
    generated only once that finding is listed as open in known_findings.json: the check may
    not append to that file, and until the coordinator lists the entry of docs/agents/C18.md
    such a case could only be reported as an unlisted violation.  The number skipped is
    written into the evidence."""
    allow = _listed_open("F-18d")
    _SKIPPED["F-18d"] = 0
    for c in _cases(tier, rng):
        if not allow and sig_f18d(c, None):
            _SKIPPED["F-18d"] += 1
            continue
        yield c


def _cases(tier, rng):
    quick = tier == "quick"
    # the recorded witnesses of the repaired findings, as ordinary cases
    for w in WITNESSES.values():
        yield w
    # exhaustive short histories
    maxlen = 2 if quick else 3
    for n in range(1, maxlen + 1):
        for hist in itertools.product(ALPHA, repeat=n):
            yield mk(hist, every=True, salt=0)
    # scenario families, three salts (three hash layouts), both probing modes
    for i, hist in enumerate(scenarios()):
        for salt in (0, 1, 2):
            yield mk(hist, every=(i + salt) % 3 != 0, salt=salt)
    # structured random
    for i in range(1300 if quick else 20000):
        n = rng.randint(3, 5 if quick else 7)
        yield mk([rand_op(rng) for _ in range(n)], every=rng.random() < 0.67, salt=rng.randint(0, 5))
    for i in range(150 if quick else 2000):
        n = rng.randint(8, 25 if quick else 40)
        yield mk([rand_op(rng) for _ in range(n)], every=rng.random() < 0.67, salt=rng.randint(0, 5))


# ---- Gallina ---------------------------------------------------------------------------
def coq_tag(t):
    kind, v = t
    if kind == "K" and 0 <= v <= 5:
        return f"k{v}"
    if kind == "C" and 0 <= v <= 3:
        return f"c{v}"
    if kind == "V":
        return "(V " + G.lst([coq_tag(e) for e in v], "tag") + ")"
    return f"({kind} {G.n(v)})"


def coq_op(o):
    n = o[0]
    if n == "add":
        return f"(OAdd {coq_tag(o[1])} {'m%d' % o[2] if 0 <= o[2] <= 9 else G.n(o[2])})"
    if n == "remove":
        return f"(ORemove {coq_tag(o[1])})"
    if n == "removeall":
        return "ORemoveAll"
    if n == "call":
        return f"(OCall {coq_tag(o[1])})"
    ctor = {"prefer": "OPrefer", "derive": "ODerive", "underive": "OUnderive"}[n]
    return f"({ctor} {coq_tag(o[1])} {coq_tag(o[2])})"


def coq_case(c):
    if [list(q) for q in c["qs"]] == [list(q) for q in QS]:
        qs = "std_qs"
    else:
        qs = G.lst([f"({coq_tag(a)}, {coq_tag(b)})" for a, b in c["qs"]], "(tag * tag)%type")
    univ = "std_univ" if c["univ"] == UNIV else G.lst([coq_tag(t) for t in c["univ"]], "tag")
    tags = "std_tags" if c["tags"] == TAGS else G.lst([coq_tag(t) for t in c["tags"]], "tag")
    return (f"(Case {coq_tag(c['d'])} {G.b(c['every'])} {univ} "
            f"{G.lst([coq_op(o) for o in c['ops']], 'op')} {qs} {tags})")


def coq_res(r):
    if isinstance(r, int) and not isinstance(r, bool) and r >= 0:
        return f"(RMethod {G.n(r)})"
    return {"A": "RAmbiguous", "N": "RNoMethod"}.get(r, "ROther")


def coq_sres(s):
    if s == "ok":
        return "SOk"
    if s == "err":
        return "SErr"
    if isinstance(s, list) and s and s[0] == "res":
        return f"(SRes {coq_res(s[1])})"
    return "SBad"


STD_ALL = [K(0), K(1), K(2), K(3), K(4), K(5), C(0), C(1), C(2), C(3)]


def _enc_sres(s):
    if s == "ok":
        return 0
    if s == "err":
        return 1
    if isinstance(s, list) and len(s) == 2 and s[0] == "res":
        r = s[1]
        if isinstance(r, int) and not isinstance(r, bool) and 0 <= r <= 25:
            return 6 + r
        return {"N": 3, "A": 4}.get(r, 5)
    return 2


def _mask(l):
    m = 0
    for t in l:
        m |= 1 << (STD_ALL.index(t) if t in STD_ALL else 10)
    return m


def coq_out(o):
    if not isinstance(o, dict) or "steps" not in o:
        if isinstance(o, dict) and (o.get("__timeout__") or o.get("__hang__")):
            return "(OErr 3%N)"
        return "(OErr 2%N)"
    try:
        flat = []
        for s, ps in o["steps"]:
            flat.append(_enc_sres(s))
            flat.extend(_enc_sres(["res", r]) for r in ps)
        flat.extend(_enc_sres(["res", r]) for r in o["final"])
        I = lambda v: f"{v}%uint63"
        chunk = lambda ds, width, per: G.lst([I(sum(d << (width * i) for i, d in enumerate(ds[k:k + per])))
                                              for k in range(0, len(ds), per)], "int")
        steps = chunk(flat, 5, 12)
        isa = chunk([1 if x else 0 for x in o["isa"]], 1, 60)
        nt = len(o["par"])
        if not (len(o["anc"]) == nt and len(o["desc"]) == nt):
            return "(OErr 4%N)"
        masks = [_mask(l) for l in o["par"]] + [_mask(l) for l in o["anc"]] + [_mask(d or []) for d in o["desc"]]
        none = sum(1 << i for i, d in enumerate(o["desc"]) if d is None)
        if len(flat) > 4000 or len(o["isa"]) > 4000 or nt > 1000:
            return "(OErr 4%N)"
        return (f"(unpack {I(len(flat))} {steps} {I(len(o['isa']))} {isa} "
                f"{I(nt)} {chunk(masks, 11, 5)} {I(none)})")
    except Exception:
        return "(OErr 5%N)"


# ---- a small reference used only by the finding signatures -------------------------------
SUPERS = {0: [], 1: [0], 2: [1, 0], 3: [0]}


def _key(t):
    return repr(t)


class _Ref:
    def __init__(self):
        self.par = set()
        self.tags = {}
        self.methods = {}
        self.prefs = set()

    def up(self, x):
        seen, todo = set(), [x]
        while todo:
            y = todo.pop()
            nxt = [self.tags[p] for (t, p) in self.par if t == _key(y)]
            if y[0] == "C":
                nxt += [C(s) for s in SUPERS.get(y[1], [])]
            for z in nxt:
                if _key(z) not in seen:
                    seen.add(_key(z))
                    todo.append(z)
        return seen

    def isa(self, x, y):
        return x == y or _key(y) in self.up(x)

    def step(self, o):
        n = o[0]
        if n == "add":
            self.methods[_key(o[1])] = o[1]
        elif n == "remove":
            self.methods.pop(_key(o[1]), None)
        elif n == "removeall":
            self.methods = {}
        elif n == "prefer":
            if (_key(o[2]), _key(o[1])) not in self.prefs:
                self.prefs.add((_key(o[1]), _key(o[2])))
        elif n == "derive":
            t, p = o[1], o[2]
            if t != p and p[0] == "K" and t[0] in ("K", "C") and not self.isa(p, t):
                self.par.add((_key(t), _key(p)))
                self.tags[_key(p)] = p
        elif n == "underive":
            self.par.discard((_key(o[1]), _key(o[2])))

    def exact_hit_against_preference(self, k):
        """k has a method, another matching key is preferred over k."""
        if _key(k) not in self.methods:
            return False
        return any(mk != _key(k) and (mk, _key(k)) in self.prefs and self.isa(k, m)
                   for mk, m in self.methods.items())


def sig_f18d(case, out):
    r = _Ref()
    n = len(case["ops"])
    for i, o in enumerate(case["ops"]):
        r.step(o)
        keys = []
        if o[0] == "call":
            keys.append(o[1])
        if case["every"] or i == n - 1:
            keys += case["univ"]
        if any(r.exact_hit_against_preference(k) for k in keys):
            return True
    return False


FINDINGS = {"F-18d": sig_f18d}

def mini(ops, univ, qs=(), tags=(), salt=0):
    """A case with its own small universe / question list (used for the findings' witnesses)."""
    return {"d": DFLT, "every": True, "univ": list(univ), "ops": [list(o) for o in ops],
            "qs": [list(q) for q in qs], "tags": list(tags), "salt": salt}


# the witnesses of the findings (docs/agents/C18.md lists the same objects for known_findings.json)
WITNESSES = {
    "F-18a": mini([("add", K(1), 1)], [K(1)], qs=[(V(K(1)), V(K(1), K(2))), (V(), V(K(1)))]),
    "F-18b": mini([("derive", K(1), K(2)), ("derive", K(1), K(3)), ("derive", K(1), K(4)),
                   ("add", K(2), 1), ("add", K(3), 2), ("add", K(4), 3),
                   ("prefer", K(2), K(3)), ("prefer", K(3), K(4))], [K(1)], salt=1),
    "F-18b-diamond": mini([("derive", K(1), K(5)), ("derive", K(5), K(3)), ("derive", K(5), K(4)),
                           ("add", K(3), 1), ("add", K(4), 2), ("add", K(5), 3)], [K(1)]),
    "F-18c": mini([("derive", C(1), K(2)), ("add", K(2), 1)], [C(2)], qs=[(C(2), K(2))], tags=[C(2)]),
    "F-18d": mini([("derive", K(1), K(2)), ("add", K(2), 1), ("add", K(1), 2), ("prefer", K(2), K(1))], [K(1)]),
}


def nontrivial(c, o):
    names = {op[0] for op in c["ops"]}
    return "add" in names and bool(names & {"derive", "underive", "prefer"})


def describe(c):
    return " ; ".join(" ".join(str(x) for x in o) for o in c["ops"]) + f"  [every={c['every']} salt={c.get('salt')}]"


def shrink(c):
    ops = c["ops"]
    for i in range(len(ops)):
        yield dict(c, ops=ops[:i] + ops[i + 1:])
    if c["every"]:
        yield dict(c, every=False)


def extra_evidence(cases_, outs):
    lens, kinds, resk = {}, {}, {"method": 0, "ambiguous": 0, "nomethod": 0, "other": 0}
    orders = set()
    for c, o in zip(cases_, outs):
        n = len(c["ops"])
        b = "1-2" if n <= 2 else "3-5" if n <= 5 else "6-7" if n <= 7 else "8+"
        lens[b] = lens.get(b, 0) + 1
        for op in c["ops"]:
            kinds[op[0]] = kinds.get(op[0], 0) + 1
        if isinstance(o, dict) and "steps" in o:
            for _, ps in o["steps"]:
                for r in ps:
                    resk["method" if isinstance(r, int) else "ambiguous" if r == "A" else
                         "nomethod" if r == "N" else "other"] += 1
            if len(o.get("order", [])) >= 3:
                orders.add(repr(o["order"]))
    return {"skipped_until_listed": dict(_SKIPPED),
            "input_distribution": {"history_length": lens, "op_kinds": kinds, "probe_results": resk,
                                   "distinct_table_iteration_orders_with_3+_methods": len(orders)}}
