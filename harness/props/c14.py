"""C14 -- Cached namespace bytecode is transparent and never used when invalid.

Correspondence:
 (a) decoding layer, in process: every truncation length of real .lpyc files (one `sweep`
     case each, run-length encoded), header perturbations x cuts (`batch`), stale detection
     with synthetic stats incl. 32-bit wraps (`stale`), keyword intern table histories with
     foreign compile-time hashes (`kwops`);
 (b) full import path through child interpreters sharing a private warm PYTHONPYCACHEPREFIX
     (`import`: truncations at the header boundaries and payload offsets, stale header
     fields, touched/edited source, other magic, empty/missing file, two hash seeds; `xerr`:
     a valid cache whose execution raises a class the fallback catches);
 (c) in-process histories (`hist`): ONE child interpreter per case imports a namespace, edits
     its source (mtime and/or size change, touch, edit back), reloads it (importlib.reload,
     Namespace.reload, (require 'ns :reload)), damages the cache file, calls
     importlib.invalidate_caches(), switches sys.dont_write_bytecode; after every import /
     reload: which version's definitions are visible, was the cache used, what cache file is
     left behind; compared with the reference semantics of Spec.v and the model of Reload.v;
 (d) `shape`: who stats the source file, read off importer.py (tr_importer.stats_in_spec_shape).
"""
import base64
import os
import shutil

from harness.vlib import gallina as G
from harness.props import c14_impl as I

ID = "C14"
TITLE = "Cached namespace bytecode is transparent and never used when invalid"
CORR = "Verif.C14.Corr"
CORR_TARGETS = ["theories/C14/Corr.vo"]
TARGETS = ["theories/Properties/C14.vo"]
PROPERTIES_FILE = "theories/Properties/C14.v"
IMPL = "harness.props.c14_impl"
BASILISP = False               # workers do not bootstrap basilisp; the import path runs in children
NWORKERS = 3
SHARD = 90
HARD_TIMEOUT = 900
SCRATCH = f"/tmp/c14-{os.getpid()}"
WORKER_ENV = {"VERIF_CASE_SOFT_TIMEOUT": "800", "C14_SCRATCH": SCRATCH}
TABLE_DEPS = ["importer_magic", "importer_slices", "importer_header_checks", "importer_write_layout",
              "importer_long_codec", "importer_caught", "importer_exec_in_try"]
RULE = ("decoding layer: EVERY truncation length 0..len of 3 real cache files written by the real "
        "import path for generated namespaces (exhaustive; one run-length-encoded case per file), "
        "per file a batch of header perturbations (each header byte x 4 values, 15 cut points x 4 header "
        "states, random headers) and stale-detection cases over synthetic (mtime,size) pairs incl. "
        "negative and >= 2^32 values; keyword intern table: random histories over 3 names x 3 "
        "compile-time hash variants. import path (child interpreters): cut at 0,3,4,7,8,11,12 bytes, "
        "payload cuts, stale header fields, touched and edited source, other magic, missing file, "
        "writer/reader hash seeds 1/1 and 1/2. in-process histories (one child interpreter each): "
        "16 designed histories covering import / edit (mtime only, size only, both, touch, edit back to "
        "an earlier version and its stamp) / reload through importlib.reload, Namespace.reload and "
        "(require 'ns :reload) / import of a loaded module / every damage kind / invalidate_caches / "
        "dont_write_bytecode on and off, plus random honest histories of 3..10 steps over 4 versions, "
        "5 mtimes and 3 sizes. A case is non-trivial when the file under test is not "
        "the pristine valid cache read in the writer's own process configuration (histories: when a "
        "reload follows an edit or a damage).")
TRUSTED = ["importlib of CPython 3.12 (which loader methods import_module / reload call: modelled in "
           "C14/Reload.v, exercised by every history case)",
           "CPython marshal: loads(dumps(c)) = c and every proper prefix of a dump raises EOFError "
           "(Section hypotheses H_marshal_roundtrip / H_marshal_prefix_fails; the second is exercised on "
           "every prefix of every real payload of the run, outcome classes listed in the evidence)",
           "the compiler and the execution of a module are parameters of the loader model (compile, run)",
           "open(path,'w+b')+write modelled as truncate-then-write whose crash leaves a prefix",
           "exception classes are modelled as five pairwise unrelated classes; subclasses "
           "(FileNotFoundError, ModuleNotFoundError) are folded into the class the except clause names",
           "hash((name, ns)) is a per-process function; the correspondence uses a collision-free toy hash"]
ASSUMPTIONS = ["mtime (whole seconds) and size identify the content of a source file (premise `honest` "
               "of C14_transparent); an edit keeping both is outside the property's notion of stale",
               "source mtime and size are in [0, 2^32) for the stale-rejection clause "
               "(C14_stale_rejected_partial; C14_stale_wraps_refuted shows the clause false outside)",
               "no collision among the 64-bit keyword hashes of a history (executable guard "
               "keys_consistentb of C14_kw_semantics_seed_independent)",
               "corrupted (not truncated) payload bytes are outside the property"]
EXHAUSTIVE = {"quick": False, "thorough": False}

MAGIC = b"\x7d\x04\r\n"
CLASSES = {"EOFError", "ImportError", "OSError", "ValueError", "TypeError"}


def _w_long(x):
    return (int(x) & 0xFFFFFFFF).to_bytes(4, "little")


# ---- generated namespaces --------------------------------------------------------------
KWCHECKS = ('(defn kwchecks [] [(identical? k (keyword "kw")) (= k (keyword "kw")) '
            '(= (hash k) (hash (keyword "kw"))) (= 1 (get {(keyword "kw") 1} k)) '
            '(contains? #{k} (keyword "kw"))])\n')

OPTIONAL = [
    lambda r: f'(def ^{{:doc "bee {r.randint(0, 99)}"}} b "str\\n{r.randint(0, 9999)}\\"q\\"")\n',
    lambda r: f'(def n {r.randint(-10**12, 10**12)})\n',
    lambda r: f'(def fl {r.randint(1, 999)}.5)\n',
    lambda r: f'(def kq :c14.q/name{r.randint(0, 99)})\n',
    lambda r: f'(def coll {{:kw [1 2.5 "x" #{{:a :b}}] "s" \'sym :other/q {r.randint(0, 99)}}})\n',
    lambda r: f'(defn f ([x] (f x {r.randint(1, 9)})) ([x y] (+ x y {r.randint(1, 9)})))\n',
    lambda r: '(defmacro m [x] `(inc ~x))\n',
    lambda r: f'(def ^:dynamic *d* {r.randint(0, 9)})\n',
    lambda r: f'(defn g "doc of g" [& xs] (apply str {r.randint(0, 9)} xs))\n',
    lambda r: '(def v (mapv (fn [i] {:i i :sq (* i i)}) (range 4)))\n',
]


def gen_ns(ns, rng, nopt):
    picks = sorted(rng.sample(range(len(OPTIONAL)), nopt))
    body = "".join(OPTIONAL[i](rng) for i in picks)
    probe = ["(:kw {:kw 1})", "k"]
    if 4 in picks:
        probe += ["(get coll :kw)", '(get coll "s")']
    if 5 in picks:
        probe.append("(f 1)")
    if 6 in picks:
        probe.append("(m 2)")
    if 8 in picks:
        probe.append('(g "a" :b)')
    if 9 in picks:
        probe.append("(:sq (nth v 3))")
    return (f'(ns {ns} "generated for C14")\n(def k :kw)\n' + body
            + f"(defn probe [] [{' '.join(probe)}])\n" + KWCHECKS)


WITNESS_SRC = '(ns c14w.kwid)\n(def k :kw)\n' + KWCHECKS


# ---- cases -----------------------------------------------------------------------------
def _batch_variants(rng, mtime, size, n_random):
    good = MAGIC + _w_long(mtime) + _w_long(size)
    vs = []

    def add(hdr, cut=None, m=mtime, s=size):
        vs.append({"hdr": list(hdr), "cut": cut, "mtime": m, "size": s})
    add(good)
    for i in range(12):
        for val in ((good[i] + 1) % 256, good[i] ^ 0x80, 0, 255):
            h = bytearray(good)
            h[i] = val
            add(bytes(h))
    stale_m = MAGIC + _w_long(mtime + 1) + _w_long(size)
    stale_s = MAGIC + _w_long(mtime) + _w_long(size - 1)
    bad = b"\x7c\x04\r\n" + good[4:]
    for cut in range(15):
        for h in (good, stale_m, stale_s, bad):
            add(h, cut)
    for d in (1, -1, 255, 256, -256, 65536, 2 ** 31, 2 ** 32 - 1, 2 ** 32, -2 ** 32, 2 ** 32 + 1):
        add(good, None, mtime + d, size)
        add(good, None, mtime, size + d)
    for _ in range(n_random):
        h = bytes(rng.randrange(256) for _ in range(rng.choice([12, 12, 12, rng.randint(0, 12)])))
        if rng.random() < 0.5:
            h = good[:rng.randint(0, 12)] + h[rng.randint(0, len(h)):]
            h = h[:12]
        cut = rng.choice([None, None, rng.randint(0, 40)])
        if len(h) < 12:
            # a short header is only meaningful as a whole short file: the model abstracts
            # payload bytes, which would otherwise slide into the header fields
            cut = rng.randint(0, len(h))
        add(h, cut, rng.choice([mtime, mtime, rng.randrange(2 ** 32)]), rng.choice([size, size, rng.randrange(2 ** 20)]))
    return vs


def _stale_cases(rng, n):
    interesting = [0, 1, 5, 255, 256, 65535, 65536, 2 ** 24, 2 ** 31 - 1, 2 ** 31, 2 ** 32 - 1, 1_700_000_000]
    out = [{"k": "stale", "m": 0, "s": 2 ** 32 + 5, "m2": 0, "s2": 5},          # the wrap witness
           {"k": "stale", "m": 2 ** 32 + 1_700_000_000, "s": 10, "m2": 1_700_000_000, "s2": 10},
           {"k": "stale", "m": -1, "s": 10, "m2": 2 ** 32 - 1, "s2": 10},
           {"k": "stale", "m": 2 ** 32, "s": 10, "m2": 2 ** 32, "s2": 10},
           {"k": "stale", "m": -5, "s": 10, "m2": -5, "s2": 10}]
    for _ in range(n):
        m = rng.choice(interesting + [rng.randrange(2 ** 32)])
        s = rng.choice(interesting + [rng.randrange(2 ** 22)])
        mode = rng.random()
        if mode < 0.3:
            m2, s2 = m, s
        elif mode < 0.6:
            m2, s2 = (m ^ (1 << rng.randrange(32)), s) if rng.random() < 0.5 else (m, s ^ (1 << rng.randrange(32)))
        elif mode < 0.8:
            m2, s2 = rng.choice(interesting), rng.choice(interesting)
        else:                            # outside 32 bits
            k = rng.choice([-2, -1, 1, 2])
            if rng.random() < 0.5:
                m, m2, s2 = m + k * 2 ** 32, m, s
            else:
                s, m2, s2 = s + k * 2 ** 32, m, s
        out.append({"k": "stale", "m": m, "s": s, "m2": m2, "s2": s2})
    return out


def _kwops_cases(rng, n):
    out = [{"k": "kwops", "ops": [["lit", "kw", 1], ["new", "kw"]]},
           {"k": "kwops", "ops": [["lit", "kw", 0], ["new", "kw"]]},
           {"k": "kwops", "ops": [["new", "kw"], ["lit", "kw", 2], ["lit", "kw", 2], ["lit", "kw", 1]]}]
    for _ in range(n):
        ops = []
        foreign = rng.random() < 0.6
        for _ in range(rng.randint(1, 8)):
            name = rng.choice(["a", "b", "c"])
            if rng.random() < 0.55:
                ops.append(["lit", name, rng.choice([0, 1, 2]) if foreign else 0])
            else:
                ops.append(["new", name])
        out.append({"k": "kwops", "ops": ops})
    return out


def _import_cases(tier, rng, nss):
    def imp(i, pert, **kw):
        ns, src = nss[i % len(nss)]
        return dict({"k": "import", "ns": ns, "src": src, "pert": pert, "wseed": 1, "rseed": 1}, **kw)
    cs = [
        imp(0, {"kind": "none"}, again=True),
        {"k": "import", "ns": "c14w.kwid", "src": WITNESS_SRC, "pert": {"kind": "none"}, "wseed": 1, "rseed": 2},
        imp(1, {"kind": "none"}, rseed=2),
        imp(0, {"kind": "trunc", "n": 0}, again=True),
        imp(1, {"kind": "trunc", "n": 3}),
        imp(0, {"kind": "trunc", "n": 4}),
        imp(1, {"kind": "trunc", "n": 7}),
        imp(0, {"kind": "trunc", "n": 8}),
        imp(1, {"kind": "trunc", "n": 11}),
        imp(0, {"kind": "trunc_pay", "num": 0, "den": 1}),          # header only
        imp(1, {"kind": "trunc_pay", "num": 1, "den": 2}, again=True),
        imp(0, {"kind": "trunc_tail", "n": 1}),
        imp(1, {"kind": "trunc_pay", "num": 1, "den": 3}, rseed=2),
        imp(0, {"kind": "magic", "bytes": [0x7c, 4, 13, 10]}),
        imp(1, {"kind": "hdr_mtime", "delta": 1}),
        imp(0, {"kind": "hdr_size", "delta": -1}),
        imp(1, {"kind": "touch", "delta": 5}),
        imp(0, {"kind": "edit", "append": "(def added 42)\n", "delta": 0}, again=True),
        imp(1, {"kind": "edit", "append": "(def added [:kw 1])\n", "delta": 3}),
        imp(0, {"kind": "missing"}),
        imp(1, {"kind": "trunc", "n": 5}, no_write=True),
        imp(0, {"kind": "none"}, no_write=True),
    ]
    if tier != "quick":
        for i in range(40):
            kind = rng.choice(["trunc", "trunc_pay", "trunc_tail", "hdr_mtime", "hdr_size", "touch", "magic", "none"])
            pert = {"trunc": {"kind": "trunc", "n": rng.randint(0, 11)},
                    "trunc_pay": {"kind": "trunc_pay", "num": rng.randint(0, 99), "den": 100},
                    "trunc_tail": {"kind": "trunc_tail", "n": rng.randint(1, 16)},
                    "hdr_mtime": {"kind": "hdr_mtime", "delta": rng.choice([-1, 1, 256, 2 ** 31])},
                    "hdr_size": {"kind": "hdr_size", "delta": rng.choice([-1, 1, 256, 2 ** 31])},
                    "touch": {"kind": "touch", "delta": rng.choice([-1, 1, 3600])},
                    "magic": {"kind": "magic", "bytes": [rng.randrange(256) for _ in range(4)]},
                    "none": {"kind": "none"}}[kind]
            cs.append(imp(i + 2, pert, rseed=rng.choice([1, 2, 3]), again=rng.random() < 0.3))
    return cs


def _hist_cases(tier, rng):
    """In-process histories.  Honesty by construction: source mtimes are M0 + even offsets and
    pads (hence sizes) even, every stamp (mtime, pad) belongs to one version for the whole
    history; planted header fields use odd deltas, so they never claim a stamp a source has."""
    M0 = I.SRC_MTIME
    T = lambda **kw: ["touch", dict(kw)]      # noqa: E731
    ctr = [0]

    def H(steps, dwb=False, again=False, pad=0):
        ctr[0] += 1
        return {"k": "hist", "ns": f"c14h.h{ctr[0]:03d}", "dwb": dwb, "again": again, "mtime": M0, "pad": pad,
                "steps": steps}
    IMP, REL, RNS, RRQ, INV = ["import"], ["reload", "importlib"], ["reload", "ns"], ["reload", "require"], ["invalidate"]
    cs = [
        H([IMP, ["edit", 2, M0 + 2, 0], REL], again=True),                       # mtime only
        H([IMP, ["edit", 2, M0, 2], RNS], again=True),                           # size only
        H([IMP, ["edit", 2, M0 + 2, 2], RRQ]),                                   # both
        H([IMP, ["edit", 1, M0 + 4, 0], REL], again=True),                       # touched, same content
        H([IMP, REL, IMP, RNS, RRQ]),                                            # unchanged: the cache is used
        H([IMP, ["edit", 2, M0 + 2, 0], REL, ["edit", 3, M0 + 4, 2], RRQ, ["edit", 1, M0, 0], RNS], again=True),
        H([REL, IMP, INV, ["edit", 2, M0 + 2, 0], REL, INV, REL]),
        H([IMP, T(kind="trunc", n=7), REL, T(kind="trunc_pay", num=1, den=2), RNS,
           T(kind="magic", bytes=[0x7c, 4, 13, 10]), REL, T(kind="missing"), RRQ, T(kind="trunc_tail", n=1), REL],
          again=True),
        H([IMP, T(kind="hdr_mtime", delta=1), REL, T(kind="hdr_size", delta=-1), RNS,
           T(kind="hdr_mtime", delta=2 ** 32), REL]),
        H([IMP, ["edit", 2, M0 + 2, 0], REL, IMP], dwb=True, again=True),        # nothing is ever written
        H([IMP, ["setdwb", True], ["edit", 2, M0 + 2, 0], REL, ["edit", 1, M0, 0], RNS, ["setdwb", False],
           ["edit", 2, M0 + 2, 0], REL], again=True),                            # the old cache becomes valid again
        H([IMP, ["edit", 2, M0 + 2, 0], T(kind="trunc", n=3), REL]),
        H([IMP, ["edit", 2, M0 + 2, 0], REL, ["edit", 2, M0 + 4, 0], REL, REL], pad=2),
        H([IMP, ["edit", 2, M0 + 2, 0], IMP, RRQ, IMP]),                         # import of a loaded module: nothing
        H([INV, IMP, ["edit", 2, M0, 4], INV, RRQ], again=True),
        H([IMP, ["setdwb", True], T(kind="missing"), REL, ["setdwb", False], RNS], again=True),
    ]
    for _ in range(10 if tier == "quick" else 60):
        ver, off, pad = 1, 0, rng.choice([0, 2])
        pad0 = pad
        stamps = {(off, pad): ver}
        loaded, tails = False, 0
        steps = [IMP] if rng.random() < 0.85 else []
        loaded = bool(steps)
        for _ in range(rng.randint(3, 10)):
            x = rng.random()
            if x < 0.08:
                steps.append(IMP)
                loaded = True
            elif x < 0.45:
                steps.append(rng.choice([REL, RNS, RRQ]) if loaded else REL)
            elif x < 0.70:
                for _ in range(20):
                    v2, o2, p2 = rng.randint(1, 4), rng.choice([0, 2, 4, 6, 8]), rng.choice([0, 2, 4])
                    if stamps.get((o2, p2), v2) == v2 and (v2, o2, p2) != (ver, off, pad):
                        stamps[(o2, p2)] = v2
                        ver, off, pad = v2, o2, p2
                        steps.append(["edit", ver, M0 + off, pad])
                        break
            elif x < 0.88:
                kind = rng.choice(["trunc", "trunc_pay", "trunc_tail", "magic", "missing", "hdr_mtime", "hdr_size"])
                if kind == "trunc_tail":
                    tails += 1
                    if tails > 3:
                        kind = "missing"
                steps.append(["touch", {
                    "trunc": {"kind": "trunc", "n": rng.randint(0, 11)},
                    "trunc_pay": {"kind": "trunc_pay", "num": rng.randint(0, 9), "den": 10},
                    "trunc_tail": {"kind": "trunc_tail", "n": rng.randint(1, 4)},
                    "magic": {"kind": "magic", "bytes": [rng.choice([0x7c, 0x7e, 0]), 4, 13, 10]},
                    "missing": {"kind": "missing"},
                    "hdr_mtime": {"kind": "hdr_mtime", "delta": rng.choice([1, -1, 255, 2 ** 31 + 1])},
                    "hdr_size": {"kind": "hdr_size", "delta": rng.choice([1, -1, 255, 2 ** 31 + 1])}}[kind]])
            elif x < 0.95:
                steps.append(INV)
            else:
                steps.append(["setdwb", rng.random() < 0.5])
        if loaded and steps[-1][0] != "reload":
            steps.append(rng.choice([REL, RNS, RRQ]))
        cs.append(H(steps, dwb=rng.random() < 0.15, again=rng.random() < 0.3, pad=pad0))
    return cs


def _clean():
    I.cleanup(SCRATCH)


def cases(tier, rng):
    _clean()
    warm = I.ensure_warm()
    if warm.get("child_failed"):
        raise RuntimeError(f"C14: cannot bootstrap basilisp in a child interpreter: {warm}")
    nns = 3 if tier == "quick" else 6
    sizes = [0, 2, 5, 8, 3, 10]
    nss = [(f"c14gen.n{i}", gen_ns(f"c14gen.n{i}", rng, sizes[i])) for i in range(nns)]
    # real cache files, written by the real import path in a child interpreter; the heavy
    # sweep cases are spread over the cheap ones so that they land in different Coq shards
    cheap = _stale_cases(rng, 300 if tier == "quick" else 3000) + _kwops_cases(rng, 200 if tier == "quick" else 2000)
    step = max(1, len(cheap) // nns)
    for i, (ns, src) in enumerate(nss):
        g = I.golden(ns, src, 1, SCRATCH)
        if g["golden"] is None or g["ref"].get("import") != "ok":
            raise RuntimeError(f"C14: reference load of {ns} failed: {g['ref']}")
        data = g["golden"]
        yield {"k": "sweep", "ns": ns, "file": base64.b64encode(data).decode(), "mtime": I.SRC_MTIME,
               "size": g["size"]}
        yield {"k": "batch", "pay": base64.b64encode(data[12:]).decode(),
               "variants": _batch_variants(rng, I.SRC_MTIME, g["size"], 60 if tier == "quick" else 400)}
        yield from cheap[i * step:(i + 1) * step if i + 1 < nns else len(cheap)]
    yield from _import_cases(tier, rng, nss[1:] if tier == "quick" else nss)
    for e in ("OSError", "ImportError", "FileNotFoundError", "EOFError", "ValueError"):
        yield {"k": "xerr", "exc": e}
    yield {"k": "shape"}
    yield from _hist_cases(tier, rng)


# ---- Gallina ---------------------------------------------------------------------------
def _exc(name):
    return name if name in CLASSES else None


def _dres(r):
    if r == "OK":
        return "DOk"
    if r == "OK-DIFFERENT":
        return "DOkOther"
    if r in CLASSES:
        return f"(DErr {r})"
    return "DOther"


def _oexc(name):
    return "(@None exc)" if name is None else f"(Some {name})"


def coq_pert(p, case):
    k = p["kind"]
    if k == "none":
        return "PNone"
    if k == "missing":
        return "PMissing"
    if k == "trunc":
        return f"(PTrunc {G.n(p['n'])})"
    if k == "trunc_pay":
        return f"(PTruncPay {G.n(p['num'])} {G.n(p['den'])})"
    if k == "trunc_tail":
        return f"(PTruncTail {G.n(p['n'])})"
    if k == "magic":
        return f"(PMagic {G.bs(bytes(p['bytes']))})"
    if k == "hdr_mtime":
        return f"(PHdrMtime {G.z(p['delta'])})"
    if k == "hdr_size":
        return f"(PHdrSize {G.z(p['delta'])})"
    if k == "touch":
        return f"(PTouch {G.z(p['delta'])})"
    if k == "edit":
        return f"(PEdit {G.z(len(p['append'].encode()))} {G.z(p.get('delta', 0))})"
    raise ValueError(k)


def _coq_hstep(st, ns):
    op = st[0]
    if op == "import":
        return "HImport"
    if op == "reload":
        return "HReload"
    if op == "invalidate":
        return "HInvalidate"
    if op == "setdwb":
        return f"(HSetDwb {G.b(bool(st[1]))})"
    if op == "edit":
        return f"(HEdit {G.n(st[1])} {G.z(st[2])} {G.z(len(I.hist_src(ns, st[1], st[3]).encode()))})"
    if op == "touch":
        return f"(HTouch {coq_pert(st[1], None)})"
    raise ValueError(op)


def coq_case(c):
    k = c["k"]
    if k == "sweep":
        data = base64.b64decode(c["file"])
        return f"(CSweep {G.bs(data[:12])} {G.n(max(0, len(data) - 12))} {G.z(c['mtime'])} {G.z(c['size'])})"
    if k == "batch":
        pay = base64.b64decode(c["pay"])
        vs = [f"(mkvar {G.bs(bytes(v['hdr']))} {G.opt(v['cut'], G.n, 'N')} {G.z(v['mtime'])} {G.z(v['size'])})"
              for v in c["variants"]]
        return f"(CBatch {G.n(len(pay))} {G.lst(vs, 'variant')})"
    if k == "stale":
        return f"(CStale {G.z(c['m'])} {G.z(c['s'])} {G.z(c['m2'])} {G.z(c['s2'])})"
    if k == "kwops":
        names = {}
        ops = []
        for op in c["ops"]:
            i = names.setdefault(op[1], len(names) + 1)
            ops.append(f"({G.n(i)}, {G.n(op[2] if op[0] == 'lit' else 0)}, {G.b(op[0] == 'lit')})")
        return f"(CKwOps {G.lst(ops, '(N * N * bool)')})"
    if k == "import":
        size = len(c["src"].encode())
        return (f"(CImport {coq_pert(c['pert'], c)} {G.z(I.SRC_MTIME)} {G.z(size)} "
                f"{G.b(c.get('wseed', 1) != c.get('rseed', 1))} {G.b(bool(c.get('no_write')))} "
                f"{G.b(bool(c.get('again')))})")
    if k == "xerr":
        e = {"FileNotFoundError": "OSError"}.get(c["exc"], c["exc"])
        return f"(CXerr {e})"
    if k == "shape":
        return "CShape"
    if k == "hist":
        size = len(I.hist_src(c["ns"], 1, c["pad"]).encode())
        return (f"(CHist {G.b(bool(c.get('dwb')))} {G.b(bool(c.get('again')))} {G.z(c['mtime'])} {G.z(size)} "
                + G.lst([_coq_hstep(st, c["ns"]) for st in c["steps"]], "hstep") + ")")
    raise ValueError(k)


def coq_out(o):
    if o.get("__timeout__") or o.get("__hang__"):
        return "(OErr 3%N)"
    if o.get("__died__") or o.get("__error__") or "err" in o:
        return "(OErr 2%N)"
    if "rle" in o:
        return "(OSweep " + G.lst([f"({G.n(n)}, {_dres(r)})" for n, r in o["rle"]], "(N * dres)") + ")"
    if "classes" in o:
        return "(OBatch " + G.lst([_dres(r) for r in o["classes"]], "dres") + ")"
    if "stale" in o:
        return f"(OStale {G.bs(bytes(o['hdr']))} {_dres(o['stale'])})"
    if "kw" in o:
        rows = [f"({G.n(i)}, ({G.b(a)}, {G.b(b)}, {G.b(c)}, {G.b(d)}))" for i, a, b, c, d in o["kw"]]
        return "(OKw " + G.lst(rows, "(N * (bool * bool * bool * bool))") + ")"
    if "loaded" in o:
        kc = o.get("kwchecks")
        de = o.get("decode_exc")
        if not isinstance(kc, list) or len(kc) != 5 or (de is not None and de not in CLASSES):
            return "(OErr 4%N)"
        flags = [o["written_valid"], o["loaded"], o["recompiled"], o["same"], o["cache_valid_after"],
                 o.get("again_from_cache", True), kc[0], all(kc[1:])]
        return "(OImport " + " ".join(G.b(bool(f)) for f in flags) + " " + _oexc(de) + ")"
    if "hist" in o:
        items = []
        for e in o["hist"]:
            if e.get("t") == "load":
                de = e.get("decode_exc")
                if e.get("raised") or (de is not None and de not in CLASSES) or not isinstance(e.get("ver"), int):
                    return "(OErr 4%N)"
                items.append(f"(HLoad {G.n(e['ver'])} {G.b(bool(e['used']))} {G.b(bool(e['recompiled']))} "
                             f"{_oexc(de)} {G.b(bool(e['cva']))})")
            elif e.get("t") == "already" and isinstance(e.get("ver"), int):
                items.append(f"(HAlready {G.n(e['ver'])})")
            elif e.get("t") == "notloaded":
                items.append("HNotLoaded")
            else:
                return "(OErr 4%N)"
        return "(OHist " + G.lst(items, "hobs") + ")"
    if "shape" in o:
        return "(OShape " + ("(@None bool)" if o["shape"] is None else f"(Some {G.b(bool(o['shape']))})") + ")"
    if "ticks" in o:
        def cls(x):
            return None if x == "ok" else x
        a, b = cls(o["ref_import"]), cls(o["import"])
        if (a is not None and a not in CLASSES) or (b is not None and b not in CLASSES):
            return "(OErr 4%N)"
        return f"(OXerr {G.n(o['ref_ticks'])} {G.n(o['ticks'])} {_oexc(a)} {_oexc(b)})"
    return "(OErr 2%N)"


# ---- findings --------------------------------------------------------------------------
def _f14(c, o):
    """Keyword literal of code compiled under another hash seed is not identical? to the
    constructed keyword (while =, hash and lookup agree)."""
    if c["k"] == "kwops":
        return any(op[0] == "lit" and op[2] != 0 for op in c["ops"]) and \
            all(r[1] and r[2] and r[3] and r[4] for r in o.get("kw", [[0, False, False, False, False]]))
    if c["k"] == "import":
        kc = o.get("kwchecks")
        return (c.get("wseed", 1) != c.get("rseed", 1) and o.get("loaded") and o.get("same")
                and not o.get("recompiled") and isinstance(kc, list) and kc[0] is False and all(kc[1:]))
    return False


FINDINGS = {"F-14": _f14}


def nontrivial(c, o):
    k = c["k"]
    if k == "import":
        return c["pert"]["kind"] != "none" or c.get("wseed", 1) != c.get("rseed", 1)
    if k == "stale":
        return (c["m"], c["s"]) != (c["m2"], c["s2"])
    if k == "kwops":
        return len(c["ops"]) > 1
    if k == "hist":
        changed = False
        for st in c["steps"]:
            if st[0] in ("edit", "touch"):
                changed = True
            elif st[0] == "reload" and changed:
                return True
        return False
    return True


def describe(c):
    if c["k"] == "hist":
        return (f"one process over {c['ns']} (dont_write_bytecode={c.get('dwb')}, version 1 mtime {c['mtime']} "
                f"pad {c['pad']}): {c['steps']}" + ("; then a fresh process imports it" if c.get("again") else ""))
    if c["k"] == "shape":
        return "which method of BasilispImporter stats the source file (static reading of importer.py)"
    if c["k"] == "import":
        return f"import {c['ns']} with cache perturbation {c['pert']} writer seed {c.get('wseed', 1)} reader seed {c.get('rseed', 1)}"
    return c["k"]


def shrink(c):
    if c["k"] == "hist":
        if c.get("again"):
            yield dict(c, again=False)
        for i in range(len(c["steps"])):
            yield dict(c, steps=c["steps"][:i] + c["steps"][i + 1:])
    if c["k"] == "kwops":
        for i in range(len(c["ops"])):
            yield dict(c, ops=c["ops"][:i] + c["ops"][i + 1:])
    if c["k"] == "batch":
        vs = c["variants"]
        if len(vs) > 1:
            yield dict(c, variants=vs[:len(vs) // 2])
            yield dict(c, variants=vs[len(vs) // 2:])


def extra_evidence(cases_, outs):
    dist, marshal_out, dec = {}, {}, {}
    hist = {"loads": 0, "reloads_after_edit_or_damage": 0, "loads_from_cache": 0, "loads_recompiled": 0,
            "imports_of_loaded_module": 0, "visible_version_differs_from_current": 0}
    sweeps, wrap = [], None
    children = 0
    for c, o in zip(cases_, outs):
        dist[c["k"]] = dist.get(c["k"], 0) + 1
        if c["k"] == "sweep" and "rle" in o:
            sweeps.append({"ns": c.get("ns"), "file_len": o["len"], "rle": o["rle"]})
            for k, v in o["marshal_prefix_outcomes"].items():
                marshal_out[k] = marshal_out.get(k, 0) + v
        if c["k"] == "batch":
            for r in o.get("classes", []):
                dec[r] = dec.get(r, 0) + 1
        if c["k"] == "stale" and (c["m"], c["s"], c["m2"], c["s2"]) == (0, 2 ** 32 + 5, 0, 5):
            wrap = o.get("stale")
        if c["k"] == "import":
            dec[f"import:{o.get('decode_exc')}"] = dec.get(f"import:{o.get('decode_exc')}", 0) + 1
        if c["k"] == "hist":
            loads = [e for e in o.get("hist", []) if e.get("t") == "load"]
            hist["loads"] += len(loads)
            hist["loads_from_cache"] += sum(1 for e in loads if e.get("used"))
            hist["loads_recompiled"] += sum(1 for e in loads if e.get("recompiled"))
            hist["visible_version_differs_from_current"] += sum(1 for e in loads if e.get("ver") != e.get("cur"))
            hist["imports_of_loaded_module"] += sum(1 for e in o.get("hist", []) if e.get("t") == "already")
            changed = False
            for st in c["steps"]:
                if st[0] in ("edit", "touch"):
                    changed = True
                elif st[0] == "reload" and changed:
                    hist["reloads_after_edit_or_damage"] += 1
                    changed = False
        if c["k"] == "shape":
            hist["stats_in_spec_shape"] = o.get("shape")
    _clean()
    return {"input_distribution": dist,
            "exhaustive_truncation_sweeps": sweeps,
            "marshal_outcomes_on_every_proper_prefix_of_real_payloads": marshal_out,
            "decode_result_classes": dec,
            "in_process_histories": hist,
            "stale_wrap_witness_(written size 2^32+5, read against 5)_on_real_decoder": wrap,
            "pycache_prefix": I.PREFIX}
