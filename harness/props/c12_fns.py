"""Update functions, validators and watches handed to the real Atom by the C12/C13 harness.

This file is in the scheduler's traced set: the line marked COMPUTE is the program point at
which the update function runs (for the Python methods *and* for the core.lpy loops, whose
own code is compiled Lisp and not traced).  Keep the marker comments: c12_impl finds the
lines by them.
"""


class FnThrow(Exception):
    """Raised by an update function that 'throws'."""


def make_fn(apply_kind):
    def f(x, *args):
        r = apply_kind(x)  # COMPUTE
        return r
    return f
