"""C13 implementation side: races on the REAL Delay / Promise under harness/vlib/sched.py,
and sequential action lists on the real futures.Future (over a real ThreadPoolExecutor).

delay   {"k": "delay", "script": [z|null...], "threads": [["deref"|"realized"...]...], "sched": [...]}
        script[i]: what the i-th run of the body does (null: throws; the last entry repeats)
promise {"k": "promise", "threads": [[{"op": "deliver", "v": z|null} | {"op": "deref", "timed": null|{"tv": z}}
                                       | {"op": "realized"} ...]...], "sched": [...]}
future  {"k": "future", "body": {"val": z} | {"raise": "TimeoutError"|"ValueError"|"KeyError"},
         "acts": [{"a": "deref_timed", "tv": z} | {"a": "deref", "tv": z} | {"a": "realized"} | {"a": "release"}]}
explore: same without "sched" plus {"explore": {"preempt": n, "limit": n, "random": n, "seed": n}}
"""
import os
import threading

from harness.vlib import sched
from harness.props import c13_fns
from harness.props.c13_fns import BodyThrow

_S = {}
OPTS = dict(grace=2.0, hang_timeout=4.0, step_budget=400, max_steps=4000)


def setup():
    from basilisp.lang import atom, reference, delay, promise, futures
    from harness.tr import tr_conc
    _S.update(atom=atom, delay=delay, promise=promise, futures=futures)
    _S["dfiles"] = [delay.__file__, atom.__file__, reference.__file__, c13_fns.__file__]
    _S["pfiles"] = [promise.__file__]
    try:
        labels = dict(tr_conc.labels())
        _S["label_error"] = None
    except Exception as e:
        labels = {}
        _S["label_error"] = str(e)[:300]
    src = open(c13_fns.__file__).read().splitlines()
    base = os.path.basename(c13_fns.__file__)
    for i, line in enumerate(src, 1):
        if line.rstrip().endswith("# BODYB"):
            labels[(base, i)] = "BODYB"
        elif line.rstrip().endswith("# BODYE"):
            labels[(base, i)] = "BODYE"
        elif line.strip():
            labels.setdefault((base, i), None)
    _S["labels"] = labels
    # core.lpy's deref / realized? / deliver are one-line wrappers over runtime.deref,
    # .-is-realized and .deliver: call those directly (no 12 s bootstrap of basilisp.core)
    from basilisp.lang import runtime
    _S["core"] = {"deref": runtime.deref, "realized?": lambda o: o.is_realized}


def _points(filename, lineno, funcname):
    return _S["labels"].get((os.path.basename(filename), lineno)) is not None


def opts(case):
    o = dict(OPTS)
    if case.get("gran", "label") == "label" and not _S.get("label_error"):
        o["points"] = _points
    return o


def msched_of(trace, promise=False):
    labels = _S["labels"]
    out, bad = [], None
    for e in trace:
        if e.loc == "<start>":
            continue
        base, _, ln = e.loc.partition(":")
        key = (base, int(ln))
        if key not in labels:
            bad = bad or f"unmapped line {e.loc} in {e.func}"
            continue
        lab = labels[key]
        if lab == "PWF":
            lab = "PRED" if e.func == "<lambda>" else None
        if lab is None:
            if e.kind != "run":
                bad = bad or f"step kind {e.kind} at silent line {e.loc}"
            continue
        if promise:
            out.append([e.tid, lab, e.kind])
        elif e.kind == "run":
            out.append([e.tid, lab, False])
        elif e.kind == "block":
            out.append([e.tid, lab, True])
        else:
            bad = bad or f"unexpected step kind {e.kind} at {e.loc}"
    return out, bad


# ---- delay ---------------------------------------------------------------------------------
class DelayBuild:
    def __init__(self, cfg):
        self.cfg = cfg
        self.blog = []
        self.count = [0]
        script = cfg["script"]

        def begin():
            i = self.count[0]
            self.count[0] += 1
            self.blog.append([sched.current_tid(), "b"])
            return i

        def end(i):
            out = script[i] if i < len(script) else script[-1]
            self.blog.append([sched.current_tid(), "e", out is not None])
            if out is None:
                raise BodyThrow()
            return out
        with sched.instrumented_threading():
            self.delay = _S["delay"].Delay(c13_fns.make_body(begin, end))
        self.results = [[] for _ in cfg["threads"]]

    def body(self, t):
        d, core = self.delay, _S["core"]

        def run():
            for o in self.cfg["threads"][t]:
                sched.op_begin()
                try:
                    if o == "deref":
                        v = core["deref"](d) if t % 2 else d.deref()
                        r = {"val": v} if type(v) is int else "err:value"
                    elif o == "realized":
                        r = {"bool": bool(d.is_realized)}
                    else:
                        raise ValueError(o)
                except BodyThrow:
                    r = "exc"
                except sched.BudgetExhausted:
                    self.results[t].append("budget")
                    return
                except Exception as e:   # noqa: BLE001
                    r = "err:" + type(e).__name__
                self.results[t].append(r)
        return run

    def bodies(self):
        return [self.body(t) for t in range(len(self.cfg["threads"]))]

    def observe(self, res):
        ms, bad = msched_of(res.trace)
        if _S.get("label_error"):
            bad = "label table refused: " + _S["label_error"]
        return {"k": "delay", "status": res.status if not bad else "unmapped", "why": bad,
                "res": self.results, "blog": self.blog, "msched": ms}


# ---- promise -------------------------------------------------------------------------------
class PromiseBuild:
    def __init__(self, cfg):
        self.cfg = cfg
        with sched.instrumented_threading():
            self.p = _S["promise"].Promise()
        self.results = [[] for _ in cfg["threads"]]
        self.hist = []

    def body(self, t):
        p, core = self.p, _S["core"]

        def run():
            for i, o in enumerate(self.cfg["threads"][t]):
                sched.op_begin()
                self.hist.append(["c", t, i])
                try:
                    k = o["op"]
                    if k == "deliver":
                        r = {"ret": p.deliver(o["v"])}
                    elif k == "deref":
                        tm = o.get("timed")
                        if t % 2:     # through runtime.deref (what core/deref calls): timeout in ms
                            r = {"ret": core["deref"](p) if tm is None else core["deref"](p, 50, tm["tv"])}
                        else:
                            r = {"ret": p.deref() if tm is None else p.deref(0.05, tm["tv"])}
                    elif k == "realized":
                        r = {"bool": bool(p.is_realized)}
                    else:
                        raise ValueError(k)
                    if "ret" in r and not (r["ret"] is None or type(r["ret"]) is int):
                        r = "err:value"
                except sched.BudgetExhausted:
                    self.results[t].append("budget")
                    return
                except Exception as e:   # noqa: BLE001
                    r = "err:" + type(e).__name__
                self.results[t].append(r)
                self.hist.append(["r", t, i])
        return run

    def bodies(self):
        return [self.body(t) for t in range(len(self.cfg["threads"]))]

    def observe(self, res):
        ms, bad = msched_of(res.trace, promise=True)
        if _S.get("label_error"):
            bad = "label table refused: " + _S["label_error"]
        st = res.status
        return {"k": "promise", "status": ("ok" if st in ("ok", "deadlock") else st) if not bad else "unmapped",
                "why": bad, "deadlock": st == "deadlock", "res": self.results, "hist": self.hist,
                "msched": ms}


def build(case):
    return DelayBuild(case) if case["k"] == "delay" else PromiseBuild(case)


def files(case):
    return _S["dfiles"] if case["k"] == "delay" else _S["pfiles"]


# ---- future --------------------------------------------------------------------------------
EXC = {"TimeoutError": TimeoutError, "ValueError": ValueError, "KeyError": KeyError}


def run_future(case):
    import concurrent.futures as cf
    ex = _S["futures"].ThreadPoolExecutor(max_workers=1)
    gate = threading.Event()
    b = case["body"]

    def body():
        gate.wait(8)
        if "raise" in b:
            raise EXC[b["raise"]]("body")
        return b["val"]
    core = _S["core"] if case.get("api") == "core" else None
    fut = ex.submit(body)
    out = []
    try:
        for a in case["acts"]:
            k = a["a"]
            try:
                if k == "release":
                    gate.set()
                    cf.wait([fut._future], timeout=5)
                    out.append("unit")
                elif k == "realized":
                    out.append({"bool": bool(core["realized?"](fut) if core else fut.is_realized)})
                elif k == "deref_timed":
                    v = core["deref"](fut, 10, a["tv"]) if core else fut.deref(0.01, a["tv"])
                    out.append({"ret": v} if type(v) is int else "err:value")
                elif k == "deref":
                    if not fut.done():
                        out.append("unit")          # would block: not attempted
                    else:
                        v = core["deref"](fut) if core else fut.deref(None, a["tv"])
                        out.append({"ret": v} if type(v) is int else "err:value")
            except tuple(EXC.values()) as e:
                out.append({"exc": type(e).__name__})
            except Exception as e:   # noqa: BLE001
                out.append("err:" + type(e).__name__)
    finally:
        gate.set()
        ex.shutdown(wait=False)
    return {"k": "future", "status": "ok", "res": out}


# ---- entry ---------------------------------------------------------------------------------
def run(case):
    if case["k"] == "future":
        return run_future(case)
    if "explore" in case:
        return explore(case)
    b = build(case)
    res = sched.run(b.bodies(), files(case), schedule=case["sched"], strict=True, **opts(case))
    return b.observe(res)


def explore(case):
    ex = case["explore"]
    made = []
    promise = case["k"] == "promise"

    def factory():
        b = build(case)
        made.append(b)
        return b.bodies()
    runs, seen, n = [], set(), 0

    def add(res):
        made.pop()
        ms, bad = msched_of(res.trace, promise=promise)
        key = repr(ms)
        if key in seen and res.status in ("ok", "deadlock") and not bad:
            return
        seen.add(key)
        runs.append({"sched": res.choices, "msched": ms})
    for res in sched.explore(factory, files(case), preemptions=ex.get("preempt", 2),
                             limit=ex.get("limit"), **opts(case)):
        n += 1
        add(res)
    exhaustive = not (ex.get("limit") and n >= ex["limit"])
    if ex.get("random"):
        import random
        rng = random.Random(ex.get("seed", 0))
        for res in sched.random_runs(factory, files(case), ex["random"], rng, **opts(case)):
            n += 1
            add(res)
    return {"runs": runs, "explored": n, "exhaustive": exhaustive}
