"""C17 implementation side: builds the values and calls basilisp.core compare/sort/sort-by."""
import decimal
import fractions

from harness.vlib import bl

_fns = {}


def setup():
    _fns["compare"] = bl.core("compare")
    _fns["="] = bl.core("=")
    _fns["sort"] = bl.core("sort")
    _fns["sort-by"] = bl.core("sort-by")
    _fns["first"] = bl.core("first")
    _fns["second"] = bl.core("second")
    _fns["revcmp"] = bl.ev("(fn [a b] (compare b a))")


def build(t, v):
    from basilisp.lang import keyword as kw, symbol as sym, vector as vec
    if v is None:
        return None
    if t == "num":
        tag, n, d = v["py"], int(v["n"]), int(v["d"])
        if tag == "int":
            return n
        if tag == "float":
            return n / d
        if tag == "ratio":
            return fractions.Fraction(n, d)
        if tag == "dec":
            return decimal.Decimal(n) / decimal.Decimal(d)
    if t == "str":
        return v
    if t == "kw":
        return kw.keyword(v[1], ns=v[0])
    if t == "sym":
        return sym.symbol(v[1], ns=v[0])
    if isinstance(t, list) and t[0] == "vec":
        return vec.vector([build(t[1], e) for e in v])
    raise ValueError(t)


def _err(e):
    return {"err": type(e).__name__}


def run(case):
    k, t = case["k"], case["t"]
    cmp_, eq = _fns["compare"], _fns["="]
    try:
        if k == "pair":
            x, y = build(t, case["x"]), build(t, case["y"])
            return {"ints": [cmp_(x, y), cmp_(y, x), 1 if eq(x, y) else 0]}
        if k == "triple":
            x, y, z = (build(t, case[n]) for n in "xyz")
            return {"ints": [cmp_(x, y), cmp_(y, x), cmp_(y, z), cmp_(z, y), cmp_(x, z), cmp_(z, x)]}
        if k == "sort":
            from basilisp.lang import vector as vec
            elems = [build(t, e) for e in case["l"]]
            coll = vec.vector(elems)
            res = _fns["sort"](_fns["revcmp"], coll) if case["rev"] else _fns["sort"](coll)
            res = list(res) if res is not None else []
            used, perm = set(), []
            for r in res:
                hit = None
                for i, e in enumerate(elems):
                    if i not in used and e is r:
                        hit = i
                        break
                if hit is None:
                    for i, e in enumerate(elems):
                        if i not in used and type(e) is type(r) and repr(e) == repr(r):
                            hit = i
                            break
                if hit is None:
                    return {"err": "ElementNotFromInput"}
                used.add(hit)
                perm.append(hit)
            return {"perm": perm}
        if k == "sortby":
            from basilisp.lang import vector as vec
            coll = vec.vector([vec.vector([build(t, e), i]) for i, e in enumerate(case["l"])])
            if case["rev"]:
                res = _fns["sort-by"](_fns["first"], _fns["revcmp"], coll)
            else:
                res = _fns["sort-by"](_fns["first"], coll)
            res = list(res) if res is not None else []
            return {"perm": [_fns["second"](r) for r in res]}
    except TypeError as e:
        return {"err": "TypeError"}
    except Exception as e:  # any other exception class is an observable
        return _err(e)
    return {"err": "BadCase"}
