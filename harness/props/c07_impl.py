"""C07 implementation side: builds transducer pipelines as Lisp source, compiles them once per
worker, and runs them on instrumented inputs through the five application forms.

Case formats (JSON):
  {"k":"pipe","pipe":[[stage, param?],...],"input":[v,...],"limit":bool,"forms":[...]?}
      -> {"lazy": r, "into": r, "sequence": r, "transduce": r, "eduction": r}
         r = {"e":[v...], "p":pulls, "c":completions} | {"err": class name}
  {"k":"iterate","n":int,"table":[[k,v],...],"dflt":v,"x":v} -> {"e":[...]} | {"err":...}
Values: null, true/false, int, {"kw": name}, [v,...] (a vector).
"""
import itertools

from harness.vlib import bl

FORMS = ["lazy", "into", "sequence", "transduce", "eduction"]
SLACK = 24          # elements an unbounded source still yields to the lazy form beyond `input`

# ---- the parameter functions: same numbering as fn1/fn2/fnl in coq/theories/C07/Corr.v -------------
FN1 = [
    "identity",
    "nil?",
    "(fn [x] [x])",
    "(fn [x] (if (int? x) (inc x) x))",
    "(constantly nil)",
    "(fn [x] (if (sequential? x) (count x) x))",
    "boolean",
    "some?",
    "int?",
    "(fn [x] (= x 1))",
    "(fn [x] (not= x 0))",
    "keyword?",
    "(fn [x] (if (sequential? x) (= 2 (count x)) true))",
    "(fn [x] (not= x [2]))",
    "(fn [x] (cond (false? x) nil (nil? x) false :else x))",
]
FN2 = [
    "vector",
    "(fn [i x] (if (even? i) x i))",
    "(fn [i x] (when (even? i) x))",
    "(fn [i x] (when x i))",
    "(fn [i x] i)",
]
FNL = [
    "(fn [x] [x x])",
    "(fn [x] (if (nil? x) nil [x]))",
    "(fn [x] (if (sequential? x) x [x]))",
    "(fn [x] [])",
]


class PullLimit(Exception):
    pass


class Source:
    """Iterator over `items` counting successful pulls.  With `limit` the source pretends to be
    unbounded: after `items` it yields `extra` more elements (cyclically) and then raises."""

    def __init__(self, items, limit=False, extra=0):
        self.items = items
        self.limit = limit
        self.extra = extra
        self.pulls = 0

    def __iter__(self):
        return self

    def __next__(self):
        n = len(self.items)
        if self.pulls < n:
            v = self.items[self.pulls]
        elif not self.limit:
            raise StopIteration
        elif self.pulls < n + self.extra and n > 0:
            v = self.items[self.pulls % n]
        else:
            raise PullLimit()
        self.pulls += 1
        return v


_st = {}


def setup():
    from basilisp.lang import keyword as kw, vector as vec
    _st["kw"] = kw
    _st["vec"] = vec
    _st["ns"] = bl.fresh_ns("verif.c07.")
    _st["iterator-seq"] = bl.core("iterator-seq")
    _st["iterate"] = bl.core("iterate")
    _st["take"] = bl.core("take")
    _st["atom"] = bl.core("atom")
    _st["deref"] = bl.core("deref")
    # the probe: a transducer placed last in the pipeline that counts completion calls
    _st["probe"] = bl.ev(
        "(fn [counter] (fn [rf] (fn ([] (rf)) ([r] (swap! counter inc) (rf r)) ([r x] (rf r x)))))",
        _st["ns"])
    _st["cache"] = {}
    _st["core"] = {n: bl.core(n) for n in (
        "map", "map-indexed", "filter", "remove", "keep", "keep-indexed", "take", "take-while",
        "take-nth", "drop", "drop-while", "interpose", "partition-all", "partition-by", "distinct",
        "dedupe", "mapcat", "cat", "comp", "into", "sequence", "transduce", "eduction", "conj",
        "doall", "vec", "apply", "concat")}
    _st["fn1"] = [bl.ev(src, _st["ns"]) for src in FN1]
    _st["fn2"] = [bl.ev(src, _st["ns"]) for src in FN2]
    _st["fnl"] = [bl.ev(src, _st["ns"]) for src in FNL]


def to_val(v):
    if v is None or isinstance(v, (bool, int)):
        return v
    if isinstance(v, dict):
        name = v["kw"]
        if "/" in name:
            ns, nm = name.split("/", 1)
            return _st["kw"].keyword(nm, ns=ns)
        return _st["kw"].keyword(name)
    if isinstance(v, list):
        return _st["vec"].vector([to_val(e) for e in v])
    raise ValueError(v)


def from_val(v):
    from basilisp.lang import keyword as kw
    from basilisp.lang.interfaces import ISeq, ISequential
    if v is None or isinstance(v, bool):
        return v
    if isinstance(v, int):
        return v
    if isinstance(v, kw.Keyword):
        return {"kw": (v.ns + "/" + v.name) if v.ns else v.name}
    if isinstance(v, (ISequential, ISeq)):
        return [from_val(e) for e in v]
    return {"other": type(v).__name__}


def lisp_val(v):
    if v is None:
        return "nil"
    if v is True:
        return "true"
    if v is False:
        return "false"
    if isinstance(v, int):
        return str(v)
    if isinstance(v, dict):
        return ":" + v["kw"]
    return "[" + " ".join(lisp_val(e) for e in v) + "]"


def stage_src(st, lazy_arg=None):
    """Lisp source of a stage: the transducer (lazy_arg None) or the lazy arity applied to lazy_arg."""
    name = st[0]
    p = st[1] if len(st) > 1 else None
    tail = "" if lazy_arg is None else " " + lazy_arg
    if name in ("map", "filter", "remove", "keep", "take-while", "drop-while", "partition-by"):
        return f"({name} {FN1[p]}{tail})"
    if name in ("map-indexed", "keep-indexed"):
        return f"({name} {FN2[p]}{tail})"
    if name in ("take", "take-nth", "drop", "partition-all"):
        return f"({name} {int(p)}{tail})"
    if name == "interpose":
        return f"(interpose {lisp_val(p)}{tail})"
    if name == "mapcat":
        return f"(mapcat {FNL[p]}{tail})"
    if name in ("distinct", "dedupe"):
        return f"({name}{tail})"
    if name == "cat":
        return "cat" if lazy_arg is None else f"(apply concat {lazy_arg})"
    raise ValueError(name)


def compile_form(form, pipe):
    """The application form as compiled Lisp source (used for the cases marked via=src)."""
    key = (form, repr(pipe))
    fn = _st["cache"].get(key)
    if fn is not None:
        return fn
    if form == "lazy":
        body = "coll"
        for st in pipe:
            body = stage_src(st, body)
        src = f"(fn [coll probe] (doall {body}))"
    else:
        xfs = " ".join(stage_src(st) for st in pipe)
        xf = f"(comp {xfs} probe)"
        if form == "into":
            src = f"(fn [coll probe] (into [] {xf} coll))"
        elif form == "sequence":
            src = f"(fn [coll probe] (doall (sequence {xf} coll)))"
        elif form == "transduce":
            src = f"(fn [coll probe] (transduce {xf} conj coll))"
        elif form == "eduction":
            src = f"(fn [coll probe] (vec (eduction {xf} coll)))"
        else:
            raise ValueError(form)
    fn = bl.ev(src, _st["ns"])
    if len(_st["cache"]) > 5000:
        _st["cache"].clear()
    _st["cache"][key] = fn
    return fn


def stage_call(st, coll=None):
    """The same through direct calls of the basilisp.core function objects (no compilation):
    the transducer arity (coll None) or the lazy arity applied to coll."""
    name = st[0]
    p = st[1] if len(st) > 1 else None
    c = _st["core"]
    if name in ("map", "filter", "remove", "keep", "take-while", "drop-while", "partition-by"):
        args = [_st["fn1"][p]]
    elif name in ("map-indexed", "keep-indexed"):
        args = [_st["fn2"][p]]
    elif name in ("take", "take-nth", "drop", "partition-all"):
        args = [int(p)]
    elif name == "interpose":
        args = [to_val(p)]
    elif name == "mapcat":
        args = [_st["fnl"][p]]
    elif name in ("distinct", "dedupe"):
        args = []
    elif name == "cat":
        if coll is None:
            return c["cat"]
        return c["apply"](c["concat"], coll)
    else:
        raise ValueError(name)
    if coll is not None:
        args.append(coll)
    return c[name](*args)


def call_form(form, pipe, coll, probe):
    c = _st["core"]
    if form == "lazy":
        for st in pipe:
            coll = stage_call(st, coll)
        return c["doall"](coll)
    xf = c["comp"](*([stage_call(st) for st in pipe] + [probe]))
    if form == "into":
        return c["into"](_st["vec"].vector([]), xf, coll)
    if form == "sequence":
        return c["doall"](c["sequence"](xf, coll))
    if form == "transduce":
        return c["transduce"](xf, c["conj"], coll)
    if form == "eduction":
        return c["vec"](c["eduction"](xf, coll))
    raise ValueError(form)


def run_form(form, pipe, items, limit, via):
    try:
        src = Source(items, limit, SLACK if form == "lazy" else 0)
        coll = _st["iterator-seq"](src)
        counter = _st["atom"](0)
        probe = _st["probe"](counter)
        if via == "src":
            res = compile_form(form, pipe)(coll, probe)
        else:
            res = call_form(form, pipe, coll, probe)
        elems = [from_val(e) for e in (res if res is not None else [])]
        if form == "lazy":
            return {"e": elems, "p": 0, "c": 0}
        return {"e": elems, "p": src.pulls, "c": _st["deref"](counter)}
    except PullLimit:
        return {"err": "PullLimit"}
    except Exception as e:  # the exception class is the observable
        return {"err": type(e).__name__}


def run(case):
    if case["k"] == "pipe":
        items = [to_val(v) for v in case["input"]]
        limit = bool(case.get("limit"))
        out = {}
        for form in FORMS:
            out[form] = run_form(form, case["pipe"], items, limit, case.get("via"))
        # On an unbounded source the lazy form is only observed when the listed prefix suffices:
        # when a transducing form ran into the limit, what the lazy form returns depends on the
        # elements beyond the prefix (it is handed SLACK more of them for its read-ahead).
        if limit and any(out[f].get("err") == "PullLimit" for f in FORMS[1:]):
            out["lazy"] = {"err": "PullLimit"}
        return out
    if case["k"] == "iterate":
        table = [(repr(k), to_val(v)) for k, v in case["table"]]
        dflt = to_val(case["dflt"])

        def f(v):
            key = repr(from_val(v))
            for k, r in table:
                if k == key:
                    return r
            return dflt
        try:
            s = _st["take"](int(case["n"]), _st["iterate"](f, to_val(case["x"])))
            return {"e": [from_val(e) for e in (s if s is not None else [])]}
        except Exception as e:
            return {"err": type(e).__name__}
    return {"err": "BadCase"}
