"""C05 -- equality is an equivalence that hashing and lookup respect."""
import itertools
import json

from harness.vlib import gallina as G

ID = "C05"
TITLE = "Equality is an equivalence that hashing and lookup respect"
CORR = "Verif.C05.Corr"
CORR_TARGETS = ["theories/C05/Corr.vo"]
TARGETS = ["theories/Properties/C05.vo"]
PROPERTIES_FILE = "theories/Properties/C05.v"
IMPL = "harness.props.c05_impl"
TAGGED = True
SHARD = 3000
TABLE_DEPS = ["c05_eq_hash_classes", "c05_vec_hash_family", "c05_list_hash_family",
              "c05_queue_hash_family", "c05_iseq_hash_family", "c05_seq_equals_shape",
              "c05_iseq_eq_shape", "c05_vec_eq_shape", "c05_queue_eq_shape", "c05_map_eq_shape",
              "c05_set_eq_shape", "c05_kw_eq_shape", "c05_sym_eq_shape", "c05_equals_shape",
              "c05_core_eq_shape", "c05_record_eq_shape"]
RULE = ("a universe of values built to contain equal values of different representation "
        "(vector / map entry / list / cons / lazy seq / queue; int / float / ratio / decimal / bool; "
        "map / record; empties of every kind; nil; NaN; nested mixes). pairs: ALL ordered pairs of "
        "separately built objects plus every value against itself as one object, observing (= x y), "
        "(= y x), hash equality, (get (hash-map x :found) y) and (contains? (hash-set x) y) both ways. "
        "triples: quick = seeded sample of 4000 over the universe, thorough = ALL 60^3 over a 60-element core + 50000 sampled over the full universe, observing the six `=`. "
        "A case is non-trivial when its operands are not all the same description; distinct = distinct JSON.")
TRUSTED = ["CPython numeric ==/hash: int, float, Fraction, Decimal and bool compare by exact value and equal "
           "numbers hash alike (modelled: exact extended rationals, which __eq__ handles which operand class)",
           "CPython's == protocol (method of the left operand, reflected method, subclass priority, identity) "
           "is transcribed in Model.eqd",
           "immutables.Map: lookup finds the stored key with the probe's hash and `probe == stored`; "
           "Map == Map iterates the left operand; hash(Map) and AbstractSet._hash are order independent "
           "functions of the multiset of key/value (member) hashes",
           "pyrsistent: hash(plist) = hash(pdeque) = hash(tuple(elements)); hash(pvector) is another algorithm",
           "the symbolic hash ignores collisions of the concrete hash functions (siphash, modular numeric hash)",
           "object identity is outside the value type: `same` pairs are modelled by the identity shortcut "
           "every __eq__ of the repo starts with; hash(float NaN) is identity based"]
ASSUMPTIONS = ["theorems quantify over well-formed values (Model.wf: map keys / set members pairwise not "
               "identified by the map itself; map entries have two items)",
               "records carry no extension map and no metadata; Decimal NaN/sNaN and complex numbers are "
               "outside the universe; transient collections compare by identity and are outside it"]
EXHAUSTIVE = {"quick": False, "thorough": False}
NWORKERS = 1   # one 12 s bootstrap; the cases themselves cost ~0.3 ms each


# ---- value descriptions -----------------------------------------------------------------
NIL = {"t": "nil"}
T = {"t": "bool", "v": True}
F = {"t": "bool", "v": False}


def I(n):
    return {"t": "num", "k": "int", "n": n, "d": 1}


def FL(n, d=1):
    return {"t": "num", "k": "float", "n": n, "d": d}


def RA(n, d):
    return {"t": "num", "k": "ratio", "n": n, "d": d}


def DE(n, d=1):
    return {"t": "num", "k": "dec", "n": n, "d": d}


NAN = {"t": "num", "k": "float", "s": "nan"}
INF = {"t": "num", "k": "float", "s": "inf"}
NINF = {"t": "num", "k": "float", "s": "-inf"}
NEG0 = {"t": "num", "k": "float", "s": "-0"}


def S(v):
    return {"t": "str", "v": v}


def KW(name, ns=None):
    return {"t": "kw", "ns": ns, "name": name}


def SY(name, ns=None):
    return {"t": "sym", "ns": ns, "name": name}


def _seq(k):
    return lambda *l: {"t": "seq", "k": k, "l": list(l)}


V, ME, L, CO, LZ, Q = (_seq(k) for k in ("vec", "entry", "list", "cons", "lazy", "queue"))


def M(*kvs):
    return {"t": "map", "l": [list(kv) for kv in kvs]}


def ST(*l):
    return {"t": "set", "l": list(l)}


def R(tag, *l):
    return {"t": "rec", "tag": tag, "l": list(l)}


A, B = KW("a"), KW("b")
FLOAT_TENTH = FL(3602879701896397, 36028797018963968)      # the double nearest to 0.1

UNIVERSE = [
    NIL, T, F,
    I(1), FL(1), RA(1, 1), DE(1), I(0), FL(0), NEG0, I(2),
    RA(1, 2), FL(1, 2), DE(1, 2), FLOAT_TENTH, RA(1, 10), DE(1, 10),
    NAN, INF, NINF, I(2 ** 53 + 1), FL(2 ** 53),
    S("a"), S(""), A, SY("a"), KW("b", "a"), SY("b", "a"), L(S("a"), NIL),
    V(I(1), I(2)), ME(I(1), I(2)), L(I(1), I(2)), CO(I(1), I(2)), LZ(I(1), I(2)), Q(I(1), I(2)),
    V(FL(1), I(2)), L(I(2), I(1)), V(I(1), I(2), I(3)), LZ(I(1), I(2), I(3)),
    V(), L(), CO(), LZ(), Q(), M(), ST(),
    V(I(1)), V(T), L(T), Q(FL(1)), V(NAN), V(NIL), L(I(0)), CO(F),
    M((A, I(1))), M((A, FL(1))), M((A, T)), R("R1", I(1)), R("R2", I(1)), R("R1", FL(1)), R("R1", T),
    R("R3", I(1), I(2)),
    M((A, I(1)), (B, I(2))), M((B, I(2)), (A, DE(1))),
    M((V(I(1), I(2)), A)), M((L(I(1), I(2)), A)), M((I(1), A)), M((T, A)), M((A, NAN)),
    M((I(1), I(2))), ST(I(1), I(2)), ST(I(2), FL(1)), ST(I(1)), ST(T), ST(DE(1)),
    ST(V(I(1), I(2))), ST(L(I(1), I(2))), ST(NAN),
    V(V(I(1), I(2))), V(L(I(1), I(2))), L(Q(I(1), I(2))), V(M((A, I(1)))), V(M((A, T))),
    M((A, V(I(1)))), M((A, L(I(1)))), ST(ST(I(1))), ST(ST(T)),
]


# thorough tier: ALL triples over the 60-element core (the universe minus these indices, which
# duplicate an equality class already represented) plus a seeded sample over the full universe
NON_CORE = {9, 10, 14, 19, 20, 21, 23, 26, 27, 28, 36, 37, 38, 41, 43, 48, 51, 53, 58, 61, 68, 69, 74, 77, 80,
            82, 86}
QUICK_TRIPLES = 4000
THOROUGH_EXTRA_TRIPLES = 50000


def _jd(x):
    return json.dumps(x, sort_keys=True)


_UIDX = {}
for _i, _v in enumerate(UNIVERSE):
    _UIDX.setdefault(_jd(_v), _i)
assert len(_UIDX) == len(UNIVERSE), "duplicate universe entries"


def cases(tier, rng):
    n = len(UNIVERSE)
    for i in range(n):
        yield {"k": "pair", "same": True, "x": UNIVERSE[i], "y": UNIVERSE[i]}
    for i in range(n):
        for j in range(n):
            yield {"k": "pair", "same": False, "x": UNIVERSE[i], "y": UNIVERSE[j]}
    if tier == "quick":
        triples = [tuple(rng.randrange(n) for _ in range(3)) for _ in range(QUICK_TRIPLES)]
    else:
        core = [i for i in range(n) if i not in NON_CORE]
        triples = list(itertools.product(core, repeat=3))
        triples += [tuple(rng.randrange(n) for _ in range(3)) for _ in range(THOROUGH_EXTRA_TRIPLES)]
    for i, j, k in triples:
        yield {"k": "triple", "x": UNIVERSE[i], "y": UNIVERSE[j], "z": UNIVERSE[k]}


# ---- Gallina ---------------------------------------------------------------------------
def _q(n, d):
    return f"(({n})#({d}))%Q"


def coq_val_full(d):
    t = d["t"]
    if t == "nil":
        return "VNil"
    if t == "bool":
        return f"(VBool {G.b(bool(d['v']))})"
    if t == "num":
        k = {"int": "KInt", "float": "KFloat", "ratio": "KRatio", "dec": "KDec"}[d["k"]]
        if "s" in d:
            n = {"nan": "NaN", "inf": "PInf", "-inf": "NInf", "-0": f"(Fin {_q(0, 1)})"}[d["s"]]
        else:
            n = f"(Fin {_q(int(d['n']), int(d['d']))})"
        return f"(VNum {k} {n})"
    if t == "str":
        return f"(VStr {G.s(d['v'])})"
    if t in ("kw", "sym"):
        c = "VKw" if t == "kw" else "VSym"
        return f"({c} {G.opt(d.get('ns'), G.s, 'str')} {G.s(d['name'])})"
    if t == "seq":
        k = {"vec": "KVec", "entry": "KEntry", "list": "KList", "cons": "KCons", "lazy": "KLazy",
             "queue": "KQueue"}[d["k"]]
        return f"(VSeq {k} {G.lst([coq_val_full(e) for e in d['l']], 'val')})"
    if t == "map":
        return "(VMap " + G.lst([f"({coq_val_full(k)}, {coq_val_full(v)})" for k, v in d["l"]], "(val * val)") + ")"
    if t == "set":
        return f"(VSet {G.lst([coq_val_full(e) for e in d['l']], 'val')})"
    if t == "rec":
        return f"(VRec {G.s(d['tag'])} {G.lst([coq_val_full(e) for e in d['l']], 'val')})"
    raise ValueError(t)


# the universe is defined once per cases file; cases refer to it by index
EXTRA_REQUIRE = "\n".join(f"Definition u{i} : val := {coq_val_full(v)}." for i, v in enumerate(UNIVERSE))


def coq_val(d):
    i = _UIDX.get(_jd(d))
    return f"u{i}" if i is not None else coq_val_full(d)


def coq_case(c):
    if c["k"] == "pair":
        return f"(CPair {G.b(bool(c['same']))} {coq_val(c['x'])} {coq_val(c['y'])})"
    return f"(CTriple {coq_val(c['x'])} {coq_val(c['y'])} {coq_val(c['z'])})"


def coq_out(o):
    if "bits" in o and all(isinstance(b, bool) for b in o["bits"]):
        return "(OBits " + G.lst([G.b(b) for b in o["bits"]], "bool") + ")"
    if o.get("__timeout__") or o.get("__hang__") or o.get("__died__"):
        return "(OErr 3%N)"
    if "err" in o:
        return "(OErr 1%N)"
    return "(OErr 2%N)"


# ---- findings ---------------------------------------------------------------------------
# F-05b: element / key comparison inside collections is Python's ==, for which True == 1 and
# False == 0 (runtime.equals' bool guard acts at the top level only).  Signature: the model's tag
# (a boolean occurs in an operand); the verdict logic additionally requires impl = model.
FINDINGS = {
    "F-05b": lambda c, o, tag: bool(tag & 1),
}


def _vals(c):
    return [c[n] for n in ("x", "y", "z") if n in c]


def nontrivial(c, o):
    vs = [_jd(v) for v in _vals(c)]
    return len(set(vs)) > 1 or bool(c.get("same"))


def describe(c):
    return f"{c['k']}" + (" (one object)" if c.get("same") else "")


def _subvalues(d):
    if d["t"] in ("seq", "set", "rec"):
        for i, e in enumerate(d["l"]):
            yield e
            if d["t"] != "rec" and d.get("k") != "entry":
                yield dict(d, l=d["l"][:i] + d["l"][i + 1:])
    if d["t"] == "map":
        for i, (k, v) in enumerate(d["l"]):
            yield k
            yield v
            yield dict(d, l=d["l"][:i] + d["l"][i + 1:])


def shrink(c):
    if c.get("same"):
        for s in _subvalues(c["x"]):
            yield dict(c, x=s, y=s)
        return
    for n in ("x", "y", "z"):
        if n in c:
            for s in _subvalues(c[n]):
                yield dict(c, **{n: s})
    if c["k"] == "triple":
        yield {"k": "pair", "same": False, "x": c["x"], "y": c["y"]}
        yield {"k": "pair", "same": False, "x": c["y"], "y": c["z"]}
        yield {"k": "pair", "same": False, "x": c["x"], "y": c["z"]}


def extra_evidence(cases_, outs):
    dist, eqs, errs = {}, 0, 0
    for c, o in zip(cases_, outs):
        key = c["k"] + (":same" if c.get("same") else "")
        dist[key] = dist.get(key, 0) + 1
        if "bits" in o:
            eqs += 1 if o["bits"][0] else 0
        else:
            errs += 1
    return {"input_distribution": dist, "universe_size": len(UNIVERSE),
            "cases_with_first_equality_true": eqs, "cases_without_bits": errs}
