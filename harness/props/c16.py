"""C16 -- the reader is total, classifies incomplete input, and reports true locations."""
import datetime
import itertools
import os
import re
import uuid

from harness.vlib import paths

ID = "C16"
TITLE = "The reader is total, classifies incomplete input, and reports true locations"
CORR = "Verif.C16.Corr"
CORR_TARGETS = ["theories/C16/Corr.vo"]
TARGETS = ["theories/Properties/C16.vo"]
PROPERTIES_FILE = "theories/Properties/C16.v"
IMPL = "harness.props.c16_impl"
TAGGED = True
SHARD = 2500
NWORKERS = 2
TABLE_DEPS = ["rd_str_escapes", "rd_bytes_escapes", "rd_special_chars", "rd_numeric_constants",
              "rd_dispatch", "rd_macro_dispatch", "rd_regex_sources", "rd_ns_term_exempt",
              "rd_pushback_depth", "rd_default_index_neg", "rd_unicode_lens",
              "rd_uc_space", "rd_uc_digit", "rd_uc_alnum", "rd_uc_numeric", "rd_features"]
RULE = ("every string up to length 3 (quick) / 4 (thorough) over the 22-character delimiter/dispatch "
        "alphabet, up to 4 / 5 over a 9-character core, up to 3 / 4 over a 14-character numeric and a "
        "9-character identifier alphabet (the reader's regexes against the model's recognisers), a fixed "
        "list of regression inputs; every prefix and seeded single-character edits of grammar-generated "
        "programs (all reader macros) under LF / CRLF / CR with multi-byte characters, and of slices of the "
        "bundled .lpy sources.  Observed: outcome class, forms with location metadata, line/col of errors, "
        "re-read of every reported span.  A case is non-trivial when the text is not empty.")
TRUSTED = ["CPython re.compile / datetime.fromisoformat / uuid.UUID validity is an oracle computed by the "
           "harness per case (theorems hold for every oracle)",
           "CPython float()/Decimal(): a float or decimal literal is modelled as the decimal value of its "
           "text; float texts with more than 15 significant digits or extreme exponents match any float",
           "Unicode classes (re \\s \\d, str.isalnum, str.isnumeric) are tables computed from the running "
           "CPython (Gen.Tables.rd_uc_*); ASCII is decided by hand-written tests tied to them by C16_table_ascii_classes",
           "Python dict/set equality and hashing for duplicate detection is modelled structurally "
           "(numbers by value, list <> vector)"]
ASSUMPTIONS = ["the current namespace has no aliases and refers basilisp.core; no namespace is named by a "
               "dotted reader tag (record/type literals are outside the model)",
               "the default data readers and the default reader features; process_reader_cond = True",
               "input has no lone surrogates; nesting stays below CPython's recursion limit; int() inside "
               "\\x byte escapes is given ASCII digits"]
EXHAUSTIVE = {"quick": False, "thorough": False}

ALPHA22 = list("()[]{}\"\\;'`~@^#_:/a1.-") + [" ", "\n"]      # 22 + space + newline
CORE9 = list("()['\"#a1") + [" "]
NUM14 = list("018.-+/eMNxrJa")
ID9 = list("a/.:#'%1-")

REGRESSION = [
    "'", "@", "~", "~@", "`", "`~", "^", "^a", "#'", "#_", "'#_a", "';a", "#a", "#inst", "\\", "##", "#b", "#?",
    "#?@", "#", "#:", "#:a", "#::", "#:a[", "#:a  {:b 1}", "#nil 1", "#true", '#b "\u00e9"', '#b "a', '#b "\\x',
    '#b "\\xg1"', '#b "\\x4"', '#b "\\x41"', '#b "\\q"', "#b a", '#b  "ab"', '"\\', '"\\u12', '"\\u12"',
    '"\\u1234"', '"\\uD7FF"', '"\\U0010FFFF"', '"\\U00110000"', '"\\UFFFFFFFF"', '"\\u12345"', '"\\q"',
    "\\a", "\\ab", "\\newline", "\\space", "\\u", "\\u12", "\\u110000", "\\ugg", "\\(", "\\ ", "\\\n", "\\a(",
    "\\u0041x", "\\\u00e9", "\\\u00e9a", '#"("', '#"\\""', '#"a"', '#"\\', '#"', "#?(", "#?(:lpy", "#?(:lpy 1)",
    "#?(:clj 1)", "#?(:clj 1 :default 2)", "#?@(:lpy [1])", "[#?@(:lpy [1 2])]", "'#?@(:lpy [1])", "#?(1 2)",
    "#?(:a)", "#?(:a 1 :a 2)", "#?@(", "#?a", "[#?@(:lpy 1)]", "#?(:lpy #inst 1)", "#?(:lpy #a 1)",
    "#?(:clj #a 1)", "(#?(:clj 1))", "#?(:lpy [", "#?(:lpy #inst \"2020-01-01\")", "^a b", "^:a b", "^{:a 1} b",
    "^[a] b", "^1 b", "^a 1", "^a :b", "^nil a", '^"s" a', "^a ^b c", "^a [1]", "^a #queue [1]", "^a #py [1]",
    "^a `b", "^a `1", "^a #(b)", "#'a", "#'~a", "#'1", "#' a", "#'nil", "##Inf", "##NaN", "##-Inf", "##a",
    "##a/b", "## Inf", "#_a b", "#_ #_ a b c", "(#_a)", "#_)", "'#_a b", "#:a{:b 1}", "#:a {:b 1}",
    "#::{:a 1 b 2 :c/d 3 :_/e 4}", "#:a/b{}", "#:a{", "#: {}", "#:{}", "#:1{}", "#::a{}", "#:a{:b 1 :a/b 2}",
    "#(", "#()", "#(a)", "#(#())", "#(% %2 %&)", "#(%10)", "#(%0)", "#(%a)", "#([%])", "#[", "# ", "#1", "#)",
    "#;", "#!", "#!a\nb", "#a 1", "#a.b 1", "#a/b 1", "#.a 1", "#queue nil", '#queue "ab"', "#queue :a",
    "#queue {1 2}", "#queue [1 2]", "#queue 1", "#py 1", "#py [1 2]", "#py (1)", "#py #{1}", "#py {1 2}",
    "#{#py []}", "#{#py ()}", "{#py [] 1}", "#{[#py []]}", "#{1 1}", "{1 2 1 3}", "{1}", "#{1 1.0}", "#{true 1}",
    "#{1/2 0.5}", "#{1M 1}", "#{nil false}", "#{##NaN ##NaN}", '#{"a" \\a}', "#{a a}", "#{a b/a}",
    "#inst 1", '#inst "2020-01-01"', '#inst "x"', '#uuid "x"', "#uuid 1",
    '#uuid "00000000-0000-0000-0000-000000000000"', ":", "::", ":a", "::a", "::a/b", ":a/b", ":1", ":1a", ":/",
    ":a/", "::1", ":a:b", "a:", "a/b/c", "/", "a/", "/a", "a//", "a.b/c", "a..b/c", ".a/c", "a./c", "a#", "a#b",
    "a'b", "a%", "%", "'a", 'a"b"', "1", "-1", "-", "--", "-a", "1a", "1-", "1-a", "11-a", "111-a", "1111-a",
    "(111-a)", "1-1", "1.", "1.1", ".1", "-.1", "1/2", "0/0", "1/0", "2/4", "4/2", "-1/2", "1/-2", "01", "00",
    "08", "0x1F", "-0x1f", "0xg", "1N", "1M", "1.M", "01N", "1e3", "1e-3", "1.5e3", "1e3M", "-1.5e3", "1E+3",
    "2r101", "37r1", "1r1", "2r2", "36rZ", "1J", "1.5J", "-1J", "1.5.1", "1+", "+1", "+", "1e309", "1.0e309",
    "1.5e400", "1e-400", "-1-", "1 2", "1,2", "-0.0", "-0M", "0e5", "1.50M", "1" * 4301, "1/" + "1" * 4301,
    "1" * 400 + "J", "1e99999999999999999999M", ";", ";a", ";a\n1", ";a\r1", ";a\r\n1", "1;a", "(;a\n)", "(;a",
    "';a\n1", "@;a\nb", "(", ")", "(]", "[)", "{", "}", "]", "{1 2", "#{", "#{1", "()", "[]", "{}", "#{}", "( )",
    "(1 2)", "[1 [2]]", "{1 2 3}", "{a}", "((", '("', "`a", "`1", "`nil", "`:a", "`()", "`[]", "`{}", "`#{}",
    "'`", "(`", "`~a", "~a", "~@a", "~ @a", "@a", "''a", "' a", "'\n a", "`(a ~b ~@c)", "`~@a", "`(unquote)",
    "`(basilisp.core/unquote)", "`(unquote-splicing a)", "`[~@a]", "`a#", "`(~@)", '"', '""', '"a"', '"a\nb"',
    '"a', '"\\n"', 'a"', '#f "a{b}c"', "#f", '#f "a"', '#f"a"', '#f "{"', '#f "{a"', '#f "{a b}"', "#f a",
    '#f "\\{a"', "nil", "true", "false", "nil/a", "a/nil", "&", ".a", ".-a", "..", "a.", "nil#", "\u00e9", "(\u00e9)",
    "\u00a0a", "\u2028a", "a\u00a0b", "a,b", ",", "\x0b1", "\x1c1", "\x85a", "\u0661", ":\u0661", "\u0661a",
    "1\u0661", "\u00b2", ":\u00b2", "\u00b2a", "\u4e2d\u6587", "(a\n [b\r\n c] #{d} ^x y -z)", "a\rb\r\nc\nd",
    "[a\r]", "(\"x\ny\" z)", "\U0001f600", "(\U0001f600 \"\U0001f600\" b)", "\\\U0001f600",
]


def _strings(alpha, n):
    for k in range(0, n + 1):
        for t in itertools.product(alpha, repeat=k):
            yield "".join(t)


# ---- grammar-generated programs ------------------------------------------------------------------
SYMS = ["a", "b", "foo", "x.y/z", "-", "+", "a-b", "nil", "true", "%", "%2", "&", ".m", "\u00e9t\u00e9", "\u4e2d"]
ATOMS = ["1", "-2", "3.5", "1e3", "2/4", "0x1F", "017", "1N", "2.5M", "36rZ", "1J", ":k", ":a/b", "::c", ":1",
         '"s"', '"a\\nb"', '"\\u0041"', '"two\nlines"', '"\u4e2d\U0001f600"', "\\a", "\\newline", "\\u41",
         "##Inf", "##NaN", '#"a+"', '#b "ab"', '#inst "2020-01-01"', '#uuid "00000000-0000-0000-0000-000000000000"',
         '#inst "nope"', "#a 1", '#f "x{y}z"', '#f "plain"']
WS = [" ", " ", " ", "\n", "\n  ", ", ", "\t", " ;c\n", "\u00a0"]


def gen_form(rng, depth, in_fn=False):
    r = rng.random()
    if depth <= 0 or r < 0.30:
        return rng.choice(SYMS) if rng.random() < 0.5 else rng.choice(ATOMS)
    sub = lambda: gen_form(rng, depth - 1, in_fn)
    seq = lambda n: rng.choice(WS).join(sub() for _ in range(n))
    k = rng.randrange(22)
    if k == 0:
        return "(" + seq(rng.randint(0, 4)) + ")"
    if k == 1:
        return "[" + seq(rng.randint(0, 3)) + "]"
    if k == 2:
        n = rng.randint(0, 2)
        return "{" + " ".join(f":k{i} {sub()}" for i in range(n)) + "}"
    if k == 3:
        n = rng.randint(0, 3)
        return "#{" + " ".join(f"s{i}" for i in range(n)) + "}"
    if k == 4:
        return "'" + sub()
    if k == 5:
        return "@" + sub()
    if k == 6:
        return "`" + sub()
    if k == 7:
        return "~" + sub()
    if k == 8:
        return "~@" + sub()
    if k == 9:
        return "^" + rng.choice([":m", "T", "{:a 1}", "[x]", "1"]) + " " + sub()
    if k == 10:
        return "#'" + rng.choice(["a", "b/c", "~x"])
    if k == 11:
        return "#_" + rng.choice(["", " "]) + sub() + " " + sub()
    if k == 12 and not in_fn:
        return "#(" + rng.choice(WS).join(gen_form(rng, depth - 1, True) for _ in range(rng.randint(0, 3))) + ")"
    if k == 13:
        return "#:" + rng.choice(["n", ":", "n "]) + "{:a " + sub() + " b 2 :_/c 3}"
    if k == 14:
        return "#?(" + rng.choice([":lpy", ":clj", ":default"]) + " " + sub() + rng.choice(["", " :default 0", " :clj 1"]) + ")"
    if k == 15:
        return "[" + sub() + " #?@(" + rng.choice([":lpy", ":clj"]) + " [" + seq(rng.randint(0, 2)) + "]) z]"
    if k == 16:
        return rng.choice(["#py ", "#queue "]) + rng.choice(["[", "("]) + seq(rng.randint(0, 2)) + rng.choice(["]", ")"])
    if k == 17:
        return ";" + rng.choice(["", " note", ";; x"]) + "\n" + sub()
    if k == 18:
        return "(" + sub() + "\n " + sub() + ")"
    return "(" + seq(rng.randint(1, 3)) + ")"


def gen_program(rng):
    n = rng.randint(1, 3)
    return rng.choice(["", " ", "\n"]).join(gen_form(rng, rng.randint(1, 3)) + rng.choice(["", " ", "\n"])
                                             for _ in range(n))


def line_endings(s, mode):
    if mode == 1:
        return s.replace("\n", "\r\n")
    if mode == 2:
        return s.replace("\n", "\r")
    return s


def edits(rng, s, n):
    alpha = ALPHA22 + ["\r", "\u00e9"]
    for _ in range(n):
        if not s:
            break
        i = rng.randrange(len(s))
        k = rng.randrange(3)
        if k == 0:
            yield s[:i] + s[i + 1:]
        elif k == 1:
            yield s[:i] + rng.choice(alpha) + s[i + 1:]
        else:
            yield s[:i] + rng.choice(alpha) + s[i:]


_LPY = None


def lpy_sources():
    global _LPY
    if _LPY is None:
        _LPY = []
        root = os.path.join(paths.REPO_SRC, "basilisp")
        for dp, dn, fn in os.walk(root):
            dn.sort()
            for f in sorted(fn):
                if f.endswith(".lpy"):
                    try:
                        _LPY.append(open(os.path.join(dp, f), encoding="utf-8").read())
                    except OSError:
                        pass
    return _LPY


def lpy_slices(rng, n):
    srcs = [t for t in lpy_sources() if len(t) > 400]
    for _ in range(n):
        if not srcs:
            return
        t = rng.choice(srcs)
        # start at the beginning of a top-level form when possible
        starts = [m.start() for m in re.finditer(r"^\(", t, re.M)]
        a = rng.choice(starts) if starts and rng.random() < 0.8 else rng.randrange(len(t) - 200)
        ln = rng.randint(20, 160)
        yield t[a:a + ln]


def cases(tier, rng):
    seen = set()

    def emit(s):
        if s in seen or len(s) > 6000:
            return None
        if any(0xD800 <= ord(c) <= 0xDFFF for c in s):
            return None
        seen.add(s)
        return {"s": s}

    def all_of(it):
        for s in it:
            c = emit(s)
            if c is not None:
                yield c

    thorough = tier != "quick"
    yield from all_of(REGRESSION)
    yield from all_of(_strings(ALPHA22, 4 if thorough else 2))
    if not thorough:
        # length 3 over the 24 characters: 13824 strings; the quick tier takes all that start with a
        # delimiter/dispatch character or contain one, i.e. all of them, but in a seeded half
        l3 = ["".join(t) for t in itertools.product(ALPHA22, repeat=3)]
        rng.shuffle(l3)
        yield from all_of(l3[:7000])
    yield from all_of(_strings(CORE9, 5 if thorough else 4))
    yield from all_of(_strings(NUM14, 4 if thorough else 3))
    yield from all_of(_strings(ID9, 4 if thorough else 3))
    more_num = ["".join(rng.choice(NUM14) for _ in range(rng.randint(4, 6))) for _ in range(6000 if thorough else 700)]
    yield from all_of(more_num)
    more_id = ["".join(rng.choice(ID9) for _ in range(rng.randint(4, 6))) for _ in range(3000 if thorough else 300)]
    yield from all_of(more_id)
    nprog = 400 if thorough else 45
    for i in range(nprog):
        p = line_endings(gen_program(rng), i % 3)
        yield from all_of([p])
        yield from all_of(p[:k] for k in range(len(p)))
        yield from all_of(edits(rng, p, 60 if thorough else 12))
    for sl in lpy_slices(rng, 1500 if thorough else 60):
        yield from all_of([sl])
        ks = sorted(set(rng.randrange(len(sl) + 1) for _ in range(40 if thorough else 6)))
        yield from all_of(sl[:k] for k in ks)
        yield from all_of(edits(rng, sl, 20 if thorough else 3))


def shrink(case):
    s = case["s"]
    for i in range(len(s)):
        yield {"s": s[:i] + s[i + 1:]}


def nontrivial(case, out):
    return len(case["s"]) > 0


def describe(case):
    return repr(case["s"])


# ---- oracle for CPython library calls ------------------------------------------------------------
def oracle(s):
    out = []
    qs = [i for i, c in enumerate(s) if c == '"']
    for a, b in zip(qs, qs[1:]):
        t = s[a + 1:b]
        if len(t) > 80:
            continue
        if a > 0 and s[a - 1] == "#":
            try:
                re.compile(t)
                out.append((0, t))
            except Exception:
                pass
        if "\\" in t:
            continue
        try:
            datetime.datetime.fromisoformat(t)
            out.append((1, t))
        except Exception:
            pass
        try:
            uuid.UUID("{" + t + "}")
            out.append((2, t))
        except Exception:
            pass
    return out


# ---- Gallina -------------------------------------------------------------------------------------
def gs(text):
    if not text:
        return "(@nil N)"
    return "[" + ";".join(str(ord(c)) for c in text) + "]"


def gl(ints):
    if not ints:
        return "(@nil N)"
    return "[" + ";".join(str(int(c)) for c in ints) + "]"


def gopt(s):
    return "None" if s is None else f"(Some {gs(s)})"


def gloc(loc):
    if loc is None:
        return "None"
    return "(Some (%d,%d,%d,%d))" % tuple(loc)


def gdec(neg, m, e):
    return f"(Dec {'true' if neg else 'false'} {int(m)} ({int(e)})%Z)"


def gforms(ts):
    if not ts:
        return "(@nil form)"
    return "[" + ";".join(gform(t) for t in ts) + "]"


def gform(t):
    k = t[0]
    if k == "nil":
        return "FNil"
    if k == "bool":
        return f"(FBool {'true' if t[1] else 'false'})"
    if k == "int":
        return f"(FNum (NInt ({int(t[1])})%Z))"
    if k == "float":
        return f"(FNum (NFloat {gdec(t[1], t[2], t[3])}))"
    if k == "dec":
        return f"(FNum (NDecimal {gdec(t[1], t[2], t[3])}))"
    if k == "ratio":
        return f"(FNum (NRatio ({int(t[1])})%Z ({int(t[2])})%Z))"
    if k == "complex":
        return f"(FNum (NComplex {gdec(t[1], t[2], t[3])}))"
    if k == "complexx":
        return "(FNum NBad)"
    if k == "special":
        return f"(FSpecial {t[1]})"
    if k == "str":
        return f"(FStr {gl(t[1])})"
    if k == "bytes":
        return f"(FBytes {gl(t[1])})"
    if k == "regex":
        return f"(FRegex {gl(t[1])})"
    if k == "kw":
        return f"(FKw {gopt(t[1])} {gs(t[2])})"
    if k == "sym":
        return f"(FSym {gopt(t[1])} {gs(t[2])} {gloc(t[3])})"
    if k in ("list", "vec", "map", "set"):
        ctor = {"list": "FList", "vec": "FVec", "map": "FMap", "set": "FSet"}[k]
        return f"({ctor} {gforms(t[1])} {gloc(t[2])})"
    if k == "queue":
        return f"(FQueue {gforms(t[1])})"
    if k == "py":
        return f"(FPy {t[1]} {gforms(t[2])})"
    if k == "inst":
        return "(FInst (@nil N))"
    if k == "uuid":
        return "(FUuid (@nil N))"
    if k == "tagged":
        return f"(FTagged {gform(t[1])} {gform(t[2])})"
    if k == "rcond":
        return f"(FRCond {'true' if t[1] else 'false'} {gforms(t[2])})"
    if k == "opaque":
        return "FOpaque"
    raise ValueError(k)


def coq_case(c):
    s = c["s"]
    orc = oracle(s)
    o = "[" + ";".join(f"({k},{gs(t)})" for k, t in orc) + "]" if orc else "(@nil (N * list N))"
    return f"(CRead {gs(s)} {o})"


def coq_out(o):
    r = o.get("r")
    try:
        if r == "forms":
            bad = o["bad"]
            b = "[" + ";".join("(%d,%d,%d,%d)" % tuple(x) for x in bad) + "]" if bad else "(@nil span)"
            return f"(OForms {gforms(o['fs'])} {b})"
        if r == "syn":
            if o["l"] is None or o["c"] is None:
                return "(OOther 98)"          # a SyntaxError without line/col
            return f"(OSyntax {o['l']} {o['c']})"
        if r == "eof":
            if o["l"] is None or o["c"] is None:
                return "(OOther 98)"
            return f"(OEof {o['l']} {o['c']})"
        if r == "other":
            return "(OOther 1)"
        if r == "alien":
            return "(OOther 99)"
    except Exception:
        return "OHarness"
    return "OHarness"


FINDINGS = {
    "F-16g": lambda c, o, tag: bool(tag & 1),
    "F-16h": lambda c, o, tag: bool(tag & 2),
    "F-16b": lambda c, o, tag: bool(tag & 4),
    "F-16i": lambda c, o, tag: bool(tag & 8),
}


def extra_evidence(cases_, outs):
    cls = {}
    for o in outs:
        cls[o.get("r", "harness")] = cls.get(o.get("r", "harness"), 0) + 1
    n_spans = sum(len(o.get("bad", [])) for o in outs)
    return {"outcome_classes": cls, "bad_spans_total": n_spans,
            "max_len": max((len(c["s"]) for c in cases_), default=0)}
