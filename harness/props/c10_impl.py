"""C10 implementation side.

A history case is executed on the real basilisp of /repo's working tree: fresh namespaces
(names made unique by substituting the placeholder '@' with a per-case prefix), every step
compiled and executed with the real compiler in the current namespace (*ns* is thread-bound for
the whole case, `in-ns` really switches it), every read compiled once per mode
(use_var_indirection x inline_functions) and executed.  Namespaces are in-memory ones
(`Namespace.require` falls back to the namespace cache when no file exists; the module
global assigned by `require*` and the alias are the same as for file-backed namespaces).

Thread bindings: a `push` step enters a binding of the interned Var, every following step up to
the `pop` that leaves it -- defs and reads compiled by the real compiler included -- runs inside
its dynamic extent.  "bind": "rt" calls runtime.push_thread_bindings / pop_thread_bindings (what
`binding` expands to); "bind": "form" compiles and runs the macro form
`(basilisp.core/binding [ns/name v] (c10h/cb))` where the Var c10h/cb holds a Python callback that
runs the following steps and returns at the pop step, so that the form's own try/finally leaves
the binding.
"""
import itertools
import os

from harness.props.c10 import expand

_counter = itertools.count()
_state = {}


def setup():
    from basilisp.lang import compiler, reader, runtime, symbol as sym, util
    nsvar = runtime.Var.find(sym.symbol("*ns*", ns="basilisp.core"))
    core = runtime.Namespace.get(sym.symbol("basilisp.core"))
    from basilisp.lang import map as lmap
    runtime.Namespace.get_or_create(sym.symbol("c10h"))
    _state["cbvar"] = runtime.Var.intern(sym.symbol("c10h"), sym.symbol("cb"), None)
    _state["lmap"] = lmap
    _state.update(
        compiler=compiler, reader=reader, runtime=runtime, sym=sym, util=util, nsvar=nsvar,
        alter=core.find(sym.symbol("alter-var-root")).value,
        constantly=core.find(sym.symbol("constantly")).value,
        pid=os.getpid())


def _ctx(ind, inl):
    c = _state["compiler"]
    return c.CompilerContext("<verif>", opts=c.compiler_opts(use_var_indirection=bool(ind),
                                                            inline_functions=bool(inl)))


def _eval(code, ctx):
    c, rd, rt = _state["compiler"], _state["reader"], _state["runtime"]
    last = None
    for form in rd.read_str(code, rt.resolve_alias):
        last = c.compile_and_exec_form(form, ctx, rt.get_current_ns())
    return last


def _obs(code, ctx):
    import builtins
    import types
    from basilisp.lang.compiler.exception import CompilerException
    try:
        v = _eval(code, ctx)
    except CompilerException as e:
        return "E2" if "private Var" in str(e) else "E1"
    except AttributeError:
        return "E3"
    except AssertionError as e:
        # analyzer.py:3857 is a bare `assert`; asserts with a message are another observable
        return "E9:AssertionError" if e.args else "E4"
    except Exception as e:  # any other class is an observable of its own
        return "E9:" + type(e).__name__
    if isinstance(v, bool):
        return "E9:bool"
    if isinstance(v, int):
        return v
    if isinstance(v, types.ModuleType):
        return "M"
    if getattr(builtins, getattr(v, "__name__", ""), None) is v:
        return "B"
    return "E9:" + type(v).__name__


def _root():
    return f"/tmp/c10-{_state['pid']}"


def _write_files(prefix, files):
    """file-backed namespaces: <root>/<munged ns path>.lpy on sys.path"""
    import importlib
    import sys
    root = _root()
    os.makedirs(root, exist_ok=True)
    if root not in sys.path:
        sys.path.insert(0, root)
        import atexit
        import shutil
        atexit.register(shutil.rmtree, root, True)
    munge = _state["util"].munge
    for ns, defs in files.items():
        path = os.path.join(root, *munge(ns).split(".")) + ".lpy"
        os.makedirs(os.path.dirname(path), exist_ok=True)
        with open(path, "w") as f:
            f.write(f"(ns {ns})\n")
            for n, fl, v in defs:
                f.write(f"(def {_meta(fl)}{n} {int(v)})\n")
    importlib.invalidate_caches()


def _remove_files(prefix):
    import shutil
    import sys
    shutil.rmtree(os.path.join(_root(), prefix), ignore_errors=True)
    try:
        os.rmdir(_root())          # workers are killed, not exited: leave nothing behind
    except OSError:
        pass
    for k in [k for k in sys.modules if k == prefix or k.startswith(prefix + ".")]:
        del sys.modules[k]


def _meta(fl):
    d, r, p = fl
    items = []
    if d:
        items.append(":dynamic true")
    if r:
        items.append(":redef true")
    if p:
        items.append(":private true")
    return "^{" + " ".join(items) + "} " if items else ""


def _spelling(q, n):
    return n if q is None else f"{q}/{n}"


def run_munge(case):
    munge = _state["util"].munge
    return {"munge": [[munge(s), munge(s, allow_builtins=True)] for s in case["l"]]}


def run(case):
    if case["k"] == "munge":
        return run_munge(case)
    rt, sym = _state["runtime"], _state["sym"]
    prefix = f"c10q{_state['pid']}x{next(_counter)}"

    def sub(s):
        return None if s is None else s.replace("@", prefix)

    nss = [sub(n) for n in case["nss"]]
    files = case.get("files") or {}
    if files:
        _write_files(prefix, {sub(ns): [(sub(n), fl, v) for n, fl, v in defs] for ns, defs in files.items()})
    modes = case["modes"]
    step_ctx = _ctx(0, 1)
    ctxs = [_ctx(ind, inl) for ind, inl in modes]
    created = set(nss)
    steps = case["steps"]
    nsteps = len(steps)
    out = [None] * nsteps
    bind = case.get("bind") or "rt"
    rt_depth = [0]          # frames pushed through runtime.push_thread_bindings and not yet popped
    for n in nss:
        rt.Namespace.get_or_create(sym.symbol(n))

    def interned(ns_name, name):
        ns = rt.Namespace.get(sym.symbol(sub(ns_name)))
        return ns.interns.val_at(sym.symbol(sub(name)), None) if ns is not None else None

    def base_step(op):
        ok, err = True, None
        try:
            if op[0] == "def":
                _eval(f"(def {_meta(op[2])}{sub(op[1])} {int(op[3])})", step_ctx)
            elif op[0] == "in-ns":
                created.add(sub(op[1]))
                _eval(f"(basilisp.core/in-ns '{sub(op[1])})", step_ctx)
            elif op[0] == "require":
                if op[2] is None:
                    _eval(f"(basilisp.core/require '{sub(op[1])})", step_ctx)
                else:
                    _eval(f"(basilisp.core/require '[{sub(op[1])} :as {sub(op[2])}])", step_ctx)
            elif op[0] == "refer":
                if op[2]:
                    names = " ".join(sub(x) for x in op[2])
                    _eval(f"(basilisp.core/refer '{sub(op[1])} :only '[{names}])", step_ctx)
                else:
                    _eval(f"(basilisp.core/refer '{sub(op[1])})", step_ctx)
            elif op[0] == "alter":
                var = interned(op[1], op[2])
                if var is None:
                    ok, err = False, "NoVar"
                else:
                    _state["alter"](var, _state["constantly"](int(op[3])))
            else:
                raise ValueError(f"bad op {op!r}")
        except Exception as e:
            ok, err = False, type(e).__name__
        return ok, err

    def reads_for(st):
        reads = []
        reads_of_step = expand(st["rf"])
        for ctx in ctxs:
            row = []
            for rns, loc, q, n in reads_of_step:
                code = _spelling(sub(q), sub(n))
                if loc is not None:
                    code = f"(let* [{sub(loc[0])} {int(loc[1])}] {code})"
                cur = rt.get_current_ns()
                target = rt.Namespace.get(sym.symbol(sub(rns)))
                if target is None:
                    row.append("E9:NoNamespace")
                elif target is cur:
                    row.append(_obs(code, ctx))
                else:
                    with rt.bindings({_state["nsvar"]: target}):
                        row.append(_obs(code, ctx))
            reads.append(row)
        return reads

    def record(i, ok, err):
        out[i] = {"ok": ok, "err": err, "reads": reads_for(steps[i])}

    def push_form(i):
        """(binding [ns/name v] (c10h/cb)): the callback runs the steps that follow, up to the pop
        step that leaves this form; returns the index of the next step to run outside the form"""
        op = steps[i]["op"]
        entered = []

        def cb():
            entered.append(True)
            record(i, True, None)                  # the push succeeded: we are inside the form
            entered.append(exec_from(i + 1, True))
            return None

        _state["cbvar"].bind_root(cb)
        err = None
        try:
            _eval(f"(basilisp.core/binding [{sub(op[1])}/{sub(op[2])} {int(op[3])}] (c10h/cb))", step_ctx)
        except Exception as e:
            err = type(e).__name__
        if not entered:                            # compile error or push-thread-bindings raised
            record(i, False, err or "NotEntered")
            return i + 1
        j = entered[1] if len(entered) > 1 else nsteps
        if j < nsteps:                             # left through steps[j]: the form's finally popped (or raised)
            record(j, err is None, err)
            return j + 1
        return nsteps                              # the history ended inside the form

    def exec_from(i, in_form):
        while i < nsteps:
            op = steps[i]["op"]
            if op[0] == "pop":
                if in_form:
                    return i
                if rt_depth[0] > 0:
                    rt_depth[0] -= 1               # pop_thread_bindings removes the frame before anything can raise
                    try:
                        rt.pop_thread_bindings()
                        record(i, True, None)
                    except Exception as e:
                        record(i, False, type(e).__name__)
                else:                              # no binding of ours is open (never pop the harness's own *ns* frame)
                    record(i, False, "NoFrame")
                i += 1
            elif op[0] == "push":
                if bind == "form":
                    i = push_form(i)
                    continue
                var = interned(op[1], op[2])
                if var is None:
                    record(i, False, "NoVar")
                else:
                    try:
                        rt.push_thread_bindings(_state["lmap"].map({var: int(op[3])}))
                        rt_depth[0] += 1
                        record(i, True, None)
                    except Exception as e:
                        record(i, False, type(e).__name__)
                i += 1
            else:
                ok, err = base_step(op)
                record(i, ok, err)
                i += 1
        return nsteps

    try:
        with rt.bindings({_state["nsvar"]: rt.Namespace.get(sym.symbol(nss[0]))}):
            try:
                exec_from(0, False)
            finally:
                while rt_depth[0] > 0:             # leave what the history left open (innermost first)
                    rt_depth[0] -= 1
                    try:
                        rt.pop_thread_bindings()
                    except Exception:
                        pass
    finally:
        if files:
            _remove_files(prefix)
            created |= {sub(ns) for ns in files}
        for n in created:
            try:
                rt.Namespace.remove(sym.symbol(n))
            except Exception:
                pass
    return {"prefix": prefix, "steps": [o if o is not None else {"ok": False, "err": "NotRun", "reads": []} for o in out]}
