"""C06 implementation side.

Single-threaded histories ("st") run inside the worker.  Multi-threaded scenarios ("mt") run in a
forked CHILD of the worker under a watchdog: a wedged interpreter (a thread blocked on a cell mutex
while holding the GIL) cannot even run a Python-level timeout, so the parent waits on a pipe and
kills the child.  At most one child per worker at a time.

JSON vocabulary (see harness/props/c06.py for the Gallina side):
  obj    : null | "E" | ["c", v, obj] | ["l", cell]
  action : ["y"] | ["w", e] | ["s", e] | ["t", cell] | ["r", obj] | ["rt", obj] | ["x"]
  iter   : {"list": [v | "x", ...]} | {"seq": obj}
  root   : ["o", obj] | ["map", fn, root] | ["filter", pred, root] | ["take", n, root]
           | ["iterate", fn, x] | ["concat", [root...]] | ["itseq", it]
  op     : ["first", r] | ["rest", r] | ["next", r] | ["seq", r] | ["count", r] | ["nth", r, i]
           | ["iter", r, n] | ["wait", e] | ["set", e]   (the last two only in "mt")
"""
import itertools
import json
import os
import select
import signal
import threading
import time

from harness.vlib import bl

WATCHDOG = float(os.environ.get("VERIF_C06_WATCHDOG", "10"))
JOIN_TIMEOUT = 4.0

_F = {}


class ProducerError(Exception):
    pass


class HarnessBad(Exception):
    pass


def setup():
    from basilisp.lang import seq as lseq
    _F["lseq"] = lseq
    for n in ("first", "rest", "next", "seq", "count", "nth", "map", "filter", "take", "iterate",
              "concat", "iterator-seq"):
        _F[n] = bl.core(n)


class ScriptIter:
    """A single-use Python iterator following a script: values, or an exception at that pull."""

    def __init__(self, items):
        self.items = list(items)

    def __iter__(self):
        return self

    def __next__(self):
        if not self.items:
            raise StopIteration
        x = self.items.pop(0)
        if x == "x":
            raise ProducerError()
        return x


class World:
    def __init__(self, case, threaded):
        lseq = _F["lseq"]
        self.threaded = threaded
        self.calls = []          # cell index appended at every producer start (list.append is atomic)
        self.throws = []
        self.fcalls = []
        self.tick = itertools.count()
        self.events = [threading.Event() for _ in range(case.get("nev", 0))]
        self.seen = {}           # thread index -> list of [cell, saw_nil]
        self.tl = threading.local()
        self.scripts = case["cells"]
        self.cells = [lseq.LazySeq(self.mkgen(i, s)) for i, s in enumerate(self.scripts)]
        self.iters = []
        for it in case.get("iters", []):
            if "list" in it:
                self.iters.append(ScriptIter(it["list"]))
            elif "seq" in it:
                self.iters.append(iter(self.build(it["seq"])))
            else:
                raise HarnessBad("iter")

    def tid(self):
        return getattr(self.tl, "i", 0)

    def build(self, o):
        lseq = _F["lseq"]
        if o is None:
            return None
        if o == "E":
            return lseq.EMPTY
        if o[0] == "c":
            return lseq.Cons(o[1], self.build(o[2]))
        if o[0] == "l":
            return self.cells[o[1]]
        raise HarnessBad(f"obj {o!r}")

    def mkgen(self, i, script):
        lseq = _F["lseq"]

        def body():
            for a in script:
                k = a[0]
                if k == "y":
                    time.sleep(0.002)                      # lets go of the GIL
                elif k == "w":
                    if not self.threaded and not self.events[a[1]].is_set():
                        raise HarnessBad("wait on an unset event in a single-threaded history")
                    self.events[a[1]].wait()
                elif k == "s":
                    self.events[a[1]].set()
                elif k == "t":
                    r = self.cells[a[1]].seq()
                    self.seen.setdefault(self.tid(), []).append([a[1], r is None])
                elif k == "r":
                    return self.build(a[1])
                elif k == "rt":
                    return lseq.Cons(next(self.tick), self.build(a[1]))
                elif k == "x":
                    raise ProducerError()
                else:
                    raise HarnessBad(f"action {a!r}")
            return None

        def gen():
            self.calls.append(i)
            try:
                return body()
            except ProducerError:
                self.throws.append(i)        # the generator of cell i raised (its own throw or one it let through)
                raise
        return gen

    def fn(self, f):
        k = f[0]

        def g(x):
            self.fcalls.append(1)
            if k == "add":
                return x + f[1]
            if k == "mul":
                return x * f[1]
            if k == "const":
                return f[1]
            raise HarnessBad("fn")
        return g

    def pred(self, p):
        k = p[0]

        def g(x):
            self.fcalls.append(1)
            if k == "true":
                return True
            if k == "false":
                return False
            if k == "even":
                return x % 2 == 0
            if k == "lt":
                return x < p[1]
            if k == "mod":
                return x % (p[1] + 1) == p[2]
            raise HarnessBad("pred")
        return g

    def root(self, r):
        k = r[0]
        if k == "o":
            return self.build(r[1])
        if k == "map":
            src = self.root(r[2])
            return _F["map"](self.fn(r[1]), src)
        if k == "filter":
            src = self.root(r[2])
            return _F["filter"](self.pred(r[1]), src)
        if k == "take":
            src = self.root(r[2])
            return _F["take"](r[1], src)
        if k == "iterate":
            return _F["iterate"](self.fn(r[1]), r[2])
        if k == "concat":
            srcs = [self.root(x) for x in r[1]]
            return _F["concat"](*srcs)
        if k == "itseq":
            return _F["iterator-seq"](self.iters[r[1]])
        raise HarnessBad(f"root {r!r}")

    def counts(self):
        n = len(self.cells)
        c, t = [0] * n, [0] * n
        for i in list(self.calls):
            c[i] += 1
        for i in list(self.throws):
            t[i] += 1
        return c, t


def kind(o):
    lseq = _F["lseq"]
    if o is None:
        return 0
    if o is lseq.EMPTY or type(o).__name__ == "_EmptySequence":
        return 1
    if isinstance(o, lseq.Cons):
        return 2
    if isinstance(o, lseq.LazySeq):
        return 3
    return 9


def val(v):
    if v is None:
        return {"v": None}
    if isinstance(v, int) and not isinstance(v, bool):
        return {"v": v}
    return {"x": 3, "cls": "value:" + type(v).__name__}


def do_op(w, op, regs):
    """Returns the observation; appends to regs for rest / next / seq."""
    k = op[0]
    pushes = k in ("rest", "next", "seq")
    try:
        if k == "wait":
            if not w.events[op[1]].wait(JOIN_TIMEOUT + 1):
                raise HarnessBad("event never set")
            return None
        if k == "set":
            w.events[op[1]].set()
            return None
        x = regs[op[1]] if op[1] < len(regs) else None
        if k == "first":
            return val(_F["first"](x))
        if k in ("rest", "next", "seq"):
            r = _F[k](x)
            regs.append(r)
            return {"k": kind(r)}
        if k == "count":
            return {"n": _F["count"](x)}
        if k == "nth":
            return val(_F["nth"](x, op[2]))
        if k == "iter":
            l = list(itertools.islice(iter(x), op[2]))
            if all(isinstance(v, int) and not isinstance(v, bool) for v in l):
                return {"l": l}
            return {"x": 3, "cls": "value"}
        raise HarnessBad(f"op {op!r}")
    except ProducerError:
        if pushes:
            regs.append(None)
        return {"x": 1}
    except IndexError:
        if pushes:
            regs.append(None)
        return {"x": 2}
    except HarnessBad:
        raise
    except Exception as e:  # pylint: disable=broad-except
        if pushes:
            regs.append(None)
        return {"x": 3, "cls": type(e).__name__}


def run_st(case):
    w = World(case, threaded=False)
    regs = [w.root(r) for r in case["roots"]]
    obs = [do_op(w, op, regs) for op in case["ops"]]
    c, t = w.counts()
    return {"obs": obs, "counts": c, "throws": t, "fcalls": len(w.fcalls),
            "seen": w.seen.get(0, []), "realized": [bool(x.is_realized) for x in w.cells]}


def _mt_child(case):
    w = World(case, threaded=True)
    lseq = _F["lseq"]
    for it in w.iters:
        w.cells.append(lseq.iterator_sequence(it))
    roots = [w.build(o) for o in case["roots"]]
    progs = case["threads"]
    obs = [[] for _ in progs]
    errs = []

    def body(i):
        w.tl.i = i
        regs = list(roots)
        try:
            for op in progs[i]:
                b = do_op(w, op, regs)
                if b is not None:
                    obs[i].append(b)
        except BaseException as e:  # pylint: disable=broad-except
            errs.append(f"{type(e).__name__}: {e}")

    ths = [threading.Thread(target=body, args=(i,), daemon=True) for i in range(len(progs))]
    for t in ths:
        t.start()
    deadline = time.time() + JOIN_TIMEOUT
    for t in ths:
        t.join(max(0.0, deadline - time.time()))
    if any(t.is_alive() for t in ths):
        return {"wedged": True, "how": "threads parked for ever (join timeout)"}
    if errs:
        return {"__error__": "mt-thread", "msg": errs[0][:300]}
    c, t = w.counts()
    n = len(w.scripts)
    return {"obs": obs, "counts": c[:n], "throws": t[:n],
            "seen": [w.seen.get(i, []) for i in range(len(progs))]}


def run_mt(case):
    r, wfd = os.pipe()
    pid = os.fork()
    if pid == 0:
        code = 0
        try:
            os.close(r)
            signal.setitimer(signal.ITIMER_REAL, 0)
            try:
                res = _mt_child(case)
            except BaseException as e:  # pylint: disable=broad-except
                res = {"__error__": "mt-child", "msg": f"{type(e).__name__}: {e}"[:300]}
            os.write(wfd, json.dumps(res).encode())
        except BaseException:  # pylint: disable=broad-except
            code = 1
        finally:
            os._exit(code)
    os.close(wfd)
    try:
        data = b""
        deadline = time.time() + WATCHDOG
        while True:
            left = deadline - time.time()
            if left <= 0:
                return {"wedged": True, "how": "watchdog"}
            rl, _, _ = select.select([r], [], [], left)
            if not rl:
                return {"wedged": True, "how": "watchdog"}
            chunk = os.read(r, 1 << 16)
            if not chunk:
                break
            data += chunk
        if not data:
            return {"__error__": "mt-child-died"}
        return json.loads(data)
    finally:
        os.close(r)
        try:
            os.kill(pid, signal.SIGKILL)
        except ProcessLookupError:
            pass
        try:
            os.waitpid(pid, 0)
        except ChildProcessError:
            pass


def run(case):
    if case["k"] == "st":
        return run_st(case)
    if case["k"] == "mt":
        return run_mt(case)
    return {"__error__": "bad-case"}
