"""C04 implementation side: runs one branching history of collection operations on the real
basilisp (functions of basilisp.core, called as functions) and reports what it observed.

case  = {"ops": [op, ...]}      op = [name, operand ...]; operands that are earlier results
                                are given by position
result= {"obs": [r, ...],       one observation per operation, taken when it was produced
         "stable": [bool, ...], re-reading result i after the whole history gives the same
         "cells": [coll, ...]}  final contents of every transient (through persistent!)

observations:  {"c": [kind, contents, meta]}  persistent collection (kind V L Q M S; contents by
                                              iteration, maps as [k, v] pairs; meta = n of {:m n})
               {"t": a}                       transient number a (numbered by identity, in order
                                              of first appearance)
               {"v": elem} {"b": bool} {"n": int} {"s": [ordered, elems]} {"e": class}
variadic ops:  ["dissocn", i, [k ..]] ["disjn", i, [x ..]] ["assocn", i, [[k, v] ..]] and the transient
               ["conj!n", i, [x ..]] ["assoc!n", i, [[k, v] ..]] ["dissoc!n", i, [k ..]] ["disj!n", i, [x ..]]
               are performed as ONE call (dissoc m k1 k2 ..) etc. and give one observation
elements:      null, true/false, int, {"f": z} (the float z.0), {"k": n} (keyword :kn),
               {"o": n} (object with identity equality whose hash collides with 1), [elems] (vector)
"""
from harness.vlib import bl

_f = {}
_NF = object()

EXC = {"IndexError": 1, "TypeError": 2, "ValueError": 3, "AttributeError": 4, "KeyError": 5,
       "ExceptionInfo": 6}


class Colliding:
    """identity equality, hash equal to hash(1) == hash(1.0) == hash(True)"""
    __slots__ = ("n",)

    def __init__(self, n):
        self.n = n

    def __hash__(self):
        return 1

    def __repr__(self):
        return f"#obj{self.n}"


def setup():
    for name in ("conj", "assoc", "dissoc", "disj", "pop", "peek", "into", "empty", "with-meta",
                 "meta", "update", "merge", "seq", "rseq", "count", "nth", "get", "contains?",
                 "transient", "persistent!", "conj!", "assoc!", "dissoc!", "disj!", "pop!", "=",
                 "vector", "list", "queue", "hash-map", "hash-set", "hash"):
        _f[name] = bl.core(name)
    _f["upd"] = bl.ev("(fn [old] [:k99 old])")
    from basilisp.lang import keyword as kw, map as lmap, vector as vec, list as llist, set as lset, \
        queue as lqueue
    _f["kw"] = kw.keyword
    _f["M"] = kw.keyword("m")
    _f["lmap"] = lmap
    _f["vec"] = vec
    _f["types"] = {vec.PersistentVector: "V", vec.MapEntry: "V", llist.PersistentList: "L",
                   lqueue.PersistentQueue: "Q", lmap.PersistentMap: "M", lset.PersistentSet: "S"}
    _f["ttypes"] = (vec.TransientVector, lmap.TransientMap, lset.TransientSet)


class Ctx:
    def __init__(self):
        self.objs = {}
        self.cells = []

    def elem(self, j):
        if j is None or isinstance(j, (bool, int)):
            return j
        if isinstance(j, list):
            return _f["vec"].vector([self.elem(x) for x in j])
        if "f" in j:
            return float(j["f"])
        if "k" in j:
            return _f["kw"](f"k{j['k']}")
        if "o" in j:
            return self.objs.setdefault(j["o"], Colliding(j["o"]))
        raise ValueError(j)

    def addr(self, t):
        for a, c in enumerate(self.cells):
            if c is t:
                return a
        self.cells.append(t)
        return len(self.cells) - 1


def enc(x):
    """a Python value as an element"""
    if x is None or isinstance(x, bool):
        return x
    if isinstance(x, int):
        return x
    if isinstance(x, float):
        return {"f": int(x)} if x == int(x) else {"?": "float"}
    if isinstance(x, Colliding):
        return {"o": x.n}
    t = type(x)
    if _f["types"].get(t) == "V":
        return [enc(e) for e in x]
    from basilisp.lang import keyword as kw
    if isinstance(x, kw.Keyword) and x.ns is None and x.name.startswith("k") and x.name[1:].isdigit():
        return {"k": int(x.name[1:])}
    return {"?": t.__name__}


def meta_of(x):
    m = x.meta
    if m is None:
        return None
    v = m.val_at(_f["M"]) if hasattr(m, "val_at") else None
    return v if isinstance(v, int) and not isinstance(v, bool) and v >= 0 and len(m) == 1 else -1


def contents(x, kind):
    if kind == "M":
        return [[enc(k), enc(v)] for k, v in x.items()]
    return [enc(e) for e in x]


def observe(ctx, how, x):
    """how: 'coll' (the operation returns a collection, nil or a transient), 'val', 'bool',
    'num', 'meta', or ('seq', ordered)"""
    if how == "bool":
        return {"b": x} if isinstance(x, bool) else {"e": 70}
    if how == "num":
        return {"n": x} if isinstance(x, int) and not isinstance(x, bool) else {"e": 70}
    if how == "val":
        return {"v": enc(x)}
    if how == "meta":
        if x is None:
            return {"v": None}
        v = x.val_at(_f["M"]) if hasattr(x, "val_at") else None
        return {"n": v} if isinstance(v, int) and len(x) == 1 else {"e": 70}
    if isinstance(how, tuple):
        if x is None:
            return {"v": None}
        return {"s": [how[1], [enc(e) for e in x]]}
    # collection-valued
    if x is None:
        return {"v": None}
    if isinstance(x, _f["ttypes"]):
        return {"t": ctx.addr(x)}
    kind = _f["types"].get(type(x))
    if kind is None:
        return {"e": 77, "type": type(x).__name__}
    return {"c": [kind, contents(x, kind), meta_of(x)]}


def usable(slot):
    how, x, ob = slot
    if ob == {"v": None}:          # nil, whatever produced it
        return True
    return how == "coll" and ("c" in ob or "t" in ob)


def is_unordered(x):
    return _f["types"].get(type(x)) in ("M", "S")


def do(ctx, slots, op):
    """returns (how, python value)"""
    name = op[0]
    F = _f

    def S(i):
        if not (isinstance(i, int) and 0 <= i < len(slots)) or not usable(slots[i]):
            raise BadRef()
        return slots[i][1]

    E = ctx.elem
    if name == "nil":
        return "coll", None
    if name == "new":
        k, l = op[1], [E(x) for x in op[2]]
        if k == "V":
            return "coll", F["vector"](*l)
        if k == "L":
            return "coll", F["list"](*l)
        if k == "Q":
            return "coll", F["queue"](F["vec"].vector(l))
        if k == "S":
            return "coll", F["hash-set"](*l)
        raise ValueError(k)
    if name == "newmap":
        flat = []
        for k, v in op[1]:
            flat += [E(k), E(v)]
        return "coll", F["hash-map"](*flat)
    if name == "conj":
        return "coll", F["conj"](S(op[1]), *[E(x) for x in op[2]])
    if name == "assoc":
        return "coll", F["assoc"](S(op[1]), E(op[2]), E(op[3]))
    if name == "dissoc":
        return "coll", F["dissoc"](S(op[1]), E(op[2]))
    if name == "disj":
        return "coll", F["disj"](S(op[1]), E(op[2]))
    if name == "pop":
        return "coll", F["pop"](S(op[1]))
    if name == "peek":
        return "val", F["peek"](S(op[1]))
    if name == "into":
        return "coll", F["into"](S(op[1]), S(op[2]))
    if name == "empty":
        return "coll", F["empty"](S(op[1]))
    if name == "wm":
        m = None if op[2] is None else F["lmap"].map({F["M"]: op[2]})
        return "coll", F["with-meta"](S(op[1]), m)
    if name == "meta":
        return "meta", F["meta"](S(op[1]))
    if name == "update":
        return "coll", F["update"](S(op[1]), E(op[2]), F["upd"])
    if name == "merge":
        return "coll", F["merge"](S(op[1]), S(op[2]))
    if name == "seq":
        src = S(op[1])
        return ("seq", not is_unordered(src)), F["seq"](src)
    if name == "rseq":
        return ("seq", True), F["rseq"](S(op[1]))
    if name == "count":
        return "num", F["count"](S(op[1]))
    if name == "nth":
        if len(op) > 3:
            return "val", F["nth"](S(op[1]), E(op[2]), E(op[3]))
        return "val", F["nth"](S(op[1]), E(op[2]))
    if name == "get":
        if len(op) > 3:
            return "val", F["get"](S(op[1]), E(op[2]), E(op[3]))
        return "val", F["get"](S(op[1]), E(op[2]))
    if name == "contains":
        return "bool", F["contains?"](S(op[1]), E(op[2]))
    if name == "transient":
        return "coll", F["transient"](S(op[1]))
    if name == "persistent":
        return "coll", F["persistent!"](S(op[1]))
    if name == "conj!":
        return "coll", F["conj!"](S(op[1]), E(op[2]))
    if name == "assoc!":
        return "coll", F["assoc!"](S(op[1]), E(op[2]), E(op[3]))
    if name == "dissoc!":
        return "coll", F["dissoc!"](S(op[1]), E(op[2]))
    if name == "disj!":
        return "coll", F["disj!"](S(op[1]), E(op[2]))
    if name == "pop!":
        return "coll", F["pop!"](S(op[1]))
    # variadic calls: ONE call of the core function with all the arguments
    if name in ("dissocn", "disjn", "conj!n", "dissoc!n", "disj!n"):
        return "coll", F[name[:-1]](S(op[1]), *[E(x) for x in op[2]])
    if name in ("assocn", "assoc!n"):
        flat = []
        for k, v in op[2]:
            flat += [E(k), E(v)]
        return "coll", F[name[:-1]](S(op[1]), *flat)
    if name == "eq":
        a, b = S(op[1]), S(op[2])
        r = F["="](a, b)
        if r is True and type(a) is type(b) and F["types"].get(type(a)):
            if F["hash"](a) != F["hash"](b):
                raise HashMismatch()
        return "bool", r
    raise ValueError(name)


class BadRef(Exception):
    pass


class HashMismatch(Exception):
    pass


def run(case):
    ctx = Ctx()
    slots = []
    for op in case["ops"]:
        try:
            how, x = do(ctx, slots, op)
            ob = observe(ctx, how, x)
        except BadRef:
            how, x, ob = "err", None, {"e": 0}
        except HashMismatch:
            how, x, ob = "err", None, {"e": 8}
        except Exception as e:  # the exception class is the observation
            how, x, ob = "err", None, {"e": EXC.get(type(e).__name__, 7), "cls": type(e).__name__}
        slots.append((how, x, ob))
    stable = []
    for how, x, ob in slots:
        if how == "err":
            stable.append(True)
            continue
        try:
            again = observe(ctx, how, x)
        except Exception:
            again = None
        stable.append(again == ob)
    cells = []
    for t in list(ctx.cells):
        try:
            p = _f["persistent!"](t)
            kind = _f["types"].get(type(p))
            cells.append([kind, contents(p, kind)] if kind else ["?", []])
        except Exception as e:
            cells.append(["?", [], type(e).__name__])
    return {"obs": [s[2] for s in slots], "stable": stable, "cells": cells}
