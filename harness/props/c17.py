"""C17 -- compare is a consistent total order and sort returns the ordered permutation."""
import itertools

from harness.vlib import gallina as G

ID = "C17"
TITLE = "compare is a consistent total order and sort returns the ordered permutation"
CORR = "Verif.C17.Corr"
CORR_TARGETS = ["theories/C17/Corr.vo"]
TARGETS = ["theories/Properties/C17.vo"]
PROPERTIES_FILE = "theories/Properties/C17.v"
IMPL = "harness.props.c17_impl"
TABLE_DEPS = ["kw_lt", "sym_lt", "vector_lt_shape"]
SHARD = 500
RULE = ("pairs and triples: exhaustive over a 12-element universe (+nil) per family "
        "(num, str, kw, sym, vec num, vec kw, vec vec num); sort/sort-by: all permutations of "
        "chosen multisets (quick <=5, thorough <=6 elements) with ties, default and reversed "
        "3-way comparator, plus random longer inputs. A case is non-trivial when its operands "
        "are not all identical; distinct = distinct JSON encoding.")
TRUSTED = ["CPython's sorted() is modelled as a stable sort (theorem C17_any_stable_sort_agrees "
           "shows every stable sort agrees with the model for distinct keys)",
           "Python int/float/Fraction/Decimal comparison is modelled as exact rational comparison; "
           "NaN and infinities are outside the numeric family",
           "str comparison is modelled as code-point lexicographic order"]
ASSUMPTIONS = ["vectors are homogeneous (elements of one family); nil inside vectors is outside the family",
               "functools.total_ordering derives __gt__ as `not (a < b) and a != b` (transcribed)"]
FINDINGS = {}
EXHAUSTIVE = {"quick": False, "thorough": False}


def N(n, d=1, py="int"):
    return {"py": py, "n": n, "d": d}


UNIV = {
    "num": [N(-2), N(-1), N(0), N(1), N(1, 1, "float"), N(1, 2, "ratio"), N(1, 2, "float"),
            N(3, 2, "dec"), N(2), N(10 ** 20), N(-10 ** 20 + 1), N(10 ** 20, 1, "float"),
            # a double that is not a decimal fraction next to the decimals/ratios it rounds from: 0.1 (the double),
            # 0.1M, 1/10, 0.10000000000000001M, 0.3 (the double), 0.3M -- exact comparison must tell them apart
            N(3602879701896397, 36028797018963968, "float"), N(1, 10, "dec"), N(1, 10, "ratio"),
            N(10000000000000001, 10 ** 17, "dec"), N(5404319552844595, 18014398509481984, "float"), N(3, 10, "dec")],
    "str": ["", "a", "b", "ab", "aa", "B", "é", "z", "a\u0000", "中", "\U0001f600", "ba"],
    "kw": [[None, "a"], [None, "b"], ["a", "a"], ["a", "b"], ["b", "a"], ["b", "b"], ["ab", "a"],
           ["a", "ab"], [None, "ab"], ["b", "ab"], ["ab", "b"], ["a.b", "c"]],
}
UNIV["sym"] = UNIV["kw"]
VEC_UNIV = {
    ("vec", "num"): [[], [N(0)], [N(1)], [N(1, 1, "float")], [N(0), N(5)], [N(1), N(0)], [N(1), N(1)],
                     [N(0), N(0), N(0)], [N(-1)], [N(1), N(2)], [N(2), N(1)], [N(1, 2, "ratio"), N(7)]],
    ("vec", "kw"): [[], [[None, "a"]], [["a", "b"]], [["b", "a"]], [["a", "b"], ["b", "a"]],
                    [["b", "a"], ["a", "b"]], [["a", "a"], ["a", "a"]], [[None, "b"], [None, "a"]],
                    [["a", "b"], ["a", "b"]], [[None, "z"]], [["b", "b"]], [[None, "a"], [None, "a"], [None, "a"]]],
    ("vec", ("vec", "num")): [[], [[]], [[N(1)]], [[], []], [[N(1)], []], [[], [N(1)]], [[N(1), N(2)]],
                              [[N(2)], [N(1)]], [[N(1)], [N(2)]], [[N(0)], [N(0)], [N(0)]], [[N(2)]], [[N(1, 1, "float")]]],
    ("vec", "str"): [[], ["a"], ["b"], ["a", "a"], ["", "b"], ["ab"], ["a", "b"], ["b", "a"], [""], ["", ""],
                     ["é"], ["z", ""]],
}


def tyj(t):
    return t if isinstance(t, str) else ["vec", tyj(t[1])]


def families():
    for t in ("num", "str", "kw", "sym"):
        yield t, UNIV[t]
    for t, u in VEC_UNIV.items():
        yield t, u


def cases(tier, rng):
    fams = list(families())
    for t, u in fams:
        uu = [None] + u
        for x in uu:
            for y in uu:
                yield {"k": "pair", "t": tyj(t), "x": x, "y": y}
    for t, u in fams:
        uu = [None] + u
        triples = list(itertools.product(uu, repeat=3))
        if tier == "quick":
            triples = rng.sample(triples, 500)
        for x, y, z in triples:
            yield {"k": "triple", "t": tyj(t), "x": x, "y": y, "z": z}
    maxn = 5 if tier == "quick" else 6
    for t, u in fams:
        uu = [None] + u
        for n in range(0, maxn + 1):
            base = [uu[(3 * i + 1) % len(uu)] for i in range(n)]
            if n >= 3:
                base[2] = base[0]          # a tie
            perms = list(itertools.permutations(range(n)))
            if tier == "quick" and len(perms) > 60:
                perms = rng.sample(perms, 60)
            for p in perms:
                l = [base[i] for i in p]
                for rev in (False, True):
                    yield {"k": "sort", "t": tyj(t), "rev": rev, "l": l}
                    yield {"k": "sortby", "t": tyj(t), "rev": rev, "l": l}
        for _ in range(40 if tier == "quick" else 600):
            n = rng.randint(7, 40)
            l = [rng.choice(uu) for _ in range(n)]
            yield {"k": rng.choice(["sort", "sortby"]), "t": tyj(t), "rev": rng.random() < 0.3, "l": l}


# ---- Gallina ---------------------------------------------------------------------------
def coq_ty(t):
    if isinstance(t, str):
        return {"num": "TNum", "str": "TStr", "kw": "TKw", "sym": "TSym"}[t]
    return f"(TVec {coq_ty(t[1])})"


def coq_val(t, v):
    if t == "num":
        return f"(({v['n']})#({v['d']}))%Q" if v["n"] >= 0 else f"(({v['n']})#{v['d']})%Q"
    if t == "str":
        return G.s(v)
    if t in ("kw", "sym"):
        return f"({G.opt(v[0], G.s, 'str')}, {G.s(v[1])})"
    inner = t[1]
    if not v:
        return f"(@nil (val {coq_ty(inner)}))"
    return "[" + "; ".join(coq_val(inner, e) for e in v) + "]"


def coq_oval(t, v):
    if v is None:
        return f"(@None (val {coq_ty(t)}))"
    return f"(@Some (val {coq_ty(t)}) {coq_val(t, v)})"


def coq_case(c):
    t = c["t"]
    T = coq_ty(t)
    if c["k"] == "pair":
        return f"(CPair {T} {coq_oval(t, c['x'])} {coq_oval(t, c['y'])})"
    if c["k"] == "triple":
        return f"(CTriple {T} {coq_oval(t, c['x'])} {coq_oval(t, c['y'])} {coq_oval(t, c['z'])})"
    ctor = "CSort" if c["k"] == "sort" else "CSortBy"
    items = [coq_oval(t, e) for e in c["l"]]
    lst = "[" + "; ".join(items) + "]" if items else f"(@nil (option (val {T})))"
    return f"({ctor} {T} {G.b(c['rev'])} {lst})"


def coq_out(o):
    if "ints" in o:
        if all(isinstance(i, int) and not isinstance(i, bool) for i in o["ints"]):
            return "(OInts " + G.lst([G.z(i) for i in o["ints"]], "Z") + ")"
        return "(OErr 2%N)"
    if "perm" in o:
        if all(isinstance(i, int) for i in o["perm"]):
            return "(OPerm " + G.lst([G.n(i) for i in o["perm"]], "N") + ")"
        return "(OErr 2%N)"
    if o.get("err") == "TypeError":
        return "(OErr 1%N)"
    if o.get("__timeout__") or o.get("__hang__"):
        return "(OErr 3%N)"
    return "(OErr 2%N)"


def nontrivial(c, o):
    if c["k"] == "pair":
        return c["x"] != c["y"]
    if c["k"] == "triple":
        return not (c["x"] == c["y"] == c["z"])
    return len(c["l"]) >= 2


def describe(c):
    return f"{c['k']} over family {c['t']}"


def shrink(c):
    if c["k"] in ("sort", "sortby"):
        l = c["l"]
        for i in range(len(l)):
            yield dict(c, l=l[:i] + l[i + 1:])


def extra_evidence(cases_, outs):
    dist = {}
    for c in cases_:
        key = f"{c['k']}:{c['t'] if isinstance(c['t'], str) else 'vec'}"
        dist[key] = dist.get(key, 0) + 1
    return {"input_distribution": dist}
