"""C03 -- readable printing round-trips through the reader."""
import decimal
import json
import math
import os
import re
import struct

from harness.vlib import gallina as G
from harness.vlib import paths

ID = "C03"
TITLE = "Readable printing round-trips through the reader"
CORR = "Verif.C03.Corr"
CORR_TARGETS = ["theories/C03/Corr.vo"]
TARGETS = ["theories/Properties/C03.vo"]
PROPERTIES_FILE = "theories/Properties/C03.v"
IMPL = "harness.props.c03_impl"
TAGGED = True
SHARD = 800
NWORKERS = 3
TABLE_DEPS = ["pr_str_escapes", "pr_delims", "pr_fstrings", "pr_special_floats", "pr_separators",
              "pr_lrepr_types", "pr_print_defaults", "pr_trunc_guards", "rd_str_escapes", "rd_bytes_escapes", "rd_numeric_constants",
              "rd_dispatch", "rd_macro_dispatch", "rd_ns_term_exempt", "rd_unicode_lens", "rd_uc_space"]
EXHAUSTIVE = {"quick": False, "thorough": False}
# Sensitivity runs: VERIF_C03_SRC=<copy of /repo/src> makes the implementation workers import basilisp from that
# copy (the native overlay, the translator and the Coq side keep looking at /repo).
_SRC = os.environ.get("VERIF_C03_SRC")
if _SRC:
    WORKER_ENV = {"PYTHONPATH": _SRC + os.pathsep + paths.VERIF}

# Finding signatures: the defect tag is computed in Coq (Guard.tag_of) from the executable guards
# of the partial theorems; the verdict logic additionally requires implementation = model.
FINDINGS = {
    "F-03d": lambda c, o, tag: bool(tag & 1),      # regex pattern the printer has to escape
    "F-03e": lambda c, o, tag: bool(tag & 2),      # integer above 4300 digits
    "F-03f": lambda c, o, tag: bool(tag & 4),      # bytes containing a double quote
    "F-03g": lambda c, o, tag: bool(tag & 8),      # imaginary number printed with exponent / inf / nan / -0
    "F-03h": lambda c, o, tag: bool(tag & 16),     # constructible keyword/symbol name outside the reader's token language
    "F-03i": lambda c, o, tag: bool(tag & 32),     # Decimal NaN / Infinity
    "F-03j": lambda c, o, tag: bool(tag & 64),     # namespace-prefixed map: symbol key nil/true/false or with metadata
    "F-03l": lambda c, o, tag: bool(tag & 256),    # read-string of the keyword :eofthrow
    "F-03k": lambda c, o, tag: bool(tag & 128),    # *print-meta*: the reader's location keys are printed back
}

RULE = ("One case = (value, print settings, path): the value is built in the worker, printed with the readable "
        "printer, the text is read back (ALL forms), the first form is printed again.  Observable: printed text as code "
        "points, number of forms, the re-read value with its type (sets/maps unordered, floats by repr, metadata modulo "
        "the reader's four location keys), whether re-printing gives the same text, whether two printings agree.  "
        "Paths: obj.lrepr + reader.read_str, and pr-str + read-seq/read-string under `binding`.  Generators: every "
        "string of length <= 2 (thorough: <= 3) over 16 escape-relevant characters (quote, backslash, a n u x 0 f, "
        "space, U+0000 U+001F U+007F U+0080 U+00E9 U+4E2D U+1F600) through both paths; random Unicode strings up to "
        "length 40 (ASCII, Latin-1, BMP, astral, lone surrogates); integers incl. 4300/4301 digits; floats over "
        "boundary exponents, subnormals, +-0, inf, nan, and random bit patterns; ratios; decimals (with and without "
        "*print-dup*); imaginary numbers; keywords/symbols over a pool of names (readable and unreadable ones) x "
        "namespaces; uuids, instants, regex patterns, byte strings; random nested lists/vectors/sets/maps/queues/#py "
        "collections with metadata, under all 8 combinations of *print-dup* *print-meta* *print-namespace-maps*.  "
        "*print-length* / *print-level*: nil everywhere above; with *print-dup* true (which claims readability "
        "whatever the limits are) all 15 non-nil combinations of length in {nil,0,1,2} x level in {nil,0,1,2}, "
        "passed as print_length / print_level to obj.lrepr and bound around pr-str, over (a) towers: each of the 9 "
        "collection kinds (list vector set queue map, #py list tuple set dict) nested 3 deep (thorough: 4) in itself "
        "(a #py set holds #py tuples), 4 elements per level, metadata at every level that can carry it, every "
        "combination, both paths for the 6 combinations with one limit (thorough: for all); (b) every ordered pair of "
        "kinds (outer kind containing the inner kind containing a vector, 4 elements per level, namespaced and plain "
        "map keys) plus collection-valued map keys, a symbol with deep metadata and a set of maps/sets/queues, 2 limit "
        "combinations per value (thorough: all 15); (c) random nested values with random limits: the text must be the "
        "text the model prints with both limits nil and must read back to the value.  With *print-dup* false and "
        "non-nil limits (no claim of readability) 45 tower cases (thorough: 135) are printed as well and the "
        "abbreviated text (... and #) is compared with the model's.  "
        "Non-trivial = anything but nil/empty string; distinct = distinct case JSON.")
TRUSTED = [
    "CPython repr(float)/float(str) enter the theorems as hypotheses H_float_repr_inverse (py_float t = Some t on "
    "repr tokens) and H_repr_grammar (repr tokens satisfy the executable repr_grammar); the same for "
    "str(Decimal)/Decimal(str) (H_dec_*), complex (H_imag_*), uuid.UUID and datetime.isoformat/fromisoformat "
    "(H_uuid, H_inst) and re.compile (re_ok); in the correspondence run these functions are the identity on "
    "tokens except for an oracle table computed with CPython for the number-like tokens of the printed text",
    "CPython str(int)/int(str) modelled by C19's dec_Z/py_int; the 4300-digit limit is a guard (F-03e)",
    "CPython's unicode_escape codec and repr(bytes) are written out (py_unicode_escape, bytes_repr_body) and "
    "compared with the real ones on every generated regex/bytes case",
    "Python's \\s, \\d and str.isnumeric are approximated: C19's is_ws (checked against the regenerated rd_uc_space "
    "table by C03_table_whitespace) and the ASCII digits",
    "the reader is modelled on the printer's output language only (error class 7 = outside the model)",
    "sets and maps are lists in the order the implementation walks them (the worker reports that order)",
    "harness/tr/tr_printer.py and harness/tr/tr_reader.py (ast-based table extraction; pr_trunc_guards reads "
    "whether the four truncation tests of seq_lrepr / map_lrepr start with `not print_dup and`, refuses any other "
    "shape and any other user of the two truncation markers)",
]
ASSUMPTIONS = [
    "*print-length* and *print-level* are nil, or *print-dup* is true (with *print-dup* false any other setting "
    "prints ... or # and does not claim readability); the limits are nil or non-negative integers (booleans, "
    "which Python counts as int, and negative lengths are outside); *print-readably* is true",
    "values handed to the real code have pairwise distinct set members / map keys under Python equality",
    "metadata is compared modulo the four location keys the reader attaches; empty metadata = no metadata",
    "the reader's duplicate-key / duplicate-member detection is not modelled (the printer never emits duplicates)",
]

# ---- generators ------------------------------------------------------------------------
ALPHA = ['"', "\\", "a", "n", "u", "x", "0", "f", " ", "\x00", "\x1f", "\x7f", "\x80", "\xe9", "中", "\U0001f600"]
PCS = [[d, m, n] for d in (False, True) for m in (False, True) for n in (False, True)]
PC0 = [False, False, False]


def S(text):
    return ["s", [ord(c) for c in text]]


def strings_upto(alpha, n):
    out = [""]
    layer = [""]
    for _ in range(n):
        layer = [s + c for s in layer for c in alpha]
        out.extend(layer)
    return out


def rand_string(rng):
    n = rng.randint(0, 40)
    out = []
    for _ in range(n):
        r = rng.random()
        if r < 0.35:
            out.append(rng.randint(32, 126))
        elif r < 0.5:
            out.append(rng.choice([34, 92, 10, 13, 9, 7, 8, 11, 12, 0, 27, 127]))
        elif r < 0.65:
            out.append(rng.randint(128, 255))
        elif r < 0.85:
            c = rng.randint(256, 0xFFFF)
            out.append(c if not 0xD800 <= c <= 0xDFFF or rng.random() < 0.2 else 0x4E2D)
        else:
            out.append(rng.randint(0x10000, 0x10FFFF))
    return ["s", out]


INTS = [0, 1, -1, 7, -42, 10, 100, 255, 2 ** 31, -2 ** 31, 2 ** 63, -2 ** 63 - 1, 10 ** 20, -10 ** 30 + 1, 2 ** 200,
        10 ** 300, -(10 ** 299) + 1]
INTS_AT_LIMIT = [10 ** 4300 - 1]          # 4300 digits: printable; minutes of vm_compute in the model (thorough only)
INTS_TOO_LONG = [10 ** 4300, -(10 ** 4300), 7 * 10 ** 5000]
FLOATS = ["0.0", "-0.0", "1.0", "-1.0", "1.5", "0.1", "0.5", "100.0", "123456789012345.6", "1234567890123456.0",
          "9007199254740992.0", "9007199254740994.0", "1e+16", "-1e+16", "1.2e+16", "1e+22", "1e+23", "-1e+23",
          "1.5e+300", "1e+100", "1.7976931348623157e+308", "-1.7976931348623157e+308", "0.0001", "1e-05", "-1e-07",
          "2.5e-05", "5e-324", "-5e-324", "1e-323", "2.2250738585072014e-308", "2.225073858507201e-308",
          "1.401298464324817e-45", "3.4028234663852886e+38", "1.1754943508222875e-38", "0.30000000000000004",
          "1e+21", "123456.789", "6.02214076e+23", "6.62607015e-34", "inf", "-inf", "nan"]
RATIOS = [(1, 2), (-1, 2), (22, 7), (-22, 7), (1, 3), (10 ** 20 + 1, 10 ** 20), (-7, 2), (1, 10 ** 30), (355, 113)]
DECIMALS = ["0", "-0", "1", "1.5", "1.50", "-1.50", "0.1", "0.05", "0.00", "100", "1E+5", "-1E+5", "1.5E+10", "0E-7",
            "0E+3", "-0.000001", "0.000001", "1E-7", "1E-10", "1.234E-8", "123456789.123456789", "3.14", "7E+100"]
DECIMALS_SPECIAL = ["NaN", "Infinity", "-Infinity"]
IMAGS = ["0", "1", "2", "-2", "1.5", "-1.5", "0.5", "123456.789", "1000000000000000", "-37.8", "4"]
IMAGS_BAD = ["1E+16", "1E-05", "-1E+23", "1.5E+300", "INF", "-INF", "NAN", "-0"]
NAMES_OK = ["a", "kw", "eofthrow", "a-b", "x?", "*v*", "+", "-", "->", "b1", "<=", "a_b", "-a", "nil?", "a.b", ".x", "&", "!", "A9",
            "ab.cd", "+x", "$", "=", ">", "|", "a1b2", "-x-", "true?", "->>"]
NAMES_OTHER = ["\xe9", "привет", "中", "a#b", "a'", "a:b", "%", "%1", "+1", "--a", "a%",
               "x.", "..", "λ"]
NAMES_BAD = ["", "a b", "1a", "12", "a/b", "/", "a#", "nil", "true", "false", "-1", "-1a", "----a", "a,b", "'a", "#a",
             ":a", "a\"", "a(", "a)", "x;y", "1.5", "1e5", "0x1F", "@a", "~a", "^a", "a\\b", "a\nb", "a{", "a]", "`a",
             "-", "-.5", "7", "-7/2", "1/2", "1J", "1N", "1.5M", "a\tb", "　a", "a "]
NS_OK = [None, None, "n", "a.b", "my-ns", "_", "x"]
NS_BAD = ["", "1", "a..b", "x/y", "a b", ".a", "a.", "n#", "-1"]
UUIDS = ["81f35603-0408-4b3d-bbc0-462e3702747f", "00000000-0000-0000-0000-000000000000",
         "ffffffff-ffff-ffff-ffff-ffffffffffff", "c28f97e2-15b3-445f-91f9-c57fc71c9556"]
INSTS = ["2018-11-28T12:43:25.477000+00:00", "2020-01-02T03:04:05", "2020-01-02T03:04:05.123456",
         "1970-01-01T00:00:00+00:00", "9999-12-31T23:59:59.999999", "0001-01-01T00:00:00", "2024-02-29T12:00:00-05:30",
         "2021-06-01T00:00:00+14:00"]
REGEX_OK = ["", "a", "a+", "[a-z]*", "(a|b)c", "^x$", "a{2,3}", ".", "x y", "'", "(?i)a", "[^/]+", "a#b", "z"]
REGEX_BAD = ["\\s", "\\d+", "\\\\", "a\"b", "\"", "\\(", "a\nb", "\xe9", "中", "\t", "\\.", "[\\]]", "(a)\\1", "\x1f",
             "\\\""]
BYTES_OK = [b"", b"abc", b"\x00\xff", b"'", b"a\\b", b"\n\t\r", b"\x7f\x80", b"\x7fELF\x01\x01\x01\x00", b"a'b'c",
            bytes(range(0, 34)), bytes(range(35, 128)), bytes(range(128, 256)), b" ", b"\\x41", b"\\'", b"\\"]
BYTES_BAD = [b'"', b"'\"", b'a"b', b'\\"', b'""', b"\x00\"\xff"]


def J_int(n):
    import sys
    old = sys.get_int_max_str_digits()
    sys.set_int_max_str_digits(0)
    try:
        return ["i", str(n)]
    finally:
        sys.set_int_max_str_digits(old)


def rand_float(rng):
    while True:
        r = rng.random()
        if r < 0.5:
            x = struct.unpack("<d", struct.pack("<Q", rng.getrandbits(64)))[0]
        elif r < 0.7:
            x = rng.uniform(-1000, 1000)
        elif r < 0.85:
            x = float(rng.randint(-10 ** 18, 10 ** 18))
        else:
            x = rng.choice([1, -1]) * 10.0 ** rng.randint(-320, 308) * rng.random()
        if math.isfinite(x):
            return ["f", repr(x)]


def rand_decimal(rng):
    digits = str(rng.randint(0, 10 ** rng.randint(1, 20)))
    exp = rng.randint(-30, 30) if rng.random() < 0.7 else 0
    return ["d", str(decimal.Decimal((rng.randint(0, 1), tuple(int(c) for c in digits), exp)))]


def gen_meta(rng, depth):
    n = rng.choice([0, 1, 1, 2])
    seen, ents = set(), []
    for _ in range(n):
        k = ["k", rng.choice([None, None, "m"]), rng.choice(["a", "b", "tag", "doc", "private"])]
        if json.dumps(k) in seen:
            continue
        seen.add(json.dumps(k))
        ents.append([k, gen_value(rng, min(depth, 1), True, [False, False, False], meta_ok=False)])
    return ents


def pykey(j):
    """Key under which Python's ==/hash would identify two generated values."""
    from fractions import Fraction
    t = j[0]
    if t == "nil":
        return ("nil",)
    if t == "b":
        return ("num", Fraction(int(j[1])))
    if t == "i":
        return ("num", Fraction(int(j[1])))
    if t == "r":
        return ("num", Fraction(int(j[1]), int(j[2])))
    if t == "f":
        x = float(j[1])
        if math.isnan(x):
            return ("nan",)
        if math.isinf(x):
            return ("inf", x > 0)
        return ("num", Fraction(x))
    if t == "d":
        d = decimal.Decimal(j[1])
        if not d.is_finite():
            return ("dspecial", j[1])
        return ("num", Fraction(d))
    if t == "j":
        x = float(j[1].lower())
        if x == 0:
            return ("num", Fraction(0))
        return ("imag", repr(x))
    if t in ("s", "re", "by"):
        return (t, tuple(j[1]))
    if t == "k":
        return ("k", j[1], j[2])
    if t == "y":
        return ("y", j[1], j[2])
    if t == "q":
        ks = [pykey(e) for e in j[2]]
        if j[1] in ("s", "ps"):
            return ("set", frozenset(ks))
        return ("seq", tuple(ks))
    if t == "m":
        return ("map", frozenset((pykey(k), pykey(v)) for k, v in j[2]))
    return (t, j[1])


def gen_leaf(rng, pc, meta_ok=True):
    r = rng.random()
    if r < 0.08:
        return ["nil"]
    if r < 0.14:
        return ["b", rng.random() < 0.5]
    if r < 0.30:
        return J_int(rng.choice(INTS[:15]) if rng.random() < 0.5 else rng.randint(-10 ** 6, 10 ** 6))
    if r < 0.36:
        return ["f", rng.choice(FLOATS)] if rng.random() < 0.6 else rand_float(rng)
    if r < 0.40:
        n, d = rng.choice(RATIOS)
        return ["r", str(n), str(d)]
    if r < 0.44:
        return ["d", rng.choice(DECIMALS)] if pc[0] else J_int(rng.randint(0, 99))
    if r < 0.47:
        return ["j", rng.choice(IMAGS)]
    if r < 0.62:
        return S(rng.choice(["", "a", "hi there", "q\"uo\\te", "\n\t", "\xe9中\U0001f600", "\x00\x1f", "\\u0041", "~@^"]))
    if r < 0.78:
        return ["k", rng.choice(NS_OK), rng.choice(NAMES_OK)]
    if r < 0.90:
        meta = gen_meta(rng, 0) if (meta_ok and rng.random() < 0.3) else None
        return ["y", rng.choice(NS_OK), rng.choice(NAMES_OK), meta]
    if r < 0.93:
        return ["u", rng.choice(UUIDS)]
    if r < 0.95:
        return ["t", rng.choice(INSTS)]
    if r < 0.97:
        return ["re", [ord(c) for c in rng.choice(REGEX_OK)]]
    return ["by", list(rng.choice(BYTES_OK))]


def gen_value(rng, depth, hashable, pc, meta_ok=True):
    if depth <= 0 or rng.random() < 0.35:
        return gen_leaf(rng, pc, meta_ok)
    kinds = ["l", "v", "s", "q", "m", "m", "v", "pt"] + ([] if hashable else ["pl", "ps", "pd", "pl"])
    k = rng.choice(kinds)
    meta = gen_meta(rng, depth - 1) if (meta_ok and k in ("l", "v", "s", "q", "m") and rng.random() < 0.35) else None
    n = rng.choice([0, 1, 2, 2, 3, 4])
    if k in ("m", "pd"):
        shared = rng.choice(["x", "my.ns", "_"]) if rng.random() < 0.4 else None
        ents, seen = [], set()
        for _ in range(n):
            if shared is not None and rng.random() < 0.9:
                if rng.random() < 0.75:
                    key = ["k", shared, rng.choice(NAMES_OK)]
                else:
                    key = ["y", shared, rng.choice(NAMES_OK), None]
            else:
                key = gen_value(rng, depth - 2, True, pc, meta_ok)
            pk = pykey(key)
            if pk in seen:
                continue
            seen.add(pk)
            ents.append([key, gen_value(rng, depth - 1, hashable and k == "m", pc, meta_ok)])
        return ["m", k == "pd", ents, meta]
    if k in ("s", "ps"):
        elems, seen = [], set()
        for _ in range(n):
            e = gen_value(rng, depth - 1, True, pc, meta_ok)
            pk = pykey(e)
            if pk in seen:
                continue
            seen.add(pk)
            elems.append(e)
        return ["q", k, elems, meta]
    sub_hashable = hashable or k in ("s",)
    return ["q", k, [gen_value(rng, depth - 1, hashable, pc, meta_ok) for _ in range(n)], meta]


def case(v, pc=PC0, via=0, lim=None):
    c = {"v": v, "pc": list(pc), "via": via}
    if lim is not None and list(lim) != [None, None]:
        c["lim"] = list(lim)             # [*print-length*, *print-level*]; absent = both nil
    return c


def both(v, pc=PC0):
    return [case(v, pc, 0), case(v, pc, 1)]


def fixed_cases(thorough=False):
    out = []
    for n in INTS + INTS_TOO_LONG:
        out += both(J_int(n))
    if thorough:
        out.append(case(J_int(INTS_AT_LIMIT[0]), PC0, 0))
    for f in FLOATS:
        out += both(["f", f])
    for n, d in RATIOS:
        out += both(["r", str(n), str(d)])
    for d in DECIMALS:
        out += both(["d", d], [True, False, False])
        out.append(case(["d", d], PC0, 0))
    for d in DECIMALS_SPECIAL:
        out.append(case(["d", d], [True, False, False], 0))
    for t in IMAGS + IMAGS_BAD:
        out += both(["j", t])
    for u in UUIDS:
        out += both(["u", u])
    for t in INSTS:
        out += both(["t", t])
    for p in REGEX_OK + REGEX_BAD:
        out += both(["re", [ord(c) for c in p]])
    for b in BYTES_OK + BYTES_BAD:
        out += both(["by", list(b)])
    out += both(["nil"]) + both(["b", True]) + both(["b", False])
    # empty and small collections of every kind, with and without metadata
    m1 = [[["k", None, "a"], J_int(1)]]
    for k in ("l", "v", "s", "q", "pl", "pt", "ps"):
        for elems in ([], [J_int(1)], [J_int(1), S("a"), ["k", None, "b"]]):
            out += both(["q", k, elems, None])
            if k in ("l", "v", "s", "q"):
                for pc in ([False, True, False], [True, True, True]):
                    out.append(case(["q", k, elems, m1], pc, 0))
                    out.append(case(["q", k, elems, []], pc, 1))
    for py in (False, True):
        for ents in ([], [[["k", None, "a"], J_int(1)]], [[["k", "x", "a"], J_int(1)], [["k", "x", "b"], S("s")]],
                     [[["k", "x", "a"], J_int(1)], [["y", "x", "b", None], J_int(2)]],
                     [[["k", "x", "a"], J_int(1)], [["k", "y", "b"], J_int(2)]],
                     [[["k", "x", "a"], J_int(1)], [S("k"), J_int(2)]],
                     [[["y", "x", "nil", None], J_int(1)]], [[["y", "x", "true", None], J_int(1)]],
                     [[["y", "x", "-1", None], J_int(1)]], [[["k", "x", "1"], J_int(1)]],
                     [[["y", "x", "s", m1], J_int(1)]], [[["k", "_", "a"], J_int(1)]], [[["k", "", "a"], J_int(1)]],
                     [[["k", "x/y", "a"], J_int(1)]], [[["y", "x", ".a", None], J_int(1)]],
                     [[["k", "a.b", "c"], ["m", False, [[["k", "a.b", "d"], ["nil"]]], None]]]):
            for pc in PCS:
                out.append(case(["m", py, ents, None], pc, 0))
            out.append(case(["m", py, ents, None], [False, False, True], 1))
    # symbols with metadata, nested metadata
    for pc in PCS:
        out.append(case(["y", None, "s", m1], pc, 0))
        out.append(case(["y", "ns", "s", [[["k", "x", "a"], J_int(1)], [["k", "x", "b"], ["q", "v", [], m1]]]], pc, 1))
        out.append(case(["q", "v", [["y", None, "x", m1]], [[["k", None, "b"], ["q", "v", [], m1]]]], pc, 0))
    return out


# ---- *print-length* / *print-level* under *print-dup* -----------------------------------------
LIMS = [[a, b] for a in (None, 0, 1, 2) for b in (None, 0, 1, 2) if not (a is None and b is None)]
ALL_KINDS = ["l", "v", "s", "q", "m", "pl", "pt", "ps", "pd"]
UNHASHABLE = {"pl", "ps", "pd"}
M1 = [[["k", None, "a"], ["i", "1"]]]
M2 = [[["k", "x", "tag"], ["q", "v", [["i", "1"], ["i", "2"], ["i", "3"]], None]], [["k", "x", "doc"], ["s", [100]]],
      [["k", "x", "c"], ["nil"]]]


def coll(kind, elems, meta=None, ns=None, keys=None):
    """A collection of `kind` holding `elems` (map kinds: as the values of keys :k0 :k1 ..., or of `keys`)."""
    if kind in ("m", "pd"):
        ks = keys or [["k", ns, f"k{i}"] for i in range(len(elems))]
        return ["m", kind == "pd", [[k, e] for k, e in zip(ks, elems)], meta if kind == "m" else None]
    return ["q", kind, list(elems), meta if kind in ("l", "v", "s", "q") else None]


def tower(kind, depth=4, meta=M1):
    """`kind` nested in itself `depth` deep, 4 elements per level (longer than every limit <= 2, deeper than
    every level <= 2), metadata on every level that can carry it."""
    inner = "pt" if kind == "ps" else kind       # a Python set holds hashable members only: #py tuples inside
    v = coll(inner, [J_int(31), J_int(32), J_int(33), J_int(34)], meta)
    for d in range(depth - 1):
        v = coll(kind if d == depth - 2 else inner, [J_int(10 * d + 1), v, J_int(10 * d + 3), ["k", None, "e"]], meta)
    return v


def pair_values():
    out = []
    inner = ["q", "v", [J_int(1), J_int(2), J_int(3)], M1]
    for i, k1 in enumerate(ALL_KINDS):
        for j, k2 in enumerate(ALL_KINDS):
            if k1 in ("s", "ps") and k2 in UNHASHABLE:
                continue
            ns = "x" if (i + j) % 2 else None
            mid = coll(k2, [J_int(10), inner, S("b"), ["k", None, "d"]], M2 if j % 2 else M1, ns)
            out.append(coll(k1, [J_int(0), mid, J_int(2), ["y", None, "s", M1]], M1 if j % 2 else M2, ns))
    # collections as map keys, maps in sets, a symbol whose metadata is deeper than the level
    ck = [["q", "v", [J_int(1), J_int(2), J_int(3)], M1], ["q", "l", [J_int(4), J_int(5), J_int(6)], None],
          ["q", "s", [J_int(1), J_int(2), J_int(3)], None], ["m", False, [[["k", None, "z"], J_int(1)]], M1]]
    out.append(coll("m", [J_int(1), J_int(2), J_int(3), J_int(4)], M1, keys=ck))
    out.append(coll("pd", [J_int(1), J_int(2), J_int(3), J_int(4)], None, keys=ck[:2] + [["q", "pt", [J_int(7), J_int(8), J_int(9)], None], S("k")]))
    out.append(["y", "n", "sym", [[["k", None, "m"], tower("v", 3)], [["k", None, "n"], tower("m", 3)], [["k", None, "o"], J_int(1)]]])
    out.append(["q", "s", [tower("m", 2), tower("s", 2), tower("q", 2)], M2])
    return out


def limit_cases(thorough, rng):
    out = []
    n = 0
    for k in ALL_KINDS:
        t = tower(k, 4 if thorough else 3)
        for li, lim in enumerate(LIMS):
            single = lim[0] is None or lim[1] is None
            for via in ((0, 1) if single or thorough else (n % 2,)):
                out.append(case(t, [True, n % 2 == 0, n % 3 == 0], via, lim))
                n += 1
            # no claim of readability: the abbreviated text is compared with the model's
            if thorough or li % 3 == ALL_KINDS.index(k) % 3:
                out.append(case(t, [False, n % 2 == 0, n % 3 == 0], n % 2, lim))
    for i, v in enumerate(pair_values()):
        lims = LIMS if thorough else [LIMS[(2 * i + 7 * d) % 15] for d in range(2)]
        for lim in lims:
            out.append(case(v, [True, n % 2 == 0, n % 4 < 2], n % 3 == 0 and 1 or 0, lim))
            n += 1
    for i in range(3000 if thorough else 100):
        pc = [True, i % 2 == 0, i % 4 < 2]
        out.append(case(gen_value(rng, rng.choice([2, 3, 3, 4]), False, pc), pc, rng.randint(0, 1), rng.choice(LIMS)))
    return out


def name_cases():
    out = []
    for nm in NAMES_OK + NAMES_OTHER + NAMES_BAD:
        for ns in (None, "n", "a.b"):
            out.append(case(["k", ns, nm], PC0, 0))
            out.append(case(["y", ns, nm, None], PC0, 1))
        out.append(case(["y", None, nm, None], PC0, 0))
        out.append(case(["k", None, nm], PC0, 1))
        out.append(case(["q", "v", [["y", None, nm, None], ["k", None, nm]], None], PC0, 0))
    for ns in NS_BAD + NS_OK[2:]:
        for nm in ("a", "-a", ".x"):
            out.append(case(["k", ns, nm], PC0, 0))
            out.append(case(["y", ns, nm, None], PC0, 0))
    return out


def cases(tier, rng):
    thorough = tier == "thorough"
    out = []
    for s in strings_upto(ALPHA, 3 if thorough else 2):
        out += both(S(s))
    for _ in range(2000 if thorough else 120):
        out.append(case(rand_string(rng), PC0, rng.randint(0, 1)))
    out += fixed_cases(thorough)
    out += name_cases()
    for _ in range(3000 if thorough else 120):
        out.append(case(rand_float(rng), PC0, rng.randint(0, 1)))
    for _ in range(500 if thorough else 40):
        out.append(case(rand_decimal(rng), [True, False, False], rng.randint(0, 1)))
        out.append(case(J_int(rng.randint(-10 ** rng.randint(1, 150), 10 ** rng.randint(1, 150))), PC0, rng.randint(0, 1)))
        n, d = rng.randint(-10 ** 12, 10 ** 12), rng.randint(2, 10 ** 12)
        g = math.gcd(n, d)
        if d // g > 1:
            out.append(case(["r", str(n // g), str(d // g)], PC0, rng.randint(0, 1)))
    for i in range(12000 if thorough else 480):
        pc = PCS[i % 8]
        out.append(case(gen_value(rng, rng.choice([1, 2, 2, 3, 4]), False, pc), pc, rng.randint(0, 1)))
    out += limit_cases(thorough, rng)
    seen, uniq = set(), []
    for c in out:
        k = json.dumps(c, sort_keys=True)
        if k not in seen:
            seen.add(k)
            uniq.append(c)
    return uniq


# ---- Gallina printers ------------------------------------------------------------------
def cpl(l):
    # bare numerals: the case files open N_scope
    return "(@nil N)" if not l else "[" + "; ".join(str(c) for c in l) + "]"


def cstr(text):
    return cpl([ord(c) for c in text])


def costr(x):
    return "None" if x is None else f"(Some {cstr(x)})"


def cmeta(m):
    if m is None:
        return "None"
    if not m:
        return "(Some (@nil (value * value)))"
    return "(Some [" + "; ".join(f"({coq_value(k)}, {coq_value(v)})" for k, v in m) + "])"


def cflt(tok):
    return {"inf": "FInf", "-inf": "FNegInf", "nan": "FNaN"}.get(tok) or f"(FTok {cstr(tok)})"


def cz(text):
    """A decimal numeral as a Gallina Z; long ones as base-2^60 digits (Corr.zbig)."""
    if len(text) <= 60:
        return f"({text})%Z"
    import sys
    old = sys.get_int_max_str_digits()
    sys.set_int_max_str_digits(0)
    try:
        n = int(text)
    finally:
        sys.set_int_max_str_digits(old)
    neg, n = n < 0, abs(n)
    chunks = []
    while n:
        chunks.append(n & ((1 << 60) - 1))
        n >>= 60
    return f"(zbig {G.b(neg)} [" + "; ".join(str(c) for c in reversed(chunks)) + "])"


KIND = {"l": "KList", "v": "KVec", "s": "KSet", "q": "KQueue", "pl": "KPyList", "pt": "KPyTuple", "ps": "KPySet"}
DSPECIAL = {"Infinity": "FInf", "-Infinity": "FNegInf", "NaN": "FNaN", "-NaN": "FNaN"}


def coq_value(j):
    t = j[0]
    if t == "nil":
        return "VNil"
    if t == "b":
        return f"(VBool {G.b(j[1])})"
    if t == "i":
        return f"(VInt {cz(j[1])})"
    if t == "r":
        return f"(VRatio {cz(j[1])} {cz(j[2])})"
    if t == "f":
        return f"(VFloat {cflt(j[1])})"
    if t == "d":
        if j[1] in DSPECIAL:
            return f"(VDecS {DSPECIAL[j[1]]})"
        return f"(VDec {cstr(j[1])})"
    if t == "j":
        return f"(VImag {cstr(j[1])})"
    if t == "s":
        return f"(VStr {cpl(j[1])})"
    if t == "k":
        return f"(VKw {costr(j[1])} {cstr(j[2])})"
    if t == "y":
        return f"(VSym {costr(j[1])} {cstr(j[2])} {cmeta(j[3])})"
    if t == "q":
        elems = "(@nil value)" if not j[2] else "[" + "; ".join(coq_value(e) for e in j[2]) + "]"
        return f"(VSeq {KIND[j[1]]} {elems} {cmeta(j[3])})"
    if t == "m":
        ents = "(@nil (value * value))" if not j[2] else \
            "[" + "; ".join(f"({coq_value(k)}, {coq_value(v)})" for k, v in j[2]) + "]"
        return f"(VMap {G.b(bool(j[1]))} {ents} {cmeta(j[3])})"
    if t == "u":
        return f"(VTag 0 {cstr(j[1])})"
    if t == "t":
        return f"(VTag 1 {cstr(j[1])})"
    if t == "re":
        return f"(VRegex {cpl(j[1])})"
    if t == "by":
        return f"(VBytes {cpl(j[1])})"
    return f"(VTag 99 {cstr(str(j[1:])[:60])})"


def coq_pc(pc):
    return f"(PC {G.b(pc[0])} {G.b(pc[1])} {G.b(pc[2])} true)"


def coq_lim(lim):
    if not lim or list(lim) == [None, None]:
        return "lim_nil"
    length, level = lim
    a = "None" if length is None else f"(Some ({int(length)})%N)"
    b = "None" if level is None else f"(Some ({int(level)})%Z)"
    return f"(PL {a} {b})"


_TERM = re.compile(r'[\s,()\[\]{}"\\^;`~@]+')


def oracles(text):
    """What CPython answers for the number-like tokens of `text` whenever that is not the token
    itself: (prefix + token, canonical form); prefixes f d j select the constructor."""
    out = {}
    for t in set(_TERM.split(text)):
        if not t or len(t) > 400 or not (t[0].isdigit() or (t[0] == "-" and len(t) > 1)):
            continue
        if not re.fullmatch(r"[0-9A-Za-z/.+\-]+", t):
            continue
        try:
            x = float(t)
            if math.isfinite(x) and repr(x) != t:
                out["f" + t] = repr(x)
        except ValueError:
            pass
        if t.endswith("M"):
            try:
                d = decimal.Decimal(t[:-1])
                if d.is_finite() and str(d) != t[:-1]:
                    out["d" + t[:-1]] = str(d)
            except decimal.InvalidOperation:
                pass
        if t.endswith("J"):
            raw = t[:-1]
            neg = raw.startswith("-")
            body = raw[1:] if neg else raw
            try:
                im = float(body) if "." in body else int(body)
                c = complex(0, -im if neg else im)
                if c.real == 0 and math.copysign(1.0, c.real) > 0:
                    canon = repr(c).upper()[:-1]
                    if canon != raw:
                        out["j" + raw] = canon
            except (ValueError, OverflowError):
                pass
    return sorted(out.items())


def bad_patterns(text):
    """Raw-string reading of every #"..." in `text` (a quote ends the literal even after a
    backslash); the patterns re.compile rejects."""
    out, i = set(), 0
    while True:
        i = text.find('#"', i)
        if i < 0:
            break
        j = text.find('"', i + 2)
        if j < 0:
            break
        pat = text[i + 2:j]
        try:
            re.compile(pat)
        except re.error:
            out.add(pat)
        except Exception:  # noqa
            out.add(pat)
        i = j + 1
    return sorted(out)


def coq_case_with(c, v, text):
    orc = oracles(text) if text else []
    bad = bad_patterns(text) if text else []
    o = "(@nil (str * str))" if not orc else "[" + "; ".join(f"({cstr(k)}, {cstr(r)})" for k, r in orc) + "]"
    b = "(@nil str)" if not bad else "[" + "; ".join(cstr(p) for p in bad) + "]"
    return f"(Case {c['via']} {coq_pc(c['pc'])} {coq_lim(c.get('lim'))} {coq_value(v)} {o} {b})"


def coq_case(c):
    return coq_case_with(c, c["v"], "")


def coq_out(o):
    if not isinstance(o, dict) or o.get("__hang__") or o.get("__timeout__") or o.get("__died__"):
        return "(OErr 3)"
    if "__error__" in o:
        return "(OErr 2)"
    if "perr" in o:
        return f"(OPrintErr {int(o['perr'])})"
    text = cpl(o["text"])
    if "rerr" in o:
        return f"(OReadErr {text} {int(o['rerr'])})"
    if o.get("n", 0) == 0:
        return f"(ONone {text})"
    return f"(OOk {text} {int(o['n'])} {coq_value(o['back'])} {int(o['refix'])} {G.b(bool(o['det']))})"


def coq_pair(c, o):
    """The model prints sets and maps in the order the implementation walks them: the case is
    written with the worker's description of the ORIGINAL value (`walk`, checked in the worker to
    be the same value as the case's), and with the CPython oracles for the printed text."""
    v = o.get("walk") if isinstance(o, dict) and o.get("walk") is not None else c["v"]
    text = "".join(chr(x) for x in o["text"]) if isinstance(o, dict) and "text" in o else ""
    return f"({coq_case_with(c, v, text)}, {coq_out(o)})"


# ---- evidence helpers ------------------------------------------------------------------
def nontrivial(c, o):
    v = c["v"]
    return not (v == ["nil"] or v == ["s", []])


def describe(c):
    return f"value {json.dumps(c['v'])[:300]} printed with dup/meta/nsmaps={c['pc']} " \
           f"*print-length*/*print-level*={c.get('lim') or [None, None]} via " \
           f"{'pr-str/read-string' if c['via'] else 'obj.lrepr/reader.read_str'}"


def shrink(c):
    v = c["v"]
    t = v[0]

    def mk(x):
        return case(x, c["pc"], c["via"], c.get("lim"))
    if t == "s" or t == "re" or t == "by":
        for i in range(len(v[1])):
            yield mk([t, v[1][:i] + v[1][i + 1:]])
    elif t == "q":
        for e in v[2]:
            yield mk(e)
        for i in range(len(v[2])):
            yield mk(["q", v[1], v[2][:i] + v[2][i + 1:], v[3]])
        if v[3] is not None:
            yield mk(["q", v[1], v[2], None])
    elif t == "m":
        for k, x in v[2]:
            yield mk(k)
            yield mk(x)
        for i in range(len(v[2])):
            yield mk(["m", v[1], v[2][:i] + v[2][i + 1:], v[3]])
        if v[3] is not None:
            yield mk(["m", v[1], v[2], None])
    elif t == "y" and v[3] is not None:
        yield mk(["y", v[1], v[2], None])
    if c.get("lim"):
        a, b = c["lim"]
        if a is not None and b is not None:
            yield case(v, c["pc"], c["via"], [a, None])
            yield case(v, c["pc"], c["via"], [None, b])
    elif c["pc"] != PC0:
        yield {"v": v, "pc": PC0, "via": c["via"]}


def extra_evidence(cases_, outs):
    kinds, pcs, via, lims = {}, {}, {0: 0, 1: 0}, {}
    for c in cases_:
        kinds[c["v"][0]] = kinds.get(c["v"][0], 0) + 1
        pcs[str(c["pc"])] = pcs.get(str(c["pc"]), 0) + 1
        via[c["via"]] += 1
        lk = f"dup={c['pc'][0]} length/level={c.get('lim') or [None, None]}"
        if c.get("lim"):
            lims[lk] = lims.get(lk, 0) + 1
    res = {"ok": 0, "read_error": 0, "print_error": 0, "no_form": 0, "other": 0}
    for o in outs:
        if not isinstance(o, dict):
            res["other"] += 1
        elif "perr" in o:
            res["print_error"] += 1
        elif "rerr" in o:
            res["read_error"] += 1
        elif "back" in o:
            res["ok"] += 1
        elif o.get("n") == 0:
            res["no_form"] += 1
        else:
            res["other"] += 1
    return {"distribution": {"top_level_kind": kinds, "print_settings": pcs, "path": via, "print_limits": lims,
                             "implementation_result": res}}
