"""C20 -- integer and ratio arithmetic is exact and quot/rem/mod obey their identities."""
import decimal
import fractions

from harness.vlib import gallina as G

ID = "C20"
TITLE = "Integer and ratio arithmetic is exact and quot/rem/mod obey their identities"
CORR = "Verif.C20.Corr"
CORR_TARGETS = ["theories/C20/Corr.vo"]
TARGETS = ["theories/Properties/C20.vo"]
PROPERTIES_FILE = "theories/Properties/C20.v"
IMPL = "harness.props.c20_impl"
TABLE_DEPS = ["c20_num_normalize", "c20_num_add", "c20_num_subtract", "c20_num_multiply", "c20_num_divide",
              "c20_num_trunc", "c20_num_to_decimal_shape",
              "c20_core_add2", "c20_core_sub1", "c20_core_sub2", "c20_core_mul2", "c20_core_div1",
              "c20_core_div2", "c20_core_quot", "c20_core_rem", "c20_core_mod", "c20_core_inc", "c20_core_dec",
              "c20_core_incq", "c20_core_decq", "c20_core_abs", "c20_core_zerop", "c20_core_inline_flags",
              "c20_opt_ops"]
SHARD = 1500
# Coq wraps the printed (index, code) list at 78 columns and may break a line right after
# an opening parenthesis, which the result parser of vlib/coqrun.classify does not expect
# (such entries were silently dropped: a failing case read as passing).  A huge printing
# width keeps every entry on one line.
EXTRA_REQUIRE = "Set Printing Width 1000000."
RULE = ("operand pairs from a 48-element universe (small and huge ints up to 10^400, ratios with small and "
        "huge parts, decimals incl. signed zeros, floats incl. +-0.0, +-inf, nan, 2^53, 1e300) x "
        "{+ - * / quot rem mod, < <= > >= =} and single operands x {inc dec inc' dec' - abs / zero?}, "
        "three-operand calls of + - * / (variadic arity), plus (operator/<name> a b) for the 12 arithmetic/comparison names the optimizer rewrites; every "
        "case is evaluated along four call paths (literal call form, apply, inlining disabled, precompiled "
        "fn on values). thorough: all 48x48 pairs for every binary operation; quick: a seeded sample of "
        "the pairs, all unary cases. Random operands up to 2^600 with random signs and denominators. "
        "A case is non-trivial when the result is not an operand and is not an exception; distinct = "
        "distinct JSON encoding.")
TRUSTED = ["CPython int is arbitrary-precision and fractions.Fraction is exact, always-reduced rational "
           "arithmetic (modelled by Z and Qred over Q); Fraction.__trunc__/__floor__ as transcribed in Model.v",
           "CPython's mixed-type rules: float absorbs int/Fraction; Decimal accepts int but raises TypeError "
           "for float/Fraction operands; functools.singledispatch selects the handler registered for the "
           "type of the first argument",
           "decimal.Decimal and float VALUES are not modelled (types only): for such operands the check "
           "compares the result type and the agreement of the four call paths bit for bit",
           "Python's operator module functions mean what their documentation says (Spec.operator_doc)",
           "harness/tr/tr_numbers.py (numbers.py handlers, core.lpy defn bodies, optimizer dictionaries -> Gallina)"]
ASSUMPTIONS = ["operands are int, Fraction (reduced, denominator > 1), Decimal or float; bool is outside",
               "core's variadic comparison functions are modelled by hand as a left-to-right chain, and the "
               "[x y & args] arity of + - * / as a left fold of the (regenerated) two-operand arity",
               "exceptions are observed by class: ZeroDivisionError / other ArithmeticError / ValueError / TypeError"]
FINDINGS = {}
EXHAUSTIVE = {"quick": False, "thorough": True}
HARD_TIMEOUT = 60
# compile_and_exec_form appends every generated module to the namespace's *generated-python*
# string (runtime.add_generated_python: `v._root = v._root + text`), which is quadratic over a
# long run with 400-digit literals; the switch only disables that debugging aid.
WORKER_ENV = {"BASILISP_EMIT_GENERATED_PYTHON": "false"}
# one interpreter: a case costs ~1.2 ms (four small compilations), the 12 s+ bootstrap of every
# further worker costs more than it saves and parallel bootstraps slow each other down
NWORKERS = 1

# ---- universe ---------------------------------------------------------------------------
I = lambda v: {"t": "int", "v": v}
R = lambda n, d: {"t": "ratio", "n": fractions.Fraction(n, d).numerator, "d": fractions.Fraction(n, d).denominator}
D = lambda s: {"t": "dec", "s": s}
F = lambda h: {"t": "float", "hex": h}

INTS = [I(v) for v in (0, 1, -1, 2, -2, 3, 7, -7, 10, 2 ** 53, 2 ** 53 + 1, -(2 ** 53) - 1, 2 ** 64,
                       10 ** 20 + 1, 10 ** 400, -(10 ** 400) + 1)]
RATIOS = [R(1, 2), R(-1, 2), R(1, 3), R(2, 3), R(-7, 2), R(7, 3), R(22, 7), R(2 ** 64 + 1, 3),
          R(1, 10 ** 30), R(-(10 ** 400) - 1, 7), R(10 ** 20 + 1, 10 ** 20), R(-3, 2 ** 70)]
DECS = [D("0"), D("-0"), D("1"), D("1.5"), D("-2.5"), D("0.1"), D("1E+30"), D("-7")]
FLOATS = [F((0.0).hex()), F((-0.0).hex()), F((1.0).hex()), F((-1.0).hex()), F((1.5).hex()), F((-2.5).hex()),
          F((0.1).hex()), F((2.0 ** 53).hex()), F((1e300).hex()), F("inf"), F("-inf"), F("nan")]
EXACT = INTS + RATIOS
UNIV = EXACT + DECS + FLOATS

ARITH = ["add", "sub", "mul", "div", "quot", "rem", "mod"]
CMP = ["lt", "le", "gt", "ge", "eq"]
UNARY = ["inc", "dec", "incq", "decq", "neg", "abs", "inv", "zerop"]
PYOPS = ["add", "sub", "mul", "truediv", "floordiv", "mod", "lt", "le", "eq", "ne", "gt", "ge"]


def _rand_int(rng):
    bits = rng.choice([8, 40, 53, 54, 64, 100, 300, 600])
    v = rng.getrandbits(bits)
    return -v if rng.random() < 0.5 else v


def _rand_exact(rng):
    if rng.random() < 0.5:
        return I(_rand_int(rng))
    n, d = _rand_int(rng), abs(_rand_int(rng)) + 2
    fr = fractions.Fraction(n, d)
    if fr.denominator == 1:
        return I(fr.numerator)
    return R(fr.numerator, fr.denominator)


def cases(tier, rng):
    yield {"k": "probe"}
    quick = tier == "quick"
    # 1. arithmetic over exact x exact (thorough: exhaustive)
    exact_pairs = [(x, y) for x in EXACT for y in EXACT]
    for op in ARITH:
        ps = rng.sample(exact_pairs, 260) if quick else exact_pairs
        for x, y in ps:
            yield {"k": "core", "op": op, "args": [x, y]}
    # 2. pairs with a Decimal / float operand, comparisons, operator/<name>
    mixed = [(x, y) for x in UNIV for y in UNIV if not (x in EXACT and y in EXACT)]
    allp = [(x, y) for x in UNIV for y in UNIV]
    for op in ARITH:
        ps = rng.sample(mixed, 90) if quick else mixed
        for x, y in ps:
            yield {"k": "core", "op": op, "args": [x, y]}
    for op in CMP:
        ps = rng.sample(allp, 70) if quick else allp
        for x, y in ps:
            yield {"k": "core", "op": op, "args": [x, y]}
    for op in PYOPS:
        ps = rng.sample(allp, 50) if quick else allp
        for x, y in ps:
            yield {"k": "py", "op": op, "args": [x, y]}
    # 2b. the variadic arity of + - * / with three operands
    for op in ARITH[:4]:
        for _ in range(60 if quick else 1500):
            pool_ = EXACT if rng.random() < 0.7 else UNIV
            yield {"k": "core", "op": op, "args": [rng.choice(pool_), rng.choice(pool_), rng.choice(pool_)]}
    # 3. unary
    for op in UNARY:
        for x in UNIV:
            yield {"k": "core", "op": op, "args": [x]}
    # 4. random big operands
    n = 700 if quick else 20000
    for _ in range(n):
        r = rng.random()
        if r < 0.75:
            yield {"k": "core", "op": rng.choice(ARITH), "args": [_rand_exact(rng), _rand_exact(rng)]}
        elif r < 0.85:
            yield {"k": "core", "op": rng.choice(CMP), "args": [_rand_exact(rng), _rand_exact(rng)]}
        elif r < 0.93:
            yield {"k": "py", "op": rng.choice(PYOPS), "args": [_rand_exact(rng), _rand_exact(rng)]}
        else:
            yield {"k": "core", "op": rng.choice(UNARY), "args": [_rand_exact(rng)]}


# ---- Gallina ----------------------------------------------------------------------------
COQ_OP = {"add": "(OpA OAdd)", "sub": "(OpA OSub)", "mul": "(OpA OMul)", "div": "(OpA ODiv)",
          "quot": "(OpD OQuot)", "rem": "(OpD ORem)", "mod": "(OpD OMod)",
          "inc": "(OpU UInc)", "dec": "(OpU UDec)", "incq": "(OpU UIncq)", "decq": "(OpU UDecq)",
          "neg": "(OpU UNeg)", "abs": "(OpU UAbs)", "inv": "(OpU UInv)", "zerop": "(OpU UZerop)",
          "lt": "(OpC CLt)", "le": "(OpC CLe)", "gt": "(OpC CGt)", "ge": "(OpC CGe)", "eq": "(OpC CEq)"}


def zlit(n):
    """Z literal; big numbers in hexadecimal (Coq converts a 400-digit decimal literal in
    seconds, the same number in hex in microseconds)."""
    n = int(n)
    if abs(n) < 10 ** 15:
        return G.z(n)
    return f"(0x{n:x})%Z" if n > 0 else f"(- (0x{-n:x}))%Z"


def plit(n):
    n = int(n)
    assert n > 0
    return f"{n}%positive" if n < 10 ** 15 else f"(0x{n:x})%positive"


def nlit(n):
    n = int(n)
    assert n >= 0
    return f"{n}%N" if n < 10 ** 15 else f"(0x{n:x})%N"


def coq_operand(a):
    t = a["t"]
    if t == "int":
        return f"(AInt {zlit(a['v'])})"
    if t == "ratio":
        return f"(ARatio {zlit(a['n'])} {plit(a['d'])})"
    if t == "dec":
        return "ADec"
    return "AFlt"


def coq_case(c):
    if c.get("k") == "probe":
        return "(Case (OpA OAdd) [AInt (1)%Z; AInt (1)%Z])"
    op = COQ_OP[c["op"]] if c["k"] == "core" else f"(OpPy {G.s(c['op'])})"
    return f"(Case {op} {G.lst([coq_operand(a) for a in c['args']], 'operand')})"


EXC = {"ZeroDivisionError": "EZeroDiv", "ArithmeticError": "EArith", "ValueError": "EValue",
       "TypeError": "EType", "Other": "EOther"}


def coq_obs(o):
    if "exc" in o:
        return f"(OExc {EXC.get(o['exc'], 'EOther')})"
    t = o.get("t")
    if t == "int":
        return f"(OInt {zlit(o['v'])})"
    if t == "ratio" and o["d"] > 0:
        return f"(ORatio {zlit(o['n'])} {plit(o['d'])})"
    if t == "dec":
        return f"(ODec {G.s(o['s'])})"
    if t == "float":
        return f"(OFlt {nlit(o['bits'])})"
    if t == "bool":
        return f"(OBool {G.b(o['v'])})"
    return "(OExc EOther)"


def coq_out(o):
    if "probe" in o:
        p = o["probe"]
        good = p.get("lit_inlined") and p.get("noinl_calls_fn") and p.get("apply_calls_fn")
        # the probe case is (+ 1 1): a passing probe is reported as the answer 2 on all paths
        v = "(OInt (2)%Z)" if good else "(OExc EOther)"
        return f"(Paths [{v}; {v}; {v}; {v}])"
    if "paths" in o:
        return "(Paths " + G.lst([coq_obs(x) for x in o["paths"]], "obs") + ")"
    if o.get("__timeout__") or o.get("__hang__"):
        return "(Paths [OExc EHang; OExc EHang; OExc EHang; OExc EHang])"
    return "(Paths [OExc EOther; OExc EOther; OExc EOther; OExc EOther])"


def nontrivial(c, o):
    if c.get("k") == "probe" or "paths" not in o:
        return False
    p = o["paths"][0]
    if "exc" in p:
        return False
    return all(p != {k: v for k, v in a.items()} for a in c["args"])


def describe(c):
    if c.get("k") == "probe":
        return "inline probe"
    return f"({c['op']} {' '.join(_show(a) for a in c['args'])}) [{c['k']}]"


def _show(a):
    if a["t"] == "int":
        return str(a["v"]) if abs(a["v"]) < 10 ** 25 else f"<int {a['v'].bit_length()} bits>"
    if a["t"] == "ratio":
        return f"{_show(I(a['n']))}/{_show(I(a['d']))}"
    if a["t"] == "dec":
        return a["s"] + "M"
    return a["hex"]


def shrink(c):
    """Halve the magnitude of big integer parts."""
    if c.get("k") == "probe":
        return
    for i, a in enumerate(c["args"]):
        cands = []
        if a["t"] == "int" and abs(a["v"]) > 3:
            cands = [I(int(a["v"] / 2) if abs(a["v"]) < 2 ** 50 else a["v"] // (1 << (a["v"].bit_length() // 2)))]
        elif a["t"] == "ratio":
            cands = [I(a["n"])]
            if abs(a["n"]) > 3:
                fr = fractions.Fraction(a["n"] // 2 or 1, a["d"])
                cands.append(I(fr.numerator) if fr.denominator == 1 else R(fr.numerator, fr.denominator))
            if a["d"] > 3:
                fr = fractions.Fraction(a["n"], a["d"] // 2 or 1)
                cands.append(I(fr.numerator) if fr.denominator == 1 else R(fr.numerator, fr.denominator))
        for cand in cands:
            if cand != a:
                args = list(c["args"])
                args[i] = cand
                yield dict(c, args=args)


def extra_evidence(cases_, outs):
    dist, res, exact_pairs = {}, {}, 0
    probe = None
    for c, o in zip(cases_, outs):
        if c.get("k") == "probe":
            probe = o.get("probe")
            continue
        key = f"{c['k']}:{c['op']}"
        dist[key] = dist.get(key, 0) + 1
        if all(a["t"] in ("int", "ratio") for a in c["args"]):
            exact_pairs += 1
        if "paths" in o:
            p = o["paths"][0]
            rk = p.get("t") or ("exc:" + p.get("exc", "?"))
            res[rk] = res.get(rk, 0) + 1
    return {"input_distribution": dist, "result_kinds_first_path": res, "cases_with_exact_operands": exact_pairs,
            "inline_probe": probe, "implementation_evaluations": 4 * len(cases_)}
