"""C06 -- Lazy sequences realize each element once, only on demand, safely shared."""
from harness.vlib import gallina as G

ID = "C06"
TITLE = "Lazy sequences realize each element once, only on demand, safely shared"
CORR = "Verif.C06.Corr"
CORR_TARGETS = ["theories/C06/Corr.vo"]
TARGETS = ["theories/Properties/C06.vo"]
PROPERTIES_FILE = "theories/Properties/C06.v"
IMPL = "harness.props.c06_impl"
TABLE_DEPS = ["lazyseq_state_shape", "lazyseq_restore_on_error", "lazyseq_seq_shape",
              "lazyseq_sequence_shape", "lazyseq_lock_keeps_gil"]
TAGGED = True
SHARD = 500
HARD_TIMEOUT = 90
WORKER_ENV = {"VERIF_CASE_SOFT_TIMEOUT": "40"}
RULE = ("single-threaded: random consumption histories (first / rest / next / seq / count / nth / bounded "
        "iteration over any earlier position) over scripted producers (return nil / EMPTY / cons / another "
        "lazy seq / shared-counter cons / raise / touch any cell, its own included) and over the core "
        "functions lazy-seq, map, filter, take, iterate, concat, iterator-seq / seq over a scripted Python "
        "iterator with instrumented inputs; observable = per-operation value / kind / exception, producer "
        "call and throw counts per scripted cell, function-call count, what every touch saw, is_realized "
        "flags.  Every history that the small-step machine can express is also run on it inside Coq and "
        "must agree with the big-step model.  multi-threaded: 2-3 consumer threads in a forked child "
        "under a 10 s watchdog, interleavings forced by producers / consumers parking on Events; "
        "observable = per-thread observations, producer counts, wedged flag; the model side is the SET of "
        "outcomes of all interleavings of the scenario.  Non-trivial = at least one producer ran.")
TRUSTED = [
    "the GIL and CPython thread scheduling are modelled: a thread needs the GIL for every step, Rust code "
    "between two calls into Python is one step, Python code may lose the GIL where the script says "
    "(yield, Event.wait on an unset event) and between two consumer operations",
    "parking_lot::ReentrantMutex is modelled as an owner + depth; lock() blocks without releasing the GIL "
    "(checked textually on seq.rs: no allow_threads/detach; translator item lazyseq_lock_keeps_gil)",
    "PyO3 glue (argument passing, intern!, clone_ref, RefCell borrows) is not modelled; a RefCell "
    "double-borrow panic is outside the model",
    "threading.Event is modelled as a boolean that is only ever set",
    "itertools.chain.from_iterable / filter / map (used by concat) are modelled as the obvious lazy "
    "iterators that consume an item before using it",
    "harness/tr/tr_lazyseq.py: textual (comment- and whitespace-normalised) comparison of the enum and of "
    "_compute_seq / seq / Sequence.__call__ / SeqIterator.__next__ / to_seq with the transcribed text",
]
ASSUMPTIONS = [
    "producers return nil, EMPTY, Cons cells or LazySeq objects (vectors, lists and other seqables "
    "returned by a producer go through ISeqable.seq, which is not modelled)",
    "the multi-threaded correspondence observes ONE schedule per run; the model side quantifies over all",
    "the core.lpy generators (map, filter, take, iterate, concat) are modelled for one thread only",
]
EXHAUSTIVE = {"quick": False, "thorough": False}


# ---------------------------------------------------------------------------------------------
# findings
# ---------------------------------------------------------------------------------------------
def _f06(c, o, tag):
    return c.get("k") == "mt" and bool(o.get("wedged")) and bool(tag & 1)


def _f06c(c, o, tag):
    return c.get("k") == "st" and bool(tag & 4)


def _f06d(c, o, tag):
    return c.get("k") == "st" and bool(tag & 8)


FINDINGS = {"F-06": _f06, "F-06c": _f06c, "F-06d": _f06d}


# ---------------------------------------------------------------------------------------------
# generators
# ---------------------------------------------------------------------------------------------
def L(c):
    return ["l", c]


def cons(v, r):
    return ["c", v, r]


def gen_obj_forward(rng, i, n, depth=0):
    """an object a producer of cell i may return: references only go forward (finite sequences)"""
    last = i + 1 >= n
    x = rng.random()
    if x < 0.12:
        return None
    if x < 0.18:
        return "E"
    if x < 0.3 and not last:
        return L(rng.randint(i + 1, min(n - 1, i + 2)))
    y = rng.random()
    if not last and y < 0.75:
        r = L(rng.randint(i + 1, min(n - 1, i + 2)))
    elif y < 0.85 and depth < 2:
        r = gen_obj_forward(rng, i, n, depth + 1)
    elif y < 0.95:
        r = None
    else:
        r = "E"
    return cons(rng.randint(0, 9), r)


def gen_script(rng, i, n, allow_touch=True, allow_throw=True, allow_tick=True):
    s = []
    for _ in range(rng.choice([0, 0, 0, 1, 1, 2])):
        x = rng.random()
        if x < 0.6 and allow_touch:
            s.append(["t", rng.randrange(n)])
        elif x < 0.8:
            s.append(["y"])
        else:
            s.append(["s", 0])
    x = rng.random()
    if x < 0.08 and allow_throw:
        s.append(["x"])
    elif x < 0.2 and allow_tick:
        r = L(i + 1) if i + 1 < n and rng.random() < 0.8 else None
        s.append(["rt", r])
    elif x < 0.23:
        pass                                  # falls off the end: returns None
    else:
        s.append(["r", gen_obj_forward(rng, i, n)])
    return s


def chain_scripts(vals, start=0):
    """cells start.. : cell k returns cons(vals[k], lazy k+1); the last returns nil"""
    n = len(vals)
    out = []
    for k, v in enumerate(vals):
        out.append([["r", cons(v, L(start + k + 1))]])
    out.append([["r", None]])
    return out


FNS = [["add", 1], ["add", 3], ["mul", 2], ["const", 7]]
PREDS = [["true"], ["false"], ["even"], ["lt", 3], ["mod", 2, 1], ["mod", 1, 0]]


def gen_root(rng, n, niters, depth=0):
    """(rootspec, finite?)"""
    x = rng.random()
    if depth >= 2 or x < 0.35:
        if n and rng.random() < 0.9:
            return ["o", L(rng.randrange(n))], True
        return ["o", rng.choice([None, "E", cons(1, None), cons(1, cons(2, None))])], True
    if x < 0.5:
        r, fin = gen_root(rng, n, niters, depth + 1)
        return ["map", rng.choice(FNS), r], fin
    if x < 0.65:
        r, fin = gen_root(rng, n, niters, depth + 1)
        if not fin:
            return ["take", rng.randint(0, 4), r], True
        return ["filter", rng.choice(PREDS), r], fin
    if x < 0.75:
        r, fin = gen_root(rng, n, niters, depth + 1)
        return ["take", rng.randint(0, 4), r], True
    if x < 0.83:
        return ["take", rng.randint(1, 5), ["iterate", rng.choice(FNS), rng.randint(0, 3)]], True
    if x < 0.88:
        return ["iterate", rng.choice(FNS), rng.randint(0, 3)], False
    rs, fin = [], True
    for _ in range(rng.randint(0, 3)):
        r, f = gen_root(rng, n, niters, depth + 1)
        if not f:
            r = ["take", 2, r]
        rs.append(r)
    return ["concat", rs], True


def gen_ops(rng, nroots, finite, nops):
    ops, fin = [], list(finite)
    for _ in range(nops):
        r = rng.randrange(len(fin))
        if rng.random() < 0.5:
            r = len(fin) - 1 - rng.randrange(min(3, len(fin)))     # prefer recent positions
        x = rng.random()
        if x < 0.25:
            ops.append(["first", r])
        elif x < 0.45:
            ops.append(["rest", r]); fin.append(fin[r])
        elif x < 0.6:
            ops.append(["next", r]); fin.append(fin[r])
        elif x < 0.72:
            ops.append(["seq", r]); fin.append(fin[r])
        elif x < 0.8 and fin[r]:
            ops.append(["count", r])
        elif x < 0.9:
            ops.append(["nth", r, rng.randint(0, 4)])
        else:
            ops.append(["iter", r, rng.randint(0, 5)])
    return ops


def st_random(rng, allow_touch=True, allow_throw=True):
    n = rng.randint(1, 6)
    cells = [gen_script(rng, i, n, allow_touch, allow_throw) for i in range(n)]
    roots, fin = [], []
    for _ in range(rng.randint(1, 3)):
        r, f = gen_root(rng, n, 0)
        roots.append(r); fin.append(f)
    return {"k": "st", "cells": cells, "iters": [], "nev": 1, "roots": roots,
            "ops": gen_ops(rng, len(roots), fin, rng.randint(2, 12))}


def st_machine(rng):
    """histories both models can run (plain roots; first / rest / next / seq / bounded iteration): the
    small-step machine with one thread must agree with the big-step model inside Coq"""
    n = rng.randint(1, 6)
    cells = [gen_script(rng, i, n) for i in range(n)]
    roots = [["o", L(rng.randrange(n))] for _ in range(rng.randint(1, 2))]
    nregs, ops = len(roots), []
    for _ in range(rng.randint(2, 10)):
        r = rng.randrange(nregs)
        x = rng.random()
        if x < 0.3:
            ops.append(["first", r])
        elif x < 0.5:
            ops.append(["rest", r]); nregs += 1
        elif x < 0.65:
            ops.append(["next", r]); nregs += 1
        elif x < 0.8:
            ops.append(["seq", r]); nregs += 1
        else:
            ops.append(["iter", r, rng.randint(0, 5)])
    return {"k": "st", "cells": cells, "iters": [], "nev": 1, "roots": roots, "ops": ops}


def st_iter(rng):
    """seq over a scripted Python iterator / iterator-seq of a SeqIterator / concat of them"""
    vals = [rng.randint(0, 9) for _ in range(rng.randint(0, 5))]
    cells = chain_scripts(vals)
    items = [rng.randint(0, 9) if rng.random() < 0.9 else "x" for _ in range(rng.randint(0, 5))]
    iters = [{"list": items}, {"seq": L(0)}]
    choice = rng.random()
    if choice < 0.4:
        roots = [["itseq", 0]]
    elif choice < 0.6:
        roots = [["itseq", 1]]
    elif choice < 0.8:
        roots = [["concat", [["itseq", 0], ["o", L(0)]]]]
    else:
        roots = [["map", rng.choice(FNS), ["itseq", 0]], ["o", L(0)]]
    return {"k": "st", "cells": cells, "iters": iters, "nev": 0, "roots": roots,
            "ops": gen_ops(rng, len(roots), [True] * len(roots), rng.randint(2, 10))}


def st_pipeline(rng):
    """core functions over an instrumented chain: the over-realization measurements"""
    vals = [rng.randint(0, 9) for _ in range(rng.randint(0, 7))]
    cells = chain_scripts(vals)
    src = ["o", L(0)]
    x = rng.random()
    if x < 0.2:
        root = ["map", rng.choice(FNS), src]
    elif x < 0.4:
        root = ["filter", rng.choice(PREDS), src]
    elif x < 0.55:
        root = ["take", rng.randint(0, 5), src]
    elif x < 0.7:
        root = ["concat", [src, ["o", rng.choice([None, "E", cons(5, None)])], src]]
    elif x < 0.85:
        root = ["map", rng.choice(FNS), ["filter", rng.choice(PREDS), src]]
    else:
        root = ["take", rng.randint(0, 4), ["map", rng.choice(FNS), src]]
    n = rng.randint(0, 5)
    ops, r = [], 0
    walker = rng.choice(["rest", "next", "nth", "iter", "mixed"])
    if walker in ("rest", "next"):
        for _ in range(n):
            ops.append(["first", r]); ops.append([walker, r]); r = len([o for o in ops if o[0] in ("rest", "next", "seq")])
    elif walker == "nth":
        ops = [["nth", 0, n]]
    elif walker == "iter":
        ops = [["iter", 0, n]]
    else:
        ops = gen_ops(rng, 1, [True], rng.randint(2, 9))
    return {"k": "st", "cells": cells, "iters": [], "nev": 0, "roots": [root], "ops": ops}


ST_WITNESSES = [
    # F-06b: the producer raises; the second and third look must raise again, not answer nil
    {"k": "st", "cells": [[["x"]]], "iters": [], "nev": 0, "roots": [["o", L(0)]],
     "ops": [["seq", 0], ["seq", 0], ["first", 0]]},
    # a producer looking at its own cell sees it empty
    {"k": "st", "cells": [[["t", 0], ["r", cons(7, None)]]], "iters": [], "nev": 0, "roots": [["o", L(0)]],
     "ops": [["first", 0], ["first", 0]]},
    # A returns B, B looks at A (sees nil) and returns (1): A is (1) afterwards
    {"k": "st", "cells": [[["r", L(1)]], [["t", 0], ["r", cons(1, None)]]], "iters": [], "nev": 0,
     "roots": [["o", L(0)]], "ops": [["first", 0], ["count", 0]]},
    # lazy seqs ON THE WAY of a follow-up are not asked (Spec.v, ask_inner; the thorough alarm of seed 0):
    # A returns B, B returns C, C looks at A (sees nil: A is nil for ever) and returns (0): B, which
    # nobody had asked, is (0) when asked later -- not the nil the follow-up from A arrived at
    {"k": "st", "cells": [[["r", L(1)]], [["r", L(2)]], [["t", 0], ["rt", None]]], "iters": [], "nev": 0,
     "roots": [["o", L(2)], ["o", L(0)], ["o", L(1)]], "ops": [["first", 0], ["first", 1], ["first", 2]]},
    # the converse: C looks at B while the follow-up from A passes through B: that look ASKS B (nil, kept)
    {"k": "st", "cells": [[["r", L(1)]], [["r", L(2)]], [["t", 1], ["r", cons(5, None)]]], "iters": [], "nev": 0,
     "roots": [["o", L(0)], ["o", L(1)]], "ops": [["first", 0], ["first", 1]]},
]

# F-06c: A returns B, B looks at A and then raises: A stays realized as empty
W_F06C = {"k": "st", "cells": [[["r", L(1)]], [["t", 0], ["x"]]], "iters": [], "nev": 0,
          "roots": [["o", L(0)]], "ops": [["seq", 0], ["seq", 0], ["seq", 0]]}


# F-06d: concat is built on itertools.chain, which ends for good when advancing to the next input raises
W_F06D = {"k": "st", "cells": [[["x"]]], "iters": [], "nev": 0,
          "roots": [["concat", [["o", L(0)], ["o", cons(5, None)]]]],
          "ops": [["first", 0], ["first", 0], ["count", 0]]}


# ---- multi-threaded scenarios ----------------------------------------------------------------
def mt(cells, threads, nev, roots=None, iters=None):
    return {"k": "mt", "cells": cells, "iters": iters or [], "nev": nev,
            "roots": roots if roots is not None else [L(0)], "threads": threads}


def mt_f06(op="first", pos=0, extra_thread=False):
    """T0 is inside the producer of cell `pos`, parked on event 1 (GIL released); T1 then touches the
    same cell: it blocks on the cell mutex holding the GIL."""
    vals = [1, 2, 3]
    cells = chain_scripts(vals)
    cells[pos] = [["s", 0], ["w", 1]] + cells[pos]
    walk = []
    r = 0
    for _ in range(pos):
        walk.append(["rest", r]); r = (r + 1) if r else 1
    reg = pos if pos == 0 else pos          # register holding position `pos` (0 = root, k = after k rests)
    t0 = walk + [[op, reg] if op != "iter" else ["iter", reg, 2]]
    t1 = [["wait", 0]] + walk + [[op, reg] if op != "iter" else ["iter", reg, 2], ["set", 1]]
    threads = [t0, t1]
    if extra_thread:
        threads.append([["wait", 0], ["set", 1]])     # would release T0 -- but can never run once T1 holds the GIL
    return mt(cells, threads, 2)


def mt_control(again=False):
    """as mt_f06, but T1 touches ANOTHER cell, releases T0, and only then (again) looks at the shared one"""
    cells = chain_scripts([1, 2, 3])
    cells[0] = [["s", 0], ["w", 1]] + cells[0]
    other = len(cells)
    cells.append([["r", cons(9, None)]])
    t0 = [["first", 0]]
    t1 = [["wait", 0], ["first", 1], ["set", 1]] + ([["iter", 0, 2]] if again else [])
    return mt(cells, [t0, t1], 2, roots=[L(0), L(other)])


def mt_handoff(rng, tick=False, n=3):
    """T0 walks, signals; T1 walks the same cells: both must see the same"""
    if tick:
        cells = [[["rt", L(k + 1)]] for k in range(n)] + [[["r", None]]]
    else:
        cells = chain_scripts([rng.randint(0, 9) for _ in range(n)])
    k = rng.randint(1, 3)
    walk = [["iter", 0, k]]
    return mt(cells, [walk + [["set", 0]], [["wait", 0]] + walk], 1)


def mt_free(rng, nthreads=2, tick=False, yields=False, itseq=False, throw=False):
    """no forced order: every interleaving is possible; producers do not park unless `yields`"""
    n = rng.randint(2, 3)
    if itseq:
        cells, iters, roots = [], [{"list": [rng.randint(0, 9) for _ in range(n)]}], [L(0)]
    else:
        if tick:
            cells = [[["rt", L(k + 1)]] for k in range(n)] + [[["r", None]]]
        else:
            cells = chain_scripts([rng.randint(0, 9) for _ in range(n)])
        iters, roots = [], [L(0)]
        if throw:
            cells[rng.randrange(n)] = [["x"]]
        if yields:
            k = rng.randrange(n)
            cells[k] = [["y"]] + cells[k]
    segs = 3 if nthreads == 3 else 4
    prog = []
    r = 0
    while len(prog) < segs:
        x = rng.random()
        if x < 0.4:
            prog.append(["first", r])
        elif x < 0.7 or len(prog) == segs - 1:
            prog.append(["iter", r, rng.randint(1, 3)])
        else:
            prog.append(["rest", r]); r = len([o for o in prog if o[0] == "rest"])
    return mt(cells, [list(prog) for _ in range(nthreads)], 0, roots=roots, iters=iters)


W_F06 = mt_f06()


def cases(tier, rng):
    thorough = tier != "quick"
    for w in ST_WITNESSES:
        yield w
    yield W_F06C
    yield W_F06D
    # ---- multi-threaded: ~30 quick / ~300 thorough child runs -----------------------------
    reps = 10 if thorough else 1
    for _ in range(reps):
        yield mt_f06("first", 0)
        yield mt_f06("seq", 1)
        yield mt_f06("iter", 0, extra_thread=True)
        if thorough:
            yield mt_f06("rest", 2)
            yield mt_f06("first", 1, extra_thread=True)
        yield mt_control(False)
        yield mt_control(True)
        for tick in (False, True):
            yield mt_handoff(rng, tick)
            yield mt_handoff(rng, tick)
        for nth in (2, 3):
            yield mt_free(rng, nth)
            yield mt_free(rng, nth, tick=True)
            yield mt_free(rng, nth, itseq=True)
            yield mt_free(rng, nth, throw=True)
        yield mt_free(rng, 2)
        yield mt_free(rng, 2, tick=True)
        yield mt_free(rng, 2, itseq=True)
        yield mt_free(rng, 2, yields=True)
        yield mt_free(rng, 2, yields=True, tick=True)
        yield mt_free(rng, 3, yields=True)
        for _ in range(6):
            yield mt_free(rng, rng.choice([2, 2, 3]), tick=rng.random() < 0.4, itseq=rng.random() < 0.2,
                          throw=rng.random() < 0.2)
    # ---- single-threaded histories ---------------------------------------------------------
    n = 6000 if thorough else 600
    for _ in range(n):
        yield st_random(rng)
    for _ in range(n // 2):
        yield st_random(rng, allow_touch=False, allow_throw=False)
    for _ in range(n * 5 // 8):
        yield st_pipeline(rng)
    for _ in range(n * 3 // 8):
        yield st_iter(rng)
    for _ in range(n // 2):
        yield st_machine(rng)


# ---------------------------------------------------------------------------------------------
# Gallina printers
# ---------------------------------------------------------------------------------------------
def g_obj(o):
    if o is None:
        return "ONil"
    if o == "E":
        return "OEmpty"
    if o[0] == "c":
        return f"(OCons {G.n(o[1])} {g_obj(o[2])})"
    if o[0] == "l":
        return f"(OLazy {G.nat(o[1])})"
    raise ValueError(o)


def g_action(a):
    k = a[0]
    if k == "y":
        return "AYield"
    if k == "w":
        return f"(AWait {G.nat(a[1])})"
    if k == "s":
        return f"(ASet {G.nat(a[1])})"
    if k == "t":
        return f"(ATouch {G.nat(a[1])})"
    if k == "r":
        return f"(ARet {g_obj(a[1])})"
    if k == "rt":
        return f"(ARetTick {g_obj(a[1])})"
    if k == "x":
        return "AThrow"
    raise ValueError(a)


def g_scripts(cells):
    return G.lst([G.lst([g_action(a) for a in s], "action") for s in cells], "(list action)")


def g_iter(it):
    if "list" in it:
        return "(ItList " + G.lst(["IRaise" if x == "x" else f"(IVal {G.n(x)})" for x in it["list"]], "item") + ")"
    if "seq" in it:
        return f"(ItSeq {g_obj(it['seq'])})"
    raise ValueError(it)


def g_fn(f):
    return {"add": "FAdd", "mul": "FMul", "const": "FConst"}[f[0]] + " " + G.n(f[1])


def g_pred(p):
    k = p[0]
    if k == "true":
        return "PTrue"
    if k == "false":
        return "PFalse"
    if k == "even":
        return "PEven"
    if k == "lt":
        return f"(PLt {G.n(p[1])})"
    if k == "mod":
        return f"(PMod {G.n(p[1])} {G.n(p[2])})"
    raise ValueError(p)


def g_root(r):
    k = r[0]
    if k == "o":
        return f"(RObj {g_obj(r[1])})"
    if k == "map":
        return f"(RMap ({g_fn(r[1])}) {g_root(r[2])})"
    if k == "filter":
        return f"(RFilter {g_pred(r[1])} {g_root(r[2])})"
    if k == "take":
        return f"(RTake {G.n(r[1])} {g_root(r[2])})"
    if k == "iterate":
        return f"(RIterate ({g_fn(r[1])}) {G.n(r[2])})"
    if k == "concat":
        return "(RConcat " + G.lst([g_root(x) for x in r[1]], "rootspec") + ")"
    if k == "itseq":
        return f"(RItSeq {G.nat(r[1])})"
    raise ValueError(r)


def g_op(o):
    k = o[0]
    if k == "first":
        return f"(OpFirst {G.nat(o[1])})"
    if k == "rest":
        return f"(OpRest {G.nat(o[1])})"
    if k == "next":
        return f"(OpNext {G.nat(o[1])})"
    if k == "seq":
        return f"(OpSeq {G.nat(o[1])})"
    if k == "count":
        return f"(OpCount {G.nat(o[1])})"
    if k == "nth":
        return f"(OpNth {G.nat(o[1])} {G.nat(o[2])})"
    if k == "iter":
        return f"(OpIter {G.nat(o[1])} {G.nat(o[2])})"
    raise ValueError(o)


def g_cop(o):
    k = o[0]
    if k == "first":
        return f"(CFirst {G.nat(o[1])})"
    if k == "rest":
        return f"(CRest {G.nat(o[1])})"
    if k == "next":
        return f"(CNext {G.nat(o[1])})"
    if k == "seq":
        return f"(CSeqOp {G.nat(o[1])})"
    if k == "iter":
        return f"(CIter {G.nat(o[1])} {G.nat(o[2])})"
    if k == "wait":
        return f"(CWait {G.nat(o[1])})"
    if k == "set":
        return f"(CSet {G.nat(o[1])})"
    raise ValueError(o)


def coq_case(c):
    its = G.lst([g_iter(i) for i in c.get("iters", [])], "iter")
    if c["k"] == "st":
        return (f"(CSt {g_scripts(c['cells'])} {its} {G.nat(c.get('nev', 0))} "
                f"{G.lst([g_root(r) for r in c['roots']], 'rootspec')} {G.lst([g_op(o) for o in c['ops']], 'op')})")
    return (f"(CMt {g_scripts(c['cells'])} {its} {G.nat(c.get('nev', 0))} "
            f"{G.lst([g_obj(o) for o in c['roots']], 'obj')} "
            f"{G.lst([G.lst([g_cop(o) for o in p], 'cop') for p in c['threads']], '(list cop)')})")


def g_obs(b):
    if b is None:
        return "BBad"
    if "v" in b:
        v = b["v"]
        if v is None:
            return "(BVal None)"
        if isinstance(v, int) and v >= 0:
            return f"(BVal (Some {G.n(v)}))"
        return "BBad"
    if "k" in b:
        return f"(BKind {G.n(b['k'])})"
    if "n" in b:
        return f"(BNum {G.n(b['n'])})"
    if "l" in b:
        if all(isinstance(v, int) and v >= 0 for v in b["l"]):
            return "(BList " + G.lst([G.n(v) for v in b["l"]], "N") + ")"
        return "BBad"
    if "x" in b:
        return f"(BExn {G.n(b['x'])})"
    return "BBad"


def g_seen(l):
    return G.lst([f"({G.nat(c)}, {G.b(bool(s))})" for c, s in l], "(cid * bool)")


def coq_out(o):
    if o.get("__timeout__") or o.get("__hang__"):
        return "(OErr 1%N)"
    if o.get("__died__") or "__error__" in o:
        return "(OErr 2%N)"
    if o.get("wedged"):
        return "(OMt Wedged)"
    try:
        if "fcalls" in o:
            return ("(OSt " + G.lst([g_obs(b) for b in o["obs"]], "obs") + " "
                    + G.lst([G.n(x) for x in o["counts"]], "N") + " " + G.lst([G.n(x) for x in o["throws"]], "N")
                    + f" {G.n(o['fcalls'])} {g_seen(o['seen'])} "
                    + G.lst([G.b(x) for x in o["realized"]], "bool") + ")")
        return ("(OMt (Done " + G.lst([G.lst([g_obs(b) for b in l], "obs") for l in o["obs"]], "(list obs)") + " "
                + G.lst([G.n(x) for x in o["counts"]], "N") + " " + G.lst([G.n(x) for x in o["throws"]], "N") + " "
                + G.lst([g_seen(l) for l in o["seen"]], "(list (cid * bool))") + "))")
    except Exception:  # a malformed result must not crash the harness
        return "(OErr 2%N)"


def nontrivial(c, o):
    return bool(o.get("wedged")) or any(o.get("counts", [])) or bool(o.get("fcalls"))


def describe(c):
    if c["k"] == "st":
        return f"single-threaded history: {len(c['cells'])} scripted cells, roots {c['roots']}, ops {c['ops']}"
    return f"{len(c['threads'])} threads over {len(c['cells'])} scripted cells: {c['threads']}"


def shrink(c):
    if c["k"] == "st":
        ops = c["ops"]
        # dropping an operation that pushes a register would renumber later ones: only drop from the end,
        # or drop non-pushing operations
        if ops:
            yield dict(c, ops=ops[:-1])
        for i, o in enumerate(ops):
            if o[0] in ("first", "count", "nth", "iter"):
                yield dict(c, ops=ops[:i] + ops[i + 1:])
        for i, s in enumerate(c["cells"]):
            for j, a in enumerate(s):
                if a[0] in ("t", "y", "s"):
                    cells = [list(x) for x in c["cells"]]
                    cells[i] = s[:j] + s[j + 1:]
                    yield dict(c, cells=cells)


def extra_evidence(cases_, outs):
    dist = {}
    wedged = 0
    for c, o in zip(cases_, outs):
        if c["k"] == "mt":
            key = f"mt:{len(c['threads'])}threads"
            if o.get("wedged"):
                wedged += 1
        else:
            kinds = sorted({r[0] for r in c["roots"]})
            key = "st:" + "+".join(kinds)
        dist[key] = dist.get(key, 0) + 1
    return {"input_distribution": dist, "child_runs_wedged": wedged,
            "measured_lookahead": "first/rest/seq/nth/iteration on position k run the producers of positions "
                                  "<= k only (0 ahead); next = seq of rest runs position k+1 (1 ahead, by "
                                  "definition); iterate applies f once more than the elements forced"}
