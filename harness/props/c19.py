"""C19 -- EDN, JSON and bencode codecs invert themselves and never mis-frame."""
from harness.vlib import gallina as G

ID = "C19"
TITLE = "EDN, JSON and bencode codecs invert themselves and never mis-frame"
CORR = "Verif.C19.Corr"
CORR_TARGETS = ["theories/C19/Corr.vo"]
TARGETS = ["theories/Properties/C19.vo"]
PROPERTIES_FILE = "theories/Properties/C19.v"
IMPL = "harness.props.c19_impl"
TABLE_DEPS = ["edn_str_escape_chars", "edn_write_escapes", "edn_dispatch_chars", "bencode_tokens"]
SHARD = 300
NWORKERS = 2
FINDINGS = {}
EXHAUSTIVE = {"quick": False, "thorough": False}
RULE = ("bencode: generated message streams (1-4 canonical messages: ints of any size, byte strings over "
        "framing-relevant bytes, nested lists, dicts) -- one case per stream, EVERY cut point 0..len of the stream "
        "through decode-all inside the case; encode alone against the reference encoding; Lisp-level values "
        "(strings/keywords/symbols, maps in hash order) through encode+decode-all; a malformed stream (hand-written "
        "+ byte mutations of valid streams). EDN: every string of length <= 2 (thorough: <= 3) over 16 (12) "
        "escape-relevant characters plus random length-3 ones, integers, floats, keywords/symbols over a name pool x "
        "namespaces, random nested vectors/lists/sets/maps, each written by edn/write-string and read back by "
        "edn/read-string (rd 0) and by core/read-string (rd 1); raw texts through both readers. Exponent floats "
        "(which edn/read-string splits into two forms, F-19a) occur at top level, in vectors and lists at any "
        "depth, and for rd 0 directly inside a set only when it is the only member and directly as key/value of "
        "a map only an odd number of times (the map then has an odd number of forms in every walk order); "
        "elsewhere the value read back would depend on the hash order in which the writer walks the map/set "
        "and on duplicates among the split forms, which the list model of maps/sets cannot express (evidence "
        "field edn_cases_with_order_dependent_exponent_floats must stay 0). JSON: strings, "
        "scalars, nested collections with string/keyword/symbol keys through write-str + read-str. A case is "
        "non-trivial when its value/stream is non-empty; distinct = distinct JSON encoding.")
TRUSTED = ["CPython int(bytes)/int(str)/str(int) modelled by py_int/dec_Z (base 10, ASCII whitespace, sign, single "
           "underscores); the 4300-digit limit of int<->str conversion is outside the model (encode raises, nothing "
           "is emitted)",
           "CPython sorted() modelled as a stable insertion sort on the encoded key",
           "Python bytes slicing/index modelled by firstn/skipn/index_of (negative slice bounds included)",
           "CPython float(str)/repr(float) enter the EDN theorems as the parameter pf with hypothesis "
           "pf t = Some t for repr tokens t; in the correspondence run pf is the identity and the generated float "
           "tokens are chosen so that this is exact",
           "Python's \\s and \\d classes are approximated (the 25 Unicode white-space characters; ASCII digits)",
           "Python json.dumps/json.loads are parameters of C19_json_coercion (inverse on trees with distinct keys)",
           "str.encode('utf-8') modelled by utf8 (no surrogates)",
           "harness/tr/tr_codecs.py (text parser for the edn.lpy tables and the bencode.lpy byte constants)"]
ASSUMPTIONS = ["bencode decode is modelled with empty opts (identity :string-fn/:key-fn); nil and b\"\" are identified "
               "(every operation of the source raises on nil where it raises or cannot occur on b\"\")",
               "a nil dict key (negative length prefix in key position, malformed input only) is not representable "
               "in the model (model answers Exc)",
               "maps and sets are lists in the order the writer walks them; values handed to the real code have "
               "pairwise distinct keys/members (Python equality: 1, 1.0 and true collide); the model's walk order is "
               "the case's order, not the hash order of the real writer, so values whose read-back depends on the "
               "walk order (exponent floats split by the EDN reader directly inside maps/sets, see RULE) are not "
               "generated; duplicate detection of the readers is not modelled",
               "the Lisp reader is modelled only on the token language the EDN writer emits; character literals, "
               "tagged elements, ##Inf/##NaN, comments, quote/meta/deref prefixes, octal/hex/ratio/radix numbers "
               "and floats with a fractional significand and an exponent (Lisp reader) answer 'outside the model'",
               "symbols named nil/true/false, names containing '/', ':' or starting like a number are outside the "
               "EDN universe (they cannot be distinguished in text) and are not generated"]


# ---- generators ----------------------------------------------------------------------
B_INTS = [0, 1, -1, 7, 10, -42, 100, 255, 2 ** 31, -2 ** 63, 10 ** 20, -10 ** 30 + 1]
B_STRS = [b"", b"a", b"e", b"i", b"l", b"d", b"0", b":", b"-", b"1:", b"i1e", b"le", b"de", b"\x00", b"\xff",
          "é".encode(), b"3:abc", b"0123456789", b"0123456789a", b"e" * 12, b"i-0e", b" 1", b"1_0"]
B_KEYS = ["", "a", "b", "ab", "e", "i1e", "0:", ":", "é", "op", "id", "code", "l", "d", "1", "-1"]


def J_int(n):
    return {"i": n}


def J_str(b):
    return {"s": list(b)}


def gen_bval(rng, depth):
    r = rng.random()
    if depth <= 0 or r < 0.55:
        if rng.random() < 0.4:
            return J_int(rng.choice(B_INTS) if rng.random() < 0.8 else rng.randint(-10 ** 6, 10 ** 6))
        return J_str(rng.choice(B_STRS))
    if r < 0.8:
        return {"l": [gen_bval(rng, depth - 1) for _ in range(rng.randint(0, 3))]}
    keys = sorted(set(rng.sample(B_KEYS, rng.randint(0, 3))), key=lambda s: s.encode("utf-8"))
    return {"d": [[list(k.encode("utf-8")), gen_bval(rng, depth - 1)] for k in keys]}


def py_encode(j):
    """Reference bencode in the harness, used only to know the stream length (the cut range)."""
    if "i" in j:
        return b"i%de" % j["i"]
    if "s" in j:
        return b"%d:" % len(j["s"]) + bytes(j["s"])
    if "l" in j:
        return b"l" + b"".join(py_encode(e) for e in j["l"]) + b"e"
    return b"d" + b"".join(py_encode(J_str(bytes(k))) + py_encode(v) for k, v in j["d"]) + b"e"


FIXED_STREAMS = [
    [J_int(0)], [J_int(-1), J_int(10)], [J_str(b"")], [J_str(b""), J_str(b"")], [J_str(b"0123456789a")],
    [{"l": []}], [{"d": []}], [{"l": [{"l": []}, {"d": []}]}],
    [{"d": [[list(b"code"), J_str(b"(+ 1 2)")], [list(b"id"), J_str(b"1")], [list(b"op"), J_str(b"eval")]]},
     {"d": [[list(b"id"), J_str(b"2")], [list(b"op"), J_str(b"clone")]]}],
    [{"l": [J_str(b"e"), J_int(5)]}, J_str(b"i1e"), J_int(10 ** 20)],
    [{"d": [[list(b""), {"l": [J_str(b"")]}], [list(b"a"), {"d": [[list(b"e"), J_int(-7)]]}]]}],
]

RAW_FIXED = [b"", b"i-0e", b"i007e", b"i-e", b"ie", b"i e", b"i 5 e", b"i+5e", b"i1_0e", b"i1__0e", b"i_1e", b"i1_e",
             b"03:abc", b"-1:abc", b"-1:a", b"-2:abcd", b"-9:ab", b"0:", b"0:x", b"3:ab", b"3:", b"3", b"l", b"le",
             b"li1e", b"li1ee", b"d", b"de", b"d1:ae", b"d1:ai1ee", b"d1:ai1e1:ai2ee", b"d1:bi1e1:ai2ee", b"i5ei6",
             b"i5ei6e3:ab", b"e", b"x", b"x1:a", b"di1ei2ee", b"li1e3:ab", b"i1", b"lli1e", b"i5e0:", b"0:0:",
             b" 1:a", b"1 :a", b"+1:a", b"i\xd9\xa1e", b"l0:e", b"d0:0:e", b"l-1:e", b"l-1:aee", b"i\t7\ne",
             b"i--1e", b"i-+1e", b"i1 2e", b"1_0:0123456789", b"i-ei5e", b"i12", b"4:ab:cd", b":a", b"1::", b"00:",
             b"-0:", b"-0:abc", b"i0x10e", b"l1:ai2ed1:ai3eee5:hello", b"d1:al1:bee1:c"]
MUT_BYTES = b"-0:ei ld_+1\x00"


# ---- EDN / JSON generators --------------------------------------------------------------
ESC_ALPHA = ['"', "\\", "\n", "\t", "\x00", "\x7f", "\xe9", "\u4e2d", "a", "f", "0", "u", "\r", "\x07", "n", "x"]
E_INTS = [0, 1, -1, 7, -42, 10 ** 30, -2 ** 63]
E_FLOATS = ["0.0", "-0.0", "1.5", "-2.25", "100.0", "0.1", "1234.5678", "-0.001"]
E_EXP_FLOATS = ["1e+23", "1.5e+300", "2.5e-05", "1e-07", "-1e+16", "1.2e+20"]       # F-19a triggers
E_EXP_FLOATS_LISP = ["1e+23", "-1e+16", "5e+20"]                                     # F-19c triggers (integral significand)
E_NAMES = ["a", "kw", "a-b", "x?", "*v*", "+", "-", "->", "b1", "<=", "a_b", "-a", "nil?", "é", "привет", "a.b", ".x"]
E_NS = [None, None, "n", "a.b", "my-ns"]


def _names_for(kind, rng):
    nm = rng.choice(E_NAMES)
    ns = rng.choice(E_NS)
    if kind == "sym" and ns is not None and nm.startswith("."):
        ns = None
    return [ns, nm]


def pykey(j):
    """Python-equality class of a value (1 == 1.0 == True collide as map keys / set members)."""
    if j is None:
        return ("nil",)
    if "b" in j:
        return ("num", float(j["b"]))
    if "i" in j:
        return ("num", float(j["i"])) if abs(j["i"]) < 2 ** 53 else ("int", j["i"])
    if "f" in j:
        return ("num", float(j["f"]))
    if "l" in j or "v" in j:
        # lists and vectors with equal elements are equal (and, since the repair of F-05a, hash alike):
        # one set cannot hold both, nor one map have both as keys
        return ("seq", tuple(pykey(x) for x in (j.get("l") if "l" in j else j["v"])))
    if "set" in j:
        return ("set", frozenset(pykey(x) for x in j["set"]))
    if "m" in j:
        return ("map", frozenset((pykey(k), pykey(v)) for k, v in j["m"]))
    return ("other", repr(j))


def is_exp_float(j):
    return isinstance(j, dict) and "f" in j and ("e" in j["f"] or "E" in j["f"])


def _n_direct_exp(entries):
    return sum(is_exp_float(k) + is_exp_float(v) for k, v in entries)


def exp_order_hazard(j):
    """Through the EDN reader (rd 0) an exponent float reads back as TWO forms (F-19a).  Directly inside a set
    with other members, or an even number of times directly inside a map, the value read back then depends on
    the hash order of the writer's walk and on duplicate detection after the split -- neither is expressible
    in the model.  Such values must not be generated for rd 0 (counted in the evidence, must stay 0)."""
    for e in _walk(j):
        if "set" in e and len(e["set"]) >= 2 and any(is_exp_float(x) for x in e["set"]):
            return True
        if "m" in e and _n_direct_exp(e["m"]) and _n_direct_exp(e["m"]) % 2 == 0:
            return True
    return False


def gen_edn_leaf(rng, rd, findings=True):
    r = rng.random()
    if r < 0.08:
        return None
    if r < 0.16:
        return {"b": rng.random() < 0.5}
    if r < 0.32:
        return {"i": rng.choice(E_INTS)}
    if r < 0.44:
        if findings and rng.random() < 0.25:
            return {"f": rng.choice(E_EXP_FLOATS if rd == 0 else E_EXP_FLOATS_LISP)}
        return {"f": rng.choice(E_FLOATS)}
    if r < 0.62:
        return {"s": "".join(rng.choice(ESC_ALPHA) for _ in range(rng.randint(0, 3)))}
    if r < 0.82:
        nm = _names_for("kw", rng)
        if not findings and "." in nm[1]:
            nm[1] = "k"
        return {"kw": nm}
    nm = _names_for("sym", rng)
    if nm[0] is None and nm[1] in ("nil", "true", "false"):
        nm[1] = "s"
    return {"sym": nm}


def gen_edn(rng, rd, depth, findings=True):
    if depth <= 0 or rng.random() < 0.45:
        return gen_edn_leaf(rng, rd, findings)
    r = rng.random()
    n = rng.randint(0, 3)
    if r < 0.35:
        return {"v": [gen_edn(rng, rd, depth - 1, findings) for _ in range(n)]}
    if r < 0.55:
        return {"l": [gen_edn(rng, rd, depth - 1, findings) for _ in range(n)]}
    if r < 0.75:
        out, seen = [], set()
        for _ in range(n):
            e = gen_edn(rng, rd, depth - 1, findings)
            if pykey(e) not in seen:
                seen.add(pykey(e))
                out.append(e)
        if rd == 0 and len(out) >= 2 and any(is_exp_float(e) for e in out):
            # the EDN reader splits 1e+23 into 1 and e+23: next to other members the split forms may
            # collide (#{1e+23 1}, #{1e+23 1e-07} raise "Duplicate values in set"), which the reader
            # model does not express; an exponent float stays a direct member only of a one-member set
            if rng.random() < 0.5:
                out = [e for e in out if is_exp_float(e)][:1]
            else:
                out = [e for e in out if not is_exp_float(e)]
        return {"set": out}
    out, seen = [], set()
    for _ in range(n):
        k = gen_edn(rng, rd, depth - 1, findings)
        if pykey(k) not in seen:
            seen.add(pykey(k))
            out.append([k, gen_edn(rng, rd, depth - 1, findings)])
    if rd == 0:
        # each exponent float that is directly a key or a value adds one form when read back (F-19a).  An odd
        # number of them makes the form count odd: "Map should contain an even number of forms" whatever
        # the order.  An even number shifts the key/value pairing, and WHICH forms pair up (and whether keys
        # then collide) depends on the hash order the writer walks the map in, which the model (a list in
        # case order) cannot know: entries are dropped until the number is odd or zero.
        while _n_direct_exp(out) and _n_direct_exp(out) % 2 == 0:
            i = max(i for i, kv in enumerate(out) if is_exp_float(kv[0]) or is_exp_float(kv[1]))
            del out[i]
    return {"m": out}


# exponent floats inside maps/sets, order-independent outcomes (rd 0: an odd number of extra forms in a map is
# "even number of forms" whatever the order; a one-member set; below a vector/list that is a key or value)
EDN_EXP_NESTED = [
    {"m": [[{"f": "1e+23"}, {"i": 5}]]},
    {"m": [[{"i": 5}, {"f": "1.5e+300"}]]},
    {"m": [[{"f": "1e+23"}, {"i": 5}], [{"s": "a"}, {"s": "b"}], [{"i": 7}, {"i": 8}]]},
    {"m": [[{"f": "1e+23"}, {"f": "1e-07"}], [{"s": "a"}, {"f": "1.2e+20"}]]},
    {"set": [{"f": "1e+23"}]},
    {"set": [{"v": [{"f": "1e+23"}, {"i": 1}]}, {"kw": [None, "a"]}]},
    {"m": [[{"v": [{"f": "1e+23"}, {"i": 1}]}, {"i": 5}], [{"s": "a"}, {"l": [{"f": "1e-07"}]}]]},
    {"v": [{"m": [[{"kw": [None, "a"]}, {"l": [{"f": "-1e+16"}]}], [{"kw": [None, "b"]}, {"i": 1}]]}, {"f": "1e+23"}]},
]

EDN_TEXTS = ["1e+23", "1e-05", "1.0", "-0.0", ":a.b", ":a.c/b", ":a/b", "a.b", "nil", "-", "-a", "-1", "/", ":/", ":1",
             ":1a", "[1 []]", "()", "(1 2)", "#{1}", "{:a 1}", "{}", "#{}", '""', ":b/a", "a.b/x", "true", ":nil",
             ":a:b", "a#", ":#a", "+1", "+", ".5", ":-1", ":a b", "----a", "--->", "12-a", "a/.b", "a..b/c", "[1 2",
             "{1}", "ns//", "//", "--5", "1-2", " 5", ",,[,1,]", '{:a [1 2] "k" #{nil}}', '"a\\nb"', '"\\q"', '"abc',
             "[1 2)", ")", "a/b/c", ":a/b/c", "x.y.z/w", "false", ":true", "[nil true false]", "-12", "-1.5", "3.25",
             "(a b (c))", "[[[]]]", "#{#{}}", "{{} {}}", '"é中"', "é", "[a,b]", "1.5.2", "..", "a/", "/a", ":"]


def gen_json_key(rng):
    r = rng.random()
    nm = rng.choice(["a", "b", "k1", "x-y", "é", "", "a b"])
    if r < 0.4:
        return {"s": nm}
    if r < 0.8:
        return {"kw": [rng.choice([None, "n", "m"]), nm or "k"]}
    return {"sym": [rng.choice([None, "n"]), nm or "k"]}


def json_key_name(k):
    return k["s"] if "s" in k else (k["kw"][1] if "kw" in k else k["sym"][1])


def gen_json(rng, depth, distinct=True):
    if depth <= 0 or rng.random() < 0.45:
        r = rng.random()
        if r < 0.1:
            return None
        if r < 0.2:
            return {"b": rng.random() < 0.5}
        if r < 0.35:
            return {"i": rng.choice(E_INTS)}
        if r < 0.45:
            return {"f": rng.choice(E_FLOATS + E_EXP_FLOATS)}
        if r < 0.7:
            return {"s": "".join(rng.choice(ESC_ALPHA) for _ in range(rng.randint(0, 3)))}
        if r < 0.85:
            return {"kw": [rng.choice(E_NS), rng.choice(E_NAMES)]}
        return {"sym": [rng.choice(E_NS), rng.choice(E_NAMES)]}
    r = rng.random()
    n = rng.randint(0, 3)
    if r < 0.3:
        return {"v": [gen_json(rng, depth - 1, distinct) for _ in range(n)]}
    if r < 0.45:
        return {"l": [gen_json(rng, depth - 1, distinct) for _ in range(n)]}
    if r < 0.55:
        return {"set": [gen_json(rng, depth - 1, distinct) for _ in range(min(n, 1))]}
    out, names, keys = [], set(), set()
    for _ in range(n):
        k = gen_json_key(rng)
        if _jd(k) in keys or (distinct and json_key_name(k) in names):
            continue
        keys.add(_jd(k))
        names.add(json_key_name(k))
        out.append([k, gen_json(rng, depth - 1, distinct)])
    return {"m": out}


def _jd(x):
    import json
    return json.dumps(x, sort_keys=True)


def strings_upto(alpha, n):
    import itertools
    for k in range(n + 1):
        for t in itertools.product(alpha, repeat=k):
            yield "".join(t)


BL_STRS = ["", "a", "op", "é", "中", "e", "1:", "\U0001f600", "id"]


def gen_lkey(rng):
    r = rng.random()
    if r < 0.4:
        return {"s": rng.choice(BL_STRS)}
    if r < 0.8:
        return {"kw": [rng.choice([None, "n"]), rng.choice(["a", "op", "id", "é", "k-1"])]}
    return {"sym": [rng.choice([None, "n"]), rng.choice(["a", "op", "x"])]}


def lkey_text(k):
    if "s" in k:
        return k["s"]
    ns, nm = k.get("kw") or k.get("sym")
    return nm if ns is None else ns + "/" + nm


def gen_lval(rng, depth, distinct=True):
    r = rng.random()
    if depth <= 0 or r < 0.5:
        q = rng.random()
        if q < 0.25:
            return {"i": rng.choice(B_INTS)}
        if q < 0.45:
            return {"by": list(rng.choice(B_STRS))}
        if q < 0.7:
            return {"s": rng.choice(BL_STRS)}
        if q < 0.85:
            return {"kw": [rng.choice([None, "n"]), rng.choice(["a", "op", "é"])]}
        return {"sym": [rng.choice([None, "n"]), rng.choice(["a", "x"])]}
    if r < 0.65:
        return {"v": [gen_lval(rng, depth - 1, distinct) for _ in range(rng.randint(0, 3))]}
    if r < 0.75:
        return {"l": [gen_lval(rng, depth - 1, distinct) for _ in range(rng.randint(0, 3))]}
    out, texts, keys = [], set(), set()
    for _ in range(rng.randint(0, 4)):
        k = gen_lkey(rng)
        if _jd(k) in keys or (distinct and lkey_text(k) in texts):
            continue
        keys.add(_jd(k))
        texts.add(lkey_text(k))
        out.append([k, gen_lval(rng, depth - 1, distinct)])
    return {"m": out}


def gen_stream(rng):
    return [gen_bval(rng, 2) for _ in range(rng.randint(1, 4))]


def cases(tier, rng):
    n_streams = 200 if tier == "quick" else 5000
    streams = list(FIXED_STREAMS) + [gen_stream(rng) for _ in range(n_streams)]
    for msgs in streams:
        total = sum(len(py_encode(m)) for m in msgs)
        if total > 160 and tier == "quick":
            continue
        yield {"k": "bstream", "msgs": msgs}
    for msgs in streams[: (60 if tier == "quick" else 400)]:
        for m in msgs:
            yield {"k": "benc", "v": m}
    for _ in range(250 if tier == "quick" else 4000):
        yield {"k": "blisp", "v": gen_lval(rng, 3)}
    for b in RAW_FIXED:
        yield {"k": "braw", "data": list(b)}
    for _ in range(300 if tier == "quick" else 5000):
        data = bytearray(b"".join(py_encode(m) for m in gen_stream(rng)))[:60]
        for _ in range(rng.randint(1, 3)):
            op = rng.random()
            pos = rng.randint(0, len(data))
            if op < 0.4 and data:
                data[min(pos, len(data) - 1)] = rng.choice(MUT_BYTES)
            elif op < 0.7:
                data.insert(pos, rng.choice(MUT_BYTES))
            elif data:
                del data[min(pos, len(data) - 1)]
        yield {"k": "braw", "data": list(data)}
    # ---- EDN: the findings' own witnesses first
    for rd in (0, 1):
        for tok in (E_EXP_FLOATS if rd == 0 else E_EXP_FLOATS_LISP):
            yield {"k": "edn", "rd": rd, "v": {"f": tok}}
        yield {"k": "edn", "rd": rd, "v": {"kw": [None, "a.b"]}}
        yield {"k": "edn", "rd": rd, "v": {"v": [{"kw": ["n", "x.y"]}, {"f": "1e+23"}]}}
        # exponent floats inside maps and sets, where the outcome cannot depend on the writer's hash order
        for v in EDN_EXP_NESTED:
            yield {"k": "edn", "rd": rd, "v": v}
    # strings over escape-relevant characters: exhaustive to length 2 (quick) / 3 (thorough)
    alpha = ESC_ALPHA[:12]
    strs = list(strings_upto(ESC_ALPHA, 2)) if tier == "quick" else list(strings_upto(alpha, 3)) + list(strings_upto(ESC_ALPHA, 2))
    if tier == "quick":
        strs += ["".join(rng.choice(ESC_ALPHA) for _ in range(3)) for _ in range(250)]
    for st in strs:
        yield {"k": "edn", "rd": 0, "v": {"s": st}}
    for st in (strs if tier != "quick" else strs[::3]):
        yield {"k": "edn", "rd": 1, "v": {"s": st}}
    for st in strs[::4]:
        yield {"k": "json", "v": {"s": st}}
    # scalars and names, both readers
    for rd in (0, 1):
        for i in E_INTS:
            yield {"k": "edn", "rd": rd, "v": {"i": i}}
        for f in E_FLOATS:
            yield {"k": "edn", "rd": rd, "v": {"f": f}}
        for v in (None, {"b": True}, {"b": False}):
            yield {"k": "edn", "rd": rd, "v": v}
        for nm in E_NAMES:
            for ns in (None, "n", "a.b"):
                yield {"k": "edn", "rd": rd, "v": {"kw": [ns, nm]}}
                if not (ns is not None and nm.startswith(".")):
                    yield {"k": "edn", "rd": rd, "v": {"sym": [ns, nm]}}
    for _ in range(400 if tier == "quick" else 8000):
        rd = rng.randint(0, 1)
        yield {"k": "edn", "rd": rd, "v": gen_edn(rng, rd, 3, findings=rng.random() < 0.3)}
    for rd in (0, 1):
        for t in EDN_TEXTS:
            yield {"k": "ednt", "rd": rd, "text": t}
    for _ in range(300 if tier == "quick" else 4000):
        yield {"k": "json", "v": gen_json(rng, 3)}


# ---- Gallina -------------------------------------------------------------------------
def hx(b):
    return '(hx "' + bytes(b).hex() + '")'


def coq_bval(j):
    if j is None:
        return "BNil"
    if "i" in j:
        return f"(BInt {G.z(j['i'])})"
    if "s" in j:
        return f"(BStr {hx(j['s'])})"
    if "l" in j:
        return "(BList " + G.lst([coq_bval(e) for e in j["l"]], "bval") + ")"
    if "d" in j:
        return "(BDict " + G.lst([f"({hx(k)}, {coq_bval(v)})" for k, v in j["d"]], "(bytes * bval)") + ")"
    raise ValueError(j)


def _has_other(j):
    if j is None:
        return False
    if "other" in j:
        return True
    if "l" in j:
        return any(_has_other(e) for e in j["l"])
    if "d" in j:
        return any(_has_other(v) for _, v in j["d"])
    return False


def cps(text):
    """code points of a Python str as a Gallina list N (short strings)"""
    return G.s(text)


def ostr(x):
    return "None" if x is None else f"(Some {cps(x)})"


OTHER_NS = "\x00other"


def coq_edn(j):
    if j is None:
        return "ENil"
    if "other" in j:
        return f"(ESym (Some {cps(OTHER_NS)}) {cps(j['other'])})"
    if "b" in j:
        return f"(EBool {G.b(j['b'])})"
    if "i" in j:
        return f"(EInt {G.z(j['i'])})"
    if "f" in j:
        return f"(EFloat {cps(j['f'])})"
    if "s" in j:
        return f"(EStr {cps(j['s'])})"
    if "kw" in j:
        return f"(EKw {ostr(j['kw'][0])} {cps(j['kw'][1])})"
    if "sym" in j:
        return f"(ESym {ostr(j['sym'][0])} {cps(j['sym'][1])})"
    if "v" in j:
        return "(EVec " + G.lst([coq_edn(e) for e in j["v"]], "edn") + ")"
    if "l" in j:
        return "(EList " + G.lst([coq_edn(e) for e in j["l"]], "edn") + ")"
    if "set" in j:
        return "(ESet " + G.lst([coq_edn(e) for e in j["set"]], "edn") + ")"
    if "m" in j:
        return "(EMap " + G.lst([f"({coq_edn(k)}, {coq_edn(v)})" for k, v in j["m"]], "(edn * edn)") + ")"
    raise ValueError(j)


def coq_jkey(k):
    if "s" in k:
        return f"(JKStr {cps(k['s'])})"
    if "kw" in k:
        return f"(JKKw {ostr(k['kw'][0])} {cps(k['kw'][1])})"
    if "sym" in k:
        return f"(JKSym {ostr(k['sym'][0])} {cps(k['sym'][1])})"
    return f"(JKStr {cps(chr(0) + 'other')})"


def coq_jval(j):
    if j is None:
        return "JNil"
    if "other" in j:
        return f"(JSym (Some {cps(OTHER_NS)}) {cps(j['other'])})"
    if "b" in j:
        return f"(JBool {G.b(j['b'])})"
    if "i" in j:
        return f"(JInt {G.z(j['i'])})"
    if "f" in j:
        return f"(JFloat {cps(j['f'])})"
    if "s" in j:
        return f"(JStr {cps(j['s'])})"
    if "kw" in j:
        return f"(JKw {ostr(j['kw'][0])} {cps(j['kw'][1])})"
    if "sym" in j:
        return f"(JSym {ostr(j['sym'][0])} {cps(j['sym'][1])})"
    if "v" in j:
        return "(JVec " + G.lst([coq_jval(e) for e in j["v"]], "jval") + ")"
    if "l" in j:
        return "(JList " + G.lst([coq_jval(e) for e in j["l"]], "jval") + ")"
    if "set" in j:
        return "(JSet " + G.lst([coq_jval(e) for e in j["set"]], "jval") + ")"
    if "m" in j:
        return "(JMap " + G.lst([f"({coq_jkey(k)}, {coq_jval(v)})" for k, v in j["m"]], "(jkey * jval)") + ")"
    raise ValueError(j)


def order_free(j):
    if j is None:
        return True
    for tag in ("v", "l"):
        if tag in j:
            return all(order_free(e) for e in j[tag])
    if "set" in j:
        return len(j["set"]) <= 1 and all(order_free(e) for e in j["set"])
    if "m" in j:
        return len(j["m"]) <= 1 and all(order_free(k) and order_free(v) for k, v in j["m"])
    return True


def coq_lkey(k):
    if "s" in k:
        return f"(LKStr {cps(k['s'])})"
    if "kw" in k:
        return f"(LKKw {ostr(k['kw'][0])} {cps(k['kw'][1])})"
    return f"(LKSym {ostr(k['sym'][0])} {cps(k['sym'][1])})"


def coq_lval(j):
    if "i" in j:
        return f"(LInt {G.z(j['i'])})"
    if "by" in j:
        return f"(LBytes {hx(j['by'])})"
    if "s" in j:
        return f"(LStr {cps(j['s'])})"
    if "kw" in j:
        return f"(LKw {ostr(j['kw'][0])} {cps(j['kw'][1])})"
    if "sym" in j:
        return f"(LSym {ostr(j['sym'][0])} {cps(j['sym'][1])})"
    if "v" in j:
        return "(LVec " + G.lst([coq_lval(e) for e in j["v"]], "lval") + ")"
    if "l" in j:
        return "(LList " + G.lst([coq_lval(e) for e in j["l"]], "lval") + ")"
    if "m" in j:
        return "(LMap " + G.lst([f"({coq_lkey(k)}, {coq_lval(v)})" for k, v in j["m"]], "(lkey * lval)") + ")"
    raise ValueError(j)


_CUR = {}


def coq_case(c):
    k = c["k"]
    _CUR["case"] = c
    if k == "edn":
        return f"(CEdn {c['rd']}%N {coq_edn(c['v'])})"
    if k == "ednt":
        return f"(CEdnText {c['rd']}%N {cps(c['text'])})"
    if k == "json":
        return f"(CJson {coq_jval(c['v'])})"
    if k == "blisp":
        return f"(CBLisp {coq_lval(c['v'])})"
    if k == "bstream":
        return "(CBStream " + G.lst([coq_bval(m) for m in c["msgs"]], "bval") + ")"
    if k == "braw":
        return f"(CBRaw {hx(c['data'])})"
    if k == "benc":
        return f"(CBEnc {coq_bval(c['v'])})"
    raise ValueError(k)


def coq_out(o):
    if o.get("__timeout__") or o.get("__hang__"):
        return "(OErr 3%N)"
    if "err" in o:
        return "(OErr 1%N)"
    if "items" in o:
        if any(_has_other(i) for i in o["items"]):
            return "(OErr 2%N)"
        return "(OBAll " + G.lst([coq_bval(i) for i in o["items"]], "bval") + " " + hx(o["rest"]) + ")"
    if "cuts" in o:
        if any(_has_other(i) for its, _ in o["cuts"] for i in its):
            return "(OErr 2%N)"
        return "(OBCuts [" + "; ".join(
            "(" + G.lst([coq_bval(i) for i in its], "bval") + ", " + hx(rest) + ")" for its, rest in o["cuts"]) + "])"
    if "bytes" in o:
        return f"(OBytes {hx(o['bytes'])})"
    if "back" in o or "rerr" in o:
        c = _CUR.get("case") or {}
        shown = o.get("text", "") if (c.get("k") == "edn" and order_free(c.get("v"))) else ""
        if "back" in o:
            return f"(OEdn {cps(shown)} {coq_edn(o['back'])})"
        return f"(OEdnErr {cps(shown)} {int(o['rerr'])}%N)"
    if "jback" in o:
        return f"(OJson {coq_jval(o['jback'])})"
    return "(OErr 2%N)"


def _walk(j):
    if j is None:
        return
    yield j
    for tag in ("v", "l", "set"):
        if tag in j:
            for e in j[tag]:
                yield from _walk(e)
    if "m" in j:
        for k, v in j["m"]:
            yield from _walk(k)
            yield from _walk(v)


def has_exp_float(j):
    return any("f" in e and ("e" in e["f"] or "E" in e["f"]) for e in _walk(j))


def has_dotted_kw(j):
    return any("kw" in e and "." in e["kw"][1] for e in _walk(j))


FINDINGS.update({
    "F-19a": lambda c, o: c["k"] == "edn" and c["rd"] == 0 and has_exp_float(c["v"]),
    "F-19b": lambda c, o: c["k"] == "edn" and c["rd"] == 0 and has_dotted_kw(c["v"]),
    "F-19c": lambda c, o: c["k"] == "edn" and c["rd"] == 1 and has_exp_float(c["v"]),
})


def nontrivial(c, o):
    if c["k"] == "bstream":
        return True
    if c["k"] == "braw":
        return len(c["data"]) > 0
    if c["k"] in ("edn", "json"):
        return c["v"] is not None
    return True


def describe(c):
    if c["k"] == "bstream":
        return f"bencode stream of {len(c['msgs'])} messages, every cut point"
    return c["k"]


def shrink(c):
    if c["k"] == "bstream":
        msgs = c["msgs"]
        for i in range(len(msgs)):
            rest = msgs[:i] + msgs[i + 1:]
            if rest:
                yield dict(c, msgs=rest)
    if c["k"] == "braw":
        d = c["data"]
        for i in range(len(d)):
            yield dict(c, data=d[:i] + d[i + 1:])


def extra_evidence(cases_, outs):
    dist = {}
    for c in cases_:
        dist[c["k"]] = dist.get(c["k"], 0) + 1
    cuts = sum(len(o.get("cuts", [])) for c, o in zip(cases_, outs) if c["k"] == "bstream")
    hazard = sum(1 for c in cases_ if c["k"] == "edn" and c["rd"] == 0 and exp_order_hazard(c["v"]))
    nested = sum(1 for c in cases_ if c["k"] == "edn" and c["rd"] == 0 and has_exp_float(c["v"])
                 and not is_exp_float(c["v"]))
    return {"input_distribution": dist, "bencode_cut_points_evaluated": cuts,
            "edn_cases_with_nested_exponent_floats": nested,
            "edn_cases_with_order_dependent_exponent_floats": hazard}
