"""C19 -- EDN, JSON and bencode codecs invert themselves and never mis-frame."""
from harness.vlib import gallina as G

ID = "C19"
TITLE = "EDN, JSON and bencode codecs invert themselves and never mis-frame"
CORR = "Verif.C19.Corr"
CORR_TARGETS = ["theories/C19/Corr.vo"]
TARGETS = ["theories/Properties/C19.vo"]
PROPERTIES_FILE = "theories/Properties/C19.v"
IMPL = "harness.props.c19_impl"
TABLE_DEPS = []
SHARD = 150
FINDINGS = {}
EXHAUSTIVE = {"quick": False, "thorough": False}
RULE = ("bencode: generated message streams (1-4 canonical messages: ints of any size, byte strings over "
        "framing-relevant bytes, nested lists, dicts), EVERY cut point 0..len of every stream through "
        "decode-all; encode alone; a malformed stream (hand-written + mutations of valid streams). "
        "A case is non-trivial when the stream is non-empty; distinct = distinct JSON encoding.")
TRUSTED = ["CPython int(bytes)/str(int) modelled by py_int/dec_Z (base 10, whitespace, sign, underscores); the "
           "4300-digit limit of int<->str conversion is outside the model",
           "CPython sorted() modelled as a stable insertion sort on the encoded key",
           "Python bytes slicing/index modelled by firstn/skipn/index_of (negative slice bounds included)"]
ASSUMPTIONS = ["bencode decode is modelled with empty opts (identity :string-fn/:key-fn); nil and b\"\" are identified "
               "(every operation of the source raises on nil where it raises or cannot occur on b\"\")",
               "a nil dict key (negative length prefix in key position, malformed input only) is not representable "
               "in the model (model answers Exc)"]


# ---- generators ----------------------------------------------------------------------
B_INTS = [0, 1, -1, 7, 10, -42, 100, 255, 2 ** 31, -2 ** 63, 10 ** 20, -10 ** 30 + 1]
B_STRS = [b"", b"a", b"e", b"i", b"l", b"d", b"0", b":", b"-", b"1:", b"i1e", b"le", b"de", b"\x00", b"\xff",
          "é".encode(), b"3:abc", b"0123456789", b"0123456789a", b"e" * 12, b"i-0e", b" 1", b"1_0"]
B_KEYS = ["", "a", "b", "ab", "e", "i1e", "0:", ":", "é", "op", "id", "code", "l", "d", "1", "-1"]


def J_int(n):
    return {"i": n}


def J_str(b):
    return {"s": list(b)}


def gen_bval(rng, depth):
    r = rng.random()
    if depth <= 0 or r < 0.55:
        if rng.random() < 0.4:
            return J_int(rng.choice(B_INTS) if rng.random() < 0.8 else rng.randint(-10 ** 6, 10 ** 6))
        return J_str(rng.choice(B_STRS))
    if r < 0.8:
        return {"l": [gen_bval(rng, depth - 1) for _ in range(rng.randint(0, 3))]}
    keys = sorted(set(rng.sample(B_KEYS, rng.randint(0, 3))), key=lambda s: s.encode("utf-8"))
    return {"d": [[list(k.encode("utf-8")), gen_bval(rng, depth - 1)] for k in keys]}


def py_encode(j):
    """Reference bencode in the harness, used only to know the stream length (the cut range)."""
    if "i" in j:
        return b"i%de" % j["i"]
    if "s" in j:
        return b"%d:" % len(j["s"]) + bytes(j["s"])
    if "l" in j:
        return b"l" + b"".join(py_encode(e) for e in j["l"]) + b"e"
    return b"d" + b"".join(py_encode(J_str(bytes(k))) + py_encode(v) for k, v in j["d"]) + b"e"


FIXED_STREAMS = [
    [J_int(0)], [J_int(-1), J_int(10)], [J_str(b"")], [J_str(b""), J_str(b"")], [J_str(b"0123456789a")],
    [{"l": []}], [{"d": []}], [{"l": [{"l": []}, {"d": []}]}],
    [{"d": [[list(b"code"), J_str(b"(+ 1 2)")], [list(b"id"), J_str(b"1")], [list(b"op"), J_str(b"eval")]]},
     {"d": [[list(b"id"), J_str(b"2")], [list(b"op"), J_str(b"clone")]]}],
    [{"l": [J_str(b"e"), J_int(5)]}, J_str(b"i1e"), J_int(10 ** 20)],
    [{"d": [[list(b""), {"l": [J_str(b"")]}], [list(b"a"), {"d": [[list(b"e"), J_int(-7)]]}]]}],
]

RAW_FIXED = [b"", b"i-0e", b"i007e", b"i-e", b"ie", b"i e", b"i 5 e", b"i+5e", b"i1_0e", b"i1__0e", b"i_1e", b"i1_e",
             b"03:abc", b"-1:abc", b"-1:a", b"-2:abcd", b"-9:ab", b"0:", b"0:x", b"3:ab", b"3:", b"3", b"l", b"le",
             b"li1e", b"li1ee", b"d", b"de", b"d1:ae", b"d1:ai1ee", b"d1:ai1e1:ai2ee", b"d1:bi1e1:ai2ee", b"i5ei6",
             b"i5ei6e3:ab", b"e", b"x", b"x1:a", b"di1ei2ee", b"li1e3:ab", b"i1", b"lli1e", b"i5e0:", b"0:0:",
             b" 1:a", b"1 :a", b"+1:a", b"i\xd9\xa1e", b"l0:e", b"d0:0:e", b"l-1:e", b"l-1:aee", b"i\t7\ne",
             b"i--1e", b"i-+1e", b"i1 2e", b"1_0:0123456789", b"i-ei5e", b"i12", b"4:ab:cd", b":a", b"1::", b"00:",
             b"-0:", b"-0:abc", b"i0x10e", b"l1:ai2ed1:ai3eee5:hello", b"d1:al1:bee1:c"]
MUT_BYTES = b"-0:ei ld_+1\x00"


def gen_stream(rng):
    return [gen_bval(rng, 2) for _ in range(rng.randint(1, 4))]


def cases(tier, rng):
    n_streams = 400 if tier == "quick" else 5000
    streams = list(FIXED_STREAMS) + [gen_stream(rng) for _ in range(n_streams)]
    for msgs in streams:
        total = sum(len(py_encode(m)) for m in msgs)
        if total > 160 and tier == "quick":
            continue
        yield {"k": "bstream", "msgs": msgs}
    for msgs in streams[: (60 if tier == "quick" else 400)]:
        for m in msgs:
            yield {"k": "benc", "v": m}
    for b in RAW_FIXED:
        yield {"k": "braw", "data": list(b)}
    for _ in range(300 if tier == "quick" else 5000):
        data = bytearray(b"".join(py_encode(m) for m in gen_stream(rng)))[:60]
        for _ in range(rng.randint(1, 3)):
            op = rng.random()
            pos = rng.randint(0, len(data))
            if op < 0.4 and data:
                data[min(pos, len(data) - 1)] = rng.choice(MUT_BYTES)
            elif op < 0.7:
                data.insert(pos, rng.choice(MUT_BYTES))
            elif data:
                del data[min(pos, len(data) - 1)]
        yield {"k": "braw", "data": list(data)}


# ---- Gallina -------------------------------------------------------------------------
def hx(b):
    return '(hx "' + bytes(b).hex() + '")'


def coq_bval(j):
    if j is None:
        return "BNil"
    if "i" in j:
        return f"(BInt {G.z(j['i'])})"
    if "s" in j:
        return f"(BStr {hx(j['s'])})"
    if "l" in j:
        return "(BList " + G.lst([coq_bval(e) for e in j["l"]], "bval") + ")"
    if "d" in j:
        return "(BDict " + G.lst([f"({hx(k)}, {coq_bval(v)})" for k, v in j["d"]], "(bytes * bval)") + ")"
    raise ValueError(j)


def _has_other(j):
    if j is None:
        return False
    if "other" in j:
        return True
    if "l" in j:
        return any(_has_other(e) for e in j["l"])
    if "d" in j:
        return any(_has_other(v) for _, v in j["d"])
    return False


def coq_case(c):
    k = c["k"]
    if k == "bstream":
        return "(CBStream " + G.lst([coq_bval(m) for m in c["msgs"]], "bval") + ")"
    if k == "braw":
        return f"(CBRaw {hx(c['data'])})"
    if k == "benc":
        return f"(CBEnc {coq_bval(c['v'])})"
    raise ValueError(k)


def coq_out(o):
    if o.get("__timeout__") or o.get("__hang__"):
        return "(OErr 3%N)"
    if "err" in o:
        return "(OErr 1%N)"
    if "items" in o:
        if any(_has_other(i) for i in o["items"]):
            return "(OErr 2%N)"
        return "(OBAll " + G.lst([coq_bval(i) for i in o["items"]], "bval") + " " + hx(o["rest"]) + ")"
    if "cuts" in o:
        if any(_has_other(i) for its, _ in o["cuts"] for i in its):
            return "(OErr 2%N)"
        return "(OBCuts [" + "; ".join(
            "(" + G.lst([coq_bval(i) for i in its], "bval") + ", " + hx(rest) + ")" for its, rest in o["cuts"]) + "])"
    if "bytes" in o:
        return f"(OBytes {hx(o['bytes'])})"
    return "(OErr 2%N)"


def nontrivial(c, o):
    if c["k"] == "bstream":
        return True
    if c["k"] == "braw":
        return len(c["data"]) > 0
    return True


def describe(c):
    if c["k"] == "bstream":
        return f"bencode stream of {len(c['msgs'])} messages, every cut point"
    return c["k"]


def shrink(c):
    if c["k"] == "bstream":
        msgs = c["msgs"]
        for i in range(len(msgs)):
            rest = msgs[:i] + msgs[i + 1:]
            if rest:
                yield dict(c, msgs=rest)
    if c["k"] == "braw":
        d = c["data"]
        for i in range(len(d)):
            yield dict(c, data=d[:i] + d[i + 1:])


def extra_evidence(cases_, outs):
    dist = {}
    for c in cases_:
        dist[c["k"]] = dist.get(c["k"], 0) + 1
    cuts = sum(len(o.get("cuts", [])) for c, o in zip(cases_, outs) if c["k"] == "bstream")
    return {"input_distribution": dist, "bencode_cut_points_evaluated": cuts}
