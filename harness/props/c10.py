"""C10 -- a name denotes one binding, and reading it sees the value last given to it.

Cases (JSON):
  {"k": "hist", "nss": [ns...], "modes": [[indirection, inline]...],
   "steps": [{"op": [...], "rf": {"readers": [[rns, [qualifier...]]...], "names": [...],
                                  "let": name|null, "partner": name|null}}...]}
     op: ["def", name, [dynamic, redef, private], value] | ["in-ns", ns] | ["require", ns, alias|null]
         | ["refer", ns, [names]] | ["alter", ns, name, value]
         | ["push", ns, name, value]   enter a thread binding of Var ns/name (everything up to the matching
                                       ["pop"] runs inside its dynamic extent)
         | ["pop"]                     leave the innermost binding entered by a successful push
     optional "bind": "form" -- a push is executed as the real macro form
         (basilisp.core/binding [ns/name value] (<callback>)), the callback running the following steps up to
         the pop that leaves it -- or "rt" (default): runtime.push_thread_bindings / pop_thread_bindings on the
         interned Var object.
     rf: the reads requested after the step, expanded by expand() here and by Corr.mk_reads in Coq:
         [rns, loc|null, q|null, name] = the symbol name (q = null) or q/name, optionally inside
         (let* [x v] ...), compiled in namespace rns.
     '@' in any string is replaced by a per-case unique prefix on the implementation side; the
     prefix used is returned and the Gallina case is built from it (coq_pair).
   optional "files": {ns: [[name, flags, value]...]}: these namespaces are not created in memory but
     written as .lpy files ((ns X) (def ...)...) into a scratch directory on sys.path; they are loaded by
     the first require/refer naming them.  On the Coq side that load is the three steps
     in-ns X; def ...; in-ns <back> inserted before that require (coq_pair).
  {"k": "munge", "l": [strings]}
"""
import itertools

from harness.vlib import gallina as G

ID = "C10"
TITLE = "A name denotes one binding, and reading it sees the value last given to it"
CORR = "Verif.C10.Corr"
CORR_TARGETS = ["theories/C10/Corr.vo"]
TARGETS = ["theories/Properties/C10.vo"]
PROPERTIES_FILE = "theories/Properties/C10.v"
IMPL = "harness.props.c10_impl"
TAGGED = True
SHARD = 1024
TABLE_DEPS = ["munge_replacements"]
HARD_TIMEOUT = 120
WORKER_ENV = {"BASILISP_EMIT_GENERATED_PYTHON": "false"}
RULE = ("histories of def (plain / ^:dynamic / ^:redef / ^:private) / redefinition / in-ns / require :as / refer "
        ":only / alter-var-root over 4 namespaces whose module aliases collide (@.u, @.foo.bar, @.foo-bar, "
        "@.foo_bar) and 11 names with munging near-collisions (a-b a_b x? x__Q__ print print_ class + --PLUS-- v "
        "@-foo-bar); after every step every name defined so far is read bare, through every alias of the reading "
        "namespace, fully qualified by every namespace, and under a let* local of the same / of a colliding name; "
        "each read compiled with direct linking and with use-var-indirection (a fifth of the cases also with "
        "inline-functions off). Exhaustive: all histories of length <= 3 over 6 step kinds for each of the 4 "
        "colliding name pairs, length 4 over 5 step kinds for a-b/a_b, length <= 3 over 7 namespace step kinds, length 4 over 5, "
        "length <= 3 over 7 privacy step kinds, length <= 2 (+40 of length 3) over 6 step kinds on FILE-BACKED "
        "namespaces written to a scratch directory; random histories of length 5-12 beyond (read after every "
        "step). Thread bindings (one thread): after (def ^:dynamic *v* ..), and again after (def ^:dynamic *v* ..) + an "
        "open binding of *v*, every history of length <= 3 (+80 of length 4) over {redefinition with ^:dynamic, redefinition without, enter a binding of *v*, leave the "
        "innermost binding, alter-var-root}, and 160 random histories of length 7-15 with nested bindings of two "
        "dynamic Vars, attempts to bind a plain and a missing Var, redefinitions (mostly keeping, sometimes "
        "dropping ^:dynamic), root mutations, in-ns / require between two namespaces; every def and every read is "
        "compiled and run by the real compiler INSIDE the dynamic extent of the open bindings; alternately "
        "through runtime.push_thread_bindings / pop_thread_bindings and through real "
        "(basilisp.core/binding [ns/name v] (callback)) forms whose callback runs the following steps; the "
        "general random histories also enter / leave bindings. munge: the real "
        "util.munge on every string of length <= 2 over 19 characters, the pool, all Python keywords and builtins "
        "with and without a trailing underscore, random strings. Non-trivial = a history of >= 2 steps in which "
        "some read yields a value; distinct = distinct JSON.")
TRUSTED = ["CPython module globals and attribute access behave like the association list `mods` of C10/Names.v",
           "threading.local: within one thread a Var's `_tl.bindings` and `_THREAD_BINDINGS` behave like the lists "
           "`stacks` / `mframes` of C10/BNames.v (other threads: C11)",
           "the Var store (Var.intern / bind_root / alter_root, Namespace interns/refers/aliases) behaves like the "
           "cells of C10/Spec.v (their concurrency is C12's subject)",
           "keyword.kwlist and dir(builtins) of the running CPython (regenerated into Gen/Tables.v on every run)",
           "str.translate / str.replace (modelled as flat_map / map over code points)"]
ASSUMPTIONS = ["names and aliases do not collide with the bootstrap globals of a namespace module (_NS, attr_N, "
               "basilisp, ...) nor with the default imports; no ns-unmap / ns-unalias / :rename / import",
               "reads are top-level forms, compiled and executed immediately (compile time = run time)",
               "namespaces are in-memory (Namespace.require falls back to the namespace cache)",
               "thread bindings: one thread, one Var per binding frame, no set! (conveyance to other threads and "
               "frames of several Vars are C11's subject); locals are let* locals of the read form (closures: C01)"]
FINDINGS = {
    "F-10a": lambda c, o, tag: bool(tag & 1),
    "F-10b": lambda c, o, tag: bool(tag & 2),
    "F-10c": lambda c, o, tag: bool(tag & 4),
    "F-10e": lambda c, o, tag: bool(tag & 8),
}
EXHAUSTIVE = {"quick": False, "thorough": False}

U, X, Y, Z = "@.u", "@.foo.bar", "@.foo-bar", "@.foo_bar"
NSS = [U, X, Y, Z]
ALIAS = {U: "uu", X: "fb", Y: "fd", Z: "fu"}
PAIRS = [("a-b", "a_b"), ("x?", "x__Q__"), ("print", "print_"), ("+", "--PLUS--")]
POOL = ["a-b", "a_b", "x?", "x__Q__", "print", "print_", "class", "+", "--PLUS--", "v", "@-foo-bar"]
PARTNER = {}
for _p, _q in PAIRS:
    PARTNER[_p] = _q
    PARTNER[_q] = _p
PARTNER["class"] = "class_"
PLAIN = [0, 0, 0]
M2 = [[0, 1], [1, 1]]
M4 = [[0, 1], [1, 1], [0, 0], [1, 0]]


# ---- building cases: bookkeeping only (which reads to request), no semantics -------------
def expand(rf):
    """the explicit read requests of a step (mirrors Corr.mk_reads)"""
    reads = []
    for rns, quals in rf["readers"]:
        for n in rf["names"]:
            reads.append([rns, None, None, n])
            for q in quals:
                reads.append([rns, None, q, n])
        n0 = rf["let"]
        if n0 is not None:
            reads.append([rns, [n0, 77], None, n0])
            reads.append([rns, [n0, 77], rns, n0])
            if rf["partner"] is not None:
                reads.append([rns, [rf["partner"], 78], None, n0])
    return reads


NO_READS = {"readers": [], "names": [], "let": None, "partner": None}


def with_reads(nss, ops, modes=M2, wide=False, every=False, maxnames=4, files=None, bind=None):
    """attach read requests: after the last step (after every step when `every`) read the
    `maxnames` most recently defined names from the current namespace (`wide` or last step:
    from every namespace visited so far)"""
    cur = nss[0]
    defined = [d[0] for defs in (files or {}).values() for d in defs]   # names defined (anywhere), most recent last
    aliases = {}            # reading ns -> [alias...]
    visited = [cur]
    steps = []
    for i, op in enumerate(ops):
        if op[0] == "def":
            if op[1] in defined:
                defined.remove(op[1])
            defined.append(op[1])
        elif op[0] == "in-ns":
            cur = op[1]
            if cur not in visited:
                visited.append(cur)
        elif op[0] == "require" and op[2] is not None:
            aliases.setdefault(cur, [])
            if op[2] not in aliases[cur]:
                aliases[cur].append(op[2])
        elif op[0] == "refer":
            for n in op[2]:
                if n not in defined:
                    defined.insert(0, n)
        last = i == len(ops) - 1
        if not (last or every):
            steps.append({"op": op, "rf": NO_READS})
            continue
        names = defined[-maxnames:] or [POOL[0]]
        readers = visited if (last or wide) else [cur]
        known_ns = nss + sorted(files or {}) + [v for v in visited if v not in nss]
        n0 = names[-1]
        rf = {"readers": [[rns, known_ns + aliases.get(rns, [])] for rns in readers],
              "names": names, "let": n0, "partner": PARTNER.get(n0)}
        steps.append({"op": op, "rf": rf})
    case = {"k": "hist", "nss": list(nss), "modes": modes, "steps": steps}
    if files:
        case["files"] = files
    if bind:
        case["bind"] = bind
    return case


def number(ops):
    """give every def/alter/push its own value"""
    out = []
    for i, op in enumerate(ops):
        op = list(op)
        if op[0] in ("def", "alter", "push"):
            op[-1] = 101 + i
        out.append(op)
    return out


def sequences(alphabet, maxlen, minlen=1):
    for n in range(minlen, maxlen + 1):
        for seq in itertools.product(alphabet, repeat=n):
            yield number(seq)


def alpha_pair(p, q):
    return [["def", p, PLAIN, 0], ["def", q, PLAIN, 0], ["def", q, [0, 1, 0], 0], ["def", p, [1, 0, 0], 0],
            ["alter", U, p, 0], ["alter", U, q, 0]]


ALPHA_NS7 = [["def", "v", PLAIN, 0], ["in-ns", X], ["in-ns", Y], ["in-ns", U],
             ["require", X, "fb"], ["require", Y, "fd"], ["refer", X, ["v"]]]
ALPHA_NS5 = [["def", "v", PLAIN, 0], ["in-ns", Y], ["in-ns", U], ["require", X, "fb"], ["require", Y, "fd"]]
ALPHA_PRIV = [["def", "v", PLAIN, 0], ["def", "v", [0, 0, 1], 0], ["in-ns", X], ["in-ns", U],
              ["refer", X, ["v"]], ["require", X, "fb"], ["alter", X, "v", 0]]


# refers of one name from two namespaces, wholesale and :only, in every order (the last refer wins)
REFER_PREFIX = [["in-ns", X], ["def", "v", PLAIN, 0], ["def", "a-b", PLAIN, 0], ["in-ns", Y], ["def", "v", PLAIN, 0],
                ["def", "a-b", PLAIN, 0], ["in-ns", U]]
ALPHA_REFER = [["refer", X, ["v"]], ["refer", X, []], ["refer", Y, ["v"]], ["refer", Y, []], ["refer", Y, ["a-b"]]]


# file-backed namespaces (foo-bar and foo_bar would be the same file foo_bar.lpy)
FILES = {X: [["v", PLAIN, 1], ["a-b", PLAIN, 2]], Y: [["v", PLAIN, 3], ["a_b", PLAIN, 4]]}
ALPHA_DISK = [["require", X, "fb"], ["require", Y, "fd"], ["refer", X, ["v"]], ["refer", Y, ["a_b"]],
              ["def", "v", PLAIN, 0], ["alter", X, "v", 0]]


# ---- thread bindings of dynamic Vars ----
DV, DW = "*v*", "*w*"
DYN, DYNREDEF = [1, 0, 0], [1, 1, 0]
# one dynamic Var: redefinition keeping / dropping ^:dynamic, enter, leave, root mutation
ALPHA_BIND = [["def", DV, DYN, 0], ["def", DV, PLAIN, 0], ["push", U, DV, 0], ["pop"], ["alter", U, DV, 0]]
BIND_PREFIX = [["def", DV, DYN, 0]]


def bind_history(rng, n):
    """nested bindings of two dynamic Vars and attempts on a plain / a missing one, from two namespaces"""
    ops = [["def", DV, DYN, 0], ["def", DW, rng.choice([DYN, DYNREDEF]), 0], ["def", "v", PLAIN, 0]]
    for _ in range(n):
        r = rng.random()
        if r < 0.30:
            ops.append(["push", U, rng.choice([DV, DV, DV, DW, DW, "v", "nope"]), 0])
        elif r < 0.50:
            ops.append(["pop"])
        elif r < 0.72:
            name = rng.choice([DV, DV, DW, "v"])
            if name == "v":
                fl = PLAIN
            else:                       # mostly keep the marking; sometimes drop / restore it (F-10e)
                fl = rng.choice([DYN] * 6 + [DYNREDEF, PLAIN])
            ops.append(["def", name, fl, 0])
        elif r < 0.84:
            ops.append(["alter", U, rng.choice([DV, DW, "v"]), 0])
        elif r < 0.94:
            ops.append(["in-ns", rng.choice([U, X])])
        else:
            ops.append(["require", U, "uu"])
    return number(ops)


def random_history(rng, n):
    ops = []
    nss = list(NSS)
    for _ in range(n):
        r = rng.random()
        if r < 0.42:
            fl = [int(rng.random() < 0.12), int(rng.random() < 0.15), int(rng.random() < 0.12)]
            ops.append(["def", rng.choice(POOL), fl, 0])
        elif r < 0.60:
            ops.append(["in-ns", rng.choice(nss + ["@.late_ns"] if rng.random() < 0.1 else nss)])
        elif r < 0.76:
            m = rng.choice(nss + ["@.missing"] if rng.random() < 0.05 else nss)
            a = rng.choice([ALIAS.get(m, "mm"), ALIAS.get(m, "mm"), None, "fb", Y])
            ops.append(["require", m, a])
        elif r < 0.86:
            k = rng.choice([0, 1, 1, 2, 3])
            ops.append(["refer", rng.choice(nss), rng.sample(POOL, k)])
        elif r < 0.91:
            ops.append(["push", rng.choice(nss), rng.choice(POOL), 0])
        elif r < 0.94:
            ops.append(["pop"])
        else:
            ops.append(["alter", rng.choice(nss), rng.choice(POOL), 0])
    return number(ops)


MUNGE_CHARS = "aZ0_-.'+*/><!=?\\&$%"


def munge_strings(tier, rng):
    import builtins
    import keyword
    out = [""]
    for n in (1, 2):
        out += ["".join(t) for t in itertools.product(MUNGE_CHARS, repeat=n)]
    out += [p.replace("@", "c10q") for p in POOL] + ["class_", "..", "...", "a..b", "__DOT_DOT__", "None", "None_"]
    res = sorted(set(keyword.kwlist) | set(dir(builtins)))
    out += res + [r + "_" for r in res] + [r.replace("_", "-") for r in res if "_" in r]
    alphabet = MUNGE_CHARS + "PLUSQprint_"
    for _ in range(300 if tier == "quick" else 5000):
        out.append("".join(rng.choice(alphabet) for _ in range(rng.randint(3, 9))))
    return out


WITNESSES = {
    "F-10a": [with_reads([U], number([["def", p, PLAIN, 0], ["def", q, PLAIN, 0]])) for p, q in PAIRS],
    "F-10b": [
        with_reads(NSS, number([["in-ns", X], ["def", "v", PLAIN, 0], ["in-ns", Y], ["def", "v", PLAIN, 0],
                                ["in-ns", Z], ["def", "v", PLAIN, 0], ["in-ns", U],
                                ["require", X, "fb"], ["require", Y, "fd"], ["require", Z, "fu"]])),
        with_reads(NSS, number([["in-ns", X], ["def", "v", PLAIN, 0], ["in-ns", U],
                                ["require", X, "fb"], ["require", Y, "fd"]])),
        with_reads(NSS, number([["in-ns", X], ["def", "v", PLAIN, 0], ["in-ns", U],
                                ["require", X, "fb"], ["def", "@-foo-bar", PLAIN, 0]])),
    ],
    "F-10d": [with_reads([U], [["in-ns", U]])],
    "F-10b-disk": [with_reads([U], [["require", X, "fb"], ["require", Y, "fd"]], every=True, files=FILES)],
    "F-10c": [with_reads([U, X], number([["in-ns", X], ["def", "v", PLAIN, 0], ["in-ns", U], ["refer", X, ["v"]],
                                      ["in-ns", X], ["def", "v", [0, 0, 1], 0], ["in-ns", U]]))],
    # (def ^:dynamic *v* 1) (binding [*v* 5] (def *v* 2) (def ^:dynamic *v* 3) *v*) -> 3, and leaving raises
    "F-10e": [with_reads([U], number([["def", DV, DYN, 0], ["push", U, DV, 0], ["def", DV, PLAIN, 0],
                                      ["def", DV, DYN, 0], ["pop"]]), every=True, bind=b) for b in ("rt", "form")],
    # the unchanged behaviour next to it: redefinition with ^:dynamic inside nested bindings
    "bind": [with_reads([U], number([["def", DV, DYN, 0], ["push", U, DV, 0], ["def", DV, DYN, 0], ["push", U, DV, 0],
                                     ["def", DV, DYN, 0], ["alter", U, DV, 0], ["pop"], ["pop"], ["pop"]]),
                        every=True, bind=b) for b in ("rt", "form")],
}


def cases(tier, rng):
    k = 0

    def modes():
        nonlocal k
        k += 1
        return M4 if k % 5 == 0 else M2

    for ws in WITNESSES.values():
        for w in ws:
            yield w
    strs = munge_strings(tier, rng)
    for i in range(0, len(strs), 250):
        yield {"k": "munge", "l": strs[i:i + 250]}
    quick = tier == "quick"

    def sampled(seqs, k):
        seqs = list(seqs)
        return seqs if len(seqs) <= k else rng.sample(seqs, k)

    for p, q in PAIRS:
        for ops in sequences(alpha_pair(p, q), 3 if quick else 4):
            yield with_reads([U], ops, modes())
    if quick:
        for ops in sequences(alpha_pair(*PAIRS[0])[:5], 4, 4):
            yield with_reads([U], ops, modes())
    for ops in sequences(ALPHA_NS7, 3 if quick else 4):
        yield with_reads(NSS, ops, modes())
    for ops in sequences(ALPHA_NS5, 4 if quick else 5, 4):
        yield with_reads([X, U, Y, Z], ops, modes())
    for ops in sequences(ALPHA_PRIV, 3 if quick else 4):
        yield with_reads([U, X], ops, modes())
    for ops in sequences(ALPHA_REFER, 2 if quick else 4):
        yield with_reads([U, X, Y], number(REFER_PREFIX + ops), modes(), every=True)
    # thread bindings: every history of length <= 3 (thorough: 5) after (def ^:dynamic *v* ..), a sample of
    # the next length, each once through the runtime functions and once through real `binding` forms
    kb = 0
    bseqs = [BIND_PREFIX + ops for ops in sequences(ALPHA_BIND, 3 if quick else 5)]
    # ... the same inside an open binding of *v* ...
    bseqs += [BIND_PREFIX + [["push", U, DV, 0]] + ops for ops in sequences(ALPHA_BIND, 3 if quick else 4)]
    bseqs += [BIND_PREFIX + ops for ops in (sampled(sequences(ALPHA_BIND, 4, 4), 80) if quick
                                            else sampled(sequences(ALPHA_BIND, 6, 6), 3000))]
    for ops in bseqs:
        kb += 1
        yield with_reads([U], number(ops), modes(), every=True, bind="form" if kb % 2 else "rt")
    for _ in range(160 if quick else 4000):
        kb += 1
        n = rng.randint(4, 12) if quick or rng.random() < 0.7 else rng.randint(13, 30)
        yield with_reads([U, X], bind_history(rng, n), modes(), wide=rng.random() < 0.3, every=True,
                         bind="form" if kb % 2 else "rt")
    if not quick:
        for ops in sampled(sequences(ALPHA_NS5, 6, 6), 3000):
            yield with_reads([X, U, Y, Z], ops, modes())
        for ops in sampled(sequences(ALPHA_PRIV, 5, 5), 3000):
            yield with_reads([U, X], ops, modes())
    disk = list(sequences(ALPHA_DISK, 2 if quick else 4))
    if quick:
        disk += rng.sample(list(sequences(ALPHA_DISK, 3, 3)), 40)
    for ops in disk:
        yield with_reads([U], ops, modes(), every=True, files=FILES)
    for _ in range(200 if quick else 6000):
        n = rng.randint(5, 12) if quick or rng.random() < 0.7 else rng.randint(13, 24)
        yield with_reads(NSS, random_history(rng, n), modes(), wide=rng.random() < 0.2, every=True)


# ---- Gallina ------------------------------------------------------------------------------
def _ascii_ok(t):
    return all(32 <= ord(ch) < 127 for ch in t)


def gs(t):
    """a str literal: (T "...") for printable ASCII (Coq parses string literals much faster
    than lists of numerals), the list of code points otherwise"""
    if t and _ascii_ok(t):
        return '(T "' + t.replace('"', '""') + '")'
    return G.s(t)


class _Names:
    """let-bound string literals, so that a name is spelled out once per case"""

    def __init__(self, prefix):
        self.prefix = prefix
        self.ids = {}

    def __call__(self, s):
        s = s.replace("@", self.prefix)
        if s not in self.ids:
            self.ids[s] = f"s{len(self.ids)}"
        return self.ids[s]

    def wrap(self, body):
        lets = "".join(f"let {v} := {gs(s)} in " for s, v in self.ids.items())
        return f"({lets}{body})"


def _flags(fl):
    return f"(mkFlags {G.b(bool(fl[0]))} {G.b(bool(fl[1]))} {G.b(bool(fl[2]))})"


def _step(op, nm):
    if op[0] == "def":
        return f"(B (SDef {nm(op[1])} {_flags(op[2])} {G.n(op[3])}))"
    if op[0] == "in-ns":
        return f"(B (SInNs {nm(op[1])}))"
    if op[0] == "require":
        a = "None" if op[2] is None else f"(Some {nm(op[2])})"
        return f"(B (SRequire {nm(op[1])} {a}))"
    if op[0] == "refer":
        return f"(B (SRefer {nm(op[1])} {G.lst([nm(x) for x in op[2]], 'str')}))"
    if op[0] == "alter":
        return f"(B (SAlter {nm(op[1])} {nm(op[2])} {G.n(op[3])}))"
    if op[0] == "push":
        return f"(BPush {nm(op[1])} {nm(op[2])} {G.n(op[3])})"
    if op[0] == "pop":
        return "BPop"
    raise ValueError(op)


def _rf(rf, nm):
    if not rf["readers"]:
        return "(@nil readreq)"
    readers = G.lst([f"({nm(r)}, {G.lst([nm(q) for q in qs], 'str')})" for r, qs in rf["readers"]], "(str * list str)")
    o = lambda x: "None" if x is None else f"(Some {nm(x)})"
    return f"(mk_reads (mkRF {readers} {G.lst([nm(n) for n in rf['names']], 'str')} {o(rf['let'])} {o(rf['partner'])}))"


def _tok(o):
    if isinstance(o, bool):
        return "5"
    if isinstance(o, int):
        return str(o + 10) if o >= 0 else "5"
    return {"B": "0", "M": "1", "E1": "2", "E2": "3", "E3": "4", "E4": "6"}.get(o, "5")


def _fail(o):
    if isinstance(o, dict) and (o.get("__timeout__") or o.get("__hang__")):
        return "(OFail 1%N)"
    return "(OFail 2%N)"


def _model_steps(c):
    """the steps the Coq side sees: the load of a file-backed namespace is spelled out before the
    first require/refer that names it.  Yields (op, rf, injected?)"""
    files = c.get("files") or {}
    cur, loaded = c["nss"][0], set()
    for s in c["steps"]:
        op = s["op"]
        if op[0] in ("require", "refer") and op[1] in files and op[1] not in loaded:
            loaded.add(op[1])
            yield ["in-ns", op[1]], NO_READS, True
            for n, fl, v in files[op[1]]:
                yield ["def", n, fl, v], NO_READS, True
            yield ["in-ns", cur], NO_READS, True
        if op[0] == "in-ns":
            cur = op[1]
        yield op, s["rf"], False


def _hist(c, nm):
    modes = G.lst(["Indirect" if m[0] else "Direct" for m in c["modes"]], "mode")
    steps = G.lst([f"({_step(op, nm)}, {_rf(rf, nm)})" for op, rf, _ in _model_steps(c)], "(bstep * list readreq)")
    return f"(CHist {G.lst([nm(n) for n in c['nss']], 'str')} {modes} {steps})"


def coq_pair(c, o):
    if c["k"] == "munge":
        case = "(CMunge " + G.lst([gs(s) for s in c["l"]], "str") + ")"
        if isinstance(o, dict) and "munge" in o:
            out = "(OMunge " + G.lst([f"({gs(a)}, {gs(b)})" for a, b in o["munge"]], "(str * str)") + ")"
        else:
            out = _fail(o)
        return f"({case}, {out})"
    good = isinstance(o, dict) and "steps" in o
    nm = _Names(o["prefix"] if good else "c10q0")
    case = _hist(c, nm)
    if good:
        impl = iter(o["steps"])
        empty = G.lst(['(row "")' for _ in c["modes"]], "(list robs)")
        rows = []
        for _, _, injected in _model_steps(c):
            if injected:            # part of the file load: no observation of its own
                rows.append(f"(true, {empty})")
                continue
            s = next(impl, None)
            if s is None:
                rows.append(f"(false, {G.lst([], '(list robs)')})")
                continue
            rows.append("({}, {})".format(
                G.b(bool(s["ok"])),
                G.lst(['(row "' + " ".join(_tok(x) for x in r) + '")' for r in s["reads"]], "(list robs)")))
        out = "(OHist " + G.lst(rows, "(bool * list (list robs))") + ")"
    else:
        out = _fail(o)
    return nm.wrap(f"({case}, {out})")


def coq_case(c):
    """used by replays (model c): the case with the default prefix"""
    if c["k"] == "munge":
        return "(CMunge " + G.lst([gs(s) for s in c["l"]], "str") + ")"
    nm = _Names("c10q0")
    return nm.wrap(_hist(c, nm))


def nontrivial(c, o):
    if c["k"] != "hist" or not isinstance(o, dict) or "steps" not in o:
        return False
    return len(c["steps"]) >= 2 and any(isinstance(x, int) for s in o["steps"] for row in s["reads"] for x in row)


def describe(c):
    if c["k"] == "munge":
        return f"munge of {len(c['l'])} strings"
    return "history: " + " ; ".join(" ".join(str(x) for x in s["op"]) for s in c["steps"])


def shrink(c):
    if c["k"] != "hist":
        l = c["l"]
        if len(l) > 1:
            yield {"k": "munge", "l": l[:len(l) // 2]}
            yield {"k": "munge", "l": l[len(l) // 2:]}
        return
    ops = [s["op"] for s in c["steps"]]
    for i in range(len(ops)):
        yield with_reads(c["nss"], ops[:i] + ops[i + 1:], c["modes"], every=True, files=c.get("files"),
                         bind=c.get("bind"))
    if len(c["modes"]) > 2:
        yield with_reads(c["nss"], ops, M2, every=True, files=c.get("files"), bind=c.get("bind"))
    if c.get("bind") == "form":
        yield with_reads(c["nss"], ops, c["modes"], every=True, files=c.get("files"), bind="rt")


def extra_evidence(cases_, outs):
    dist, obs, guard = {}, {}, 0
    for c, o in zip(cases_, outs):
        if c["k"] != "hist":
            dist["munge-strings"] = dist.get("munge-strings", 0) + len(c["l"])
            continue
        dist[f"hist-len-{min(len(c['steps']), 13)}"] = dist.get(f"hist-len-{min(len(c['steps']), 13)}", 0) + 1
        for s in c["steps"]:
            dist["op-" + s["op"][0]] = dist.get("op-" + s["op"][0], 0) + 1
        if isinstance(o, dict) and "steps" in o:
            for s in o["steps"]:
                for row in s["reads"]:
                    for x in row:
                        k = "value" if isinstance(x, int) else str(x)
                        obs[k] = obs.get(k, 0) + 1
    return {"input_distribution": dist, "observation_kinds": obs, "thread_bindings": _binding_stats(cases_, outs)}


def _binding_stats(cases_, outs):
    """how much of the run happened inside open bindings (depth from the observed push / pop outcomes)"""
    st = {"cases_with_open_binding": 0, "steps_inside": 0, "defs_inside": 0, "reads_inside": 0, "max_depth": 0,
          "push_failed": 0, "pop_failed": 0, "via_binding_form": 0, "via_runtime_fns": 0}
    for c, o in zip(cases_, outs):
        if c["k"] != "hist" or not isinstance(o, dict) or "steps" not in o:
            continue
        depth, seen = 0, False
        for s, r in zip(c["steps"], o["steps"]):
            op = s["op"][0]
            if op == "push":
                if r["ok"]:
                    depth += 1
                    seen = True
                else:
                    st["push_failed"] += 1
            elif op == "pop":
                if depth > 0:
                    depth -= 1
                if not r["ok"]:
                    st["pop_failed"] += 1
            if depth > 0:
                st["steps_inside"] += 1
                st["defs_inside"] += op == "def"
                st["reads_inside"] += sum(len(row) for row in r["reads"])
                st["max_depth"] = max(st["max_depth"], depth)
        if seen:
            st["cases_with_open_binding"] += 1
            st["via_binding_form" if c.get("bind") == "form" else "via_runtime_fns"] += 1
    return st
