"""C15 implementation side: capture (before, after) of every Module the real optimizer
visits, serialise both as generic trees (Gallina text) with identical expression subtrees
abstracted to atoms, and execute generated programs with and without the optimizer."""
import ast
import copy
import hashlib
import importlib
import sys

from harness.props.c15_tags import TAGS, UNKNOWN_BASE, FIELDS, h, H_OPERATOR

_pairs = {}          # source label -> list of (before, after)
_current = ["bootstrap"]
_unknown = {}
_state = {}


def _install():
    import basilisp.lang.compiler.optimizer as O
    if getattr(O.PythonASTOptimizer, "_verif_wrapped", False):
        return
    orig = O.PythonASTOptimizer.visit

    def visit(self, node):
        if isinstance(node, ast.Module):
            before = copy.deepcopy(node)
            after = orig(self, node)
            _pairs.setdefault(_current[0], []).append((before, after))
            return after
        return orig(self, node)

    O.PythonASTOptimizer.visit = visit
    O.PythonASTOptimizer._verif_wrapped = True


# The property module sets BASILISP = False: this module installs the hook first and then
# bootstraps basilisp itself, so that every form of basilisp.core is captured.


# ---- serialisation --------------------------------------------------------------------
def _check_fields():
    bad = {}
    for cls, want in FIELDS.items():
        got = getattr(ast, cls)._fields
        if tuple(got) != tuple(want):
            bad[cls] = got
    return bad


def _tag(cls):
    t = TAGS.get(cls)
    if t is None:
        t = _unknown.setdefault(cls, UNKNOWN_BASE + len(_unknown))
    return t


def _operator_alias():
    from basilisp.lang.compiler.constants import OPERATOR_ALIAS
    return OPERATOR_ALIAS


class Ser:
    def __init__(self):
        self.alias = _operator_alias()
        self.memo = {}

    def atom(self, v):
        return h(f"{type(v).__name__}:{v!r}")

    def shash(self, node):
        """structural hash of an AST node (bottom-up, memoised by id)"""
        k = id(node)
        if k in self.memo:
            return self.memo[k]
        if isinstance(node, ast.AST):
            parts = [type(node).__name__]
            for f in node._fields:
                parts.append(self.shash(getattr(node, f, None)))
            r = hashlib.sha1(repr(parts).encode()).hexdigest()
        elif isinstance(node, list):
            r = hashlib.sha1(repr(["L"] + [self.shash(x) for x in node]).encode()).hexdigest()
        else:
            r = "A" + repr((type(node).__name__, node))
        self.memo[k] = r
        return r

    def has_operator_call(self, node):
        for n in ast.walk(node):
            if isinstance(n, ast.Name) and n.id == self.alias:
                return True
        return False

    def ser(self, node, abstract, out, keep=False):
        """append Gallina text of node to out; expression subtrees whose structural hash is in
        `abstract` become atoms (never Name/Constant, never the test of an If, never anything
        containing a reference to the operator alias)."""
        if isinstance(node, ast.AST):
            if (not keep and isinstance(node, ast.expr) and not isinstance(node, (ast.Name, ast.Constant))
                    and self.shash(node) in abstract):
                out.append(f"(At {int(self.shash(node)[:14], 16)})")
                return
            cls = type(node).__name__
            if cls == "Constant":
                single = 1 if any(node.value is v for v in (True, False, None, ...)) else 0
                out.append(f"(Nd {TAGS['Constant']} [At {self.atom(node.value)}; At {single}])")
                return
            if cls == "Name":
                ident = H_OPERATOR if node.id == self.alias else h("id:" + node.id)
                out.append(f"(Nd {TAGS['Name']} [At {ident}; ")
                self.ser(node.ctx, abstract, out)
                out.append("])")
                return
            if cls == "Global":
                names = sorted(h("id:" + n) for n in node.names)
                out.append(f"(Nd {TAGS['Global']} [Nd {TAGS['LIST']} " + self.lst([f"At {n}" for n in names]) + "])")
                return
            out.append(f"(Nd {_tag(cls)} ")
            parts = []
            for f in node._fields:
                sub = []
                self.ser(getattr(node, f, None), abstract, sub)
                parts.append("".join(sub))
            out.append(self.lst(parts) + ")")
        elif isinstance(node, list):
            parts = []
            for x in node:
                sub = []
                self.ser(x, abstract, sub)
                parts.append("".join(sub))
            out.append(f"(Nd {TAGS['LIST']} " + self.lst(parts) + ")")
        elif node is None:
            out.append(f"(Nd {TAGS['NONE']} (@nil tree))")
        elif isinstance(node, str) and isinstance(node, str):
            out.append(f"(At {h('id:' + node)})")
        else:
            out.append(f"(At {self.atom(node)})")

    @staticmethod
    def lst(parts):
        return "[" + "; ".join(parts) + "]" if parts else "(@nil tree)"

    def pair(self, before, after):
        """Gallina text of both trees, sharing abstraction of identical expression subtrees."""
        hb, ha = set(), set()
        for n in ast.walk(before):
            if isinstance(n, ast.expr) and not isinstance(n, (ast.Name, ast.Constant)):
                hb.add(self.shash(n))
        for n in ast.walk(after):
            if isinstance(n, ast.expr) and not isinstance(n, (ast.Name, ast.Constant)):
                ha.add(self.shash(n))
        common = hb & ha
        # nothing that mentions the operator alias is abstracted
        abstract = set()
        for n in list(ast.walk(before)) + list(ast.walk(after)):
            if isinstance(n, ast.expr) and not isinstance(n, (ast.Name, ast.Constant)):
                s = self.shash(n)
                if s in common and s not in abstract and not self.has_operator_call(n):
                    abstract.add(s)
        # the tests of `if` statements stay fully visible (the checker decides their purity)
        for root in (before, after):
            for n in ast.walk(root):
                if isinstance(n, ast.If):
                    for m in ast.walk(n.test):
                        if isinstance(m, ast.expr):
                            abstract.discard(self.shash(m))
        ob, oa = [], []
        self.ser(before, abstract, ob)
        self.ser(after, abstract, oa)
        return "".join(ob), "".join(oa)


def same_tree(a, b):
    return ast.dump(a) == ast.dump(b)


def setup():
    _install()
    _current[0] = "basilisp.core"
    from harness.vlib import worker
    worker.bootstrap_basilisp()
    _current[0] = "other"
    from basilisp.lang import runtime, symbol as sym
    bad = _check_fields()
    _state["bad_fields"] = bad
    ns_ = None
    from harness.vlib import bl
    ns_ = bl.fresh_ns("verif.c15.")
    log = []

    def t(x):
        log.append(x)
        return x

    runtime.Var.intern(ns_, sym.symbol("t"), t)
    _state.update(ns=ns_, log=log)


def _load_ns(name):
    """(Re)load a bundled namespace from source with the capture hook active."""
    from basilisp.lang import runtime, symbol as sym
    _current[0] = name
    _pairs[name] = []
    pyname = name.replace("-", "_")          # the module of a namespace is named by its munged name
    mod = sys.modules.get(pyname)
    try:
        if mod is not None:
            importlib.reload(mod)
        else:
            importlib.import_module(pyname)
    finally:
        _current[0] = "other"
    return _pairs[name]


def run(case):
    if _state.get("bad_fields"):
        return {"err": "ast field layout changed", "detail": str(_state["bad_fields"])}
    k = case["k"]
    if k == "load":
        # load the namespace once per worker; return the number of forms and of changed forms
        name = case["ns"]
        if name not in _pairs:
            try:
                _load_ns(name)
            except Exception as e:
                return {"err": f"load failed: {type(e).__name__}: {e}"[:300]}
        ps = _pairs[name]
        changed = [i for i, (b, a) in enumerate(ps) if not same_tree(b, a)]
        return {"forms": len(ps), "changed": changed}
    if k == "form":
        name, i = case["ns"], case["i"]
        if name not in _pairs:
            try:
                _load_ns(name)
            except Exception as e:
                return {"err": f"load failed: {type(e).__name__}: {e}"[:300]}
        ps = _pairs[name]
        if i >= len(ps):
            return {"none": True}
        b, a = ps[i]
        if same_tree(b, a):
            return {"same": True, "nodes": sum(1 for _ in ast.walk(b))}
        tb, ta = Ser().pair(b, a)
        return {"b": tb, "a": ta, "nodes": sum(1 for _ in ast.walk(b))}
    if k == "prog":
        return run_program(case)
    return {"err": "bad case"}


def run_program(case):
    """compile a generated program; capture its pairs; run it optimised and unoptimised"""
    from basilisp.lang import compiler, reader, runtime, symbol as sym
    from harness.props.c01_impl import canon
    ns, log = _state["ns"], _state["log"]
    nsvar = runtime.Var.find(sym.symbol("*ns*", ns="basilisp.core"))
    results = []
    pairs = []
    for optimise in (True, False):
        del log[:]
        ctx = compiler.CompilerContext("<verif>")
        if not optimise:
            class NoOpt:
                def visit(self, node):
                    return node
            try:
                ctx._optimizer = NoOpt()
            except Exception:
                return {"err": "cannot disable optimizer"}
        _current[0] = "prog"
        _pairs["prog"] = []
        try:
            with runtime.bindings({nsvar: ns}):
                res = None
                for form in reader.read_str(case["lisp"], runtime.resolve_alias):
                    res = compiler.compile_and_exec_form(form, ctx, ns)
            results.append({"val": canon(res), "trace": [canon(x) for x in log]})
        except Exception as e:
            results.append({"exc": type(e).__name__, "trace": [canon(x) for x in log]})
        finally:
            _current[0] = "other"
        if optimise:
            pairs = list(_pairs["prog"])
    same = results[0] == results[1]
    note = None
    if results[1].get("exc") == "SyntaxError" and results[0].get("exc") != "SyntaxError":
        # the unoptimised module is not valid Python (the generator relies on the pass to
        # de-duplicate `global` statements): execution cannot be compared for this program
        same, note = True, "unoptimised code is not compilable; execution not compared"
    out = {"same_exec": same, "exec": results, "note": note}
    texts = []
    for b, a in pairs:
        if same_tree(b, a):
            continue
        tb, ta = Ser().pair(b, a)
        texts.append((tb, ta))
    out["pairs"] = texts
    return out
