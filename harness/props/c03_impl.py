"""C03 implementation side: builds a value of the readable universe from its JSON description,
prints it with the readable printer of /repo's working tree, reads the text back, and
canonicalises what came back.

Value JSON (tagged lists; metadata is null or a list of [key, value] pairs):
  ["nil"] ["b", bool] ["i", "<decimal>"] ["r", "<num>", "<den>"]
  ["f", tok]   tok = repr(float) | "inf" | "-inf" | "nan"
  ["d", tok]   tok = str(Decimal) ("NaN" "Infinity" "-Infinity" for the special values)
  ["j", tok]   complex(0, x), tok = repr(complex(0, x)).upper() without the final J
  ["s", [code points]] ["k", ns|null, name] ["y", ns|null, name, meta]
  ["q", kind, [elements], meta]   kind: l list, v vector, s set, q queue, pl/pt/ps Python list/tuple/set
  ["m", is_python_dict, [[k, v], ...], meta]
  ["u", "<uuid>"] ["t", "<isoformat>"] ["re", [code points]] ["by", [bytes]]
  ["x", text]  anything else (only produced when describing what was read back)

run(case) with case = {"v": value, "pc": [dup, meta, nsmaps], "via": 0|1, "lim": [length, level]}
("lim" optional, default [null, null]; each limit is null or a small integer):
  via 0: basilisp.lang.obj.lrepr (all print settings passed explicitly, as runtime.lrepr
         does: print_length / print_level are the two limits) and basilisp.lang.reader.read_str;
  via 1: basilisp.core/pr-str under `binding` of the six print Vars (*print-length* and
         *print-level* bound to the two limits), basilisp.core/read-seq (to count the forms)
         and basilisp.core/read-string.
Result: {"text": [code points], "n": forms read, "back": first form, "refix": 0|1|2,
         "det": printing twice gives one text, "walk": the ORIGINAL value described in the
         order the implementation iterates its sets and maps}
     or {"perr": 2|3, "walk": ...} when printing raised (2 = ValueError),
     or {"text": ..., "rerr": 1|2, "walk": ...} when reading raised (1 = reader.SyntaxError).
The reader's four location keys are removed from the metadata of what was read back, and
metadata that is empty afterwards is reported as null.
"""
import datetime
import decimal
import fractions
import json
import math
import re
import uuid

from harness.vlib import bl

_f = {}
KINDS = {}


def setup():
    from basilisp.lang import keyword as kw, list as llist, map as lmap, queue as lqueue, reader, runtime, \
        set as lset, symbol as sym, vector as vec, obj
    _f.update(kw=kw, llist=llist, lmap=lmap, lqueue=lqueue, reader=reader, runtime=runtime, lset=lset, sym=sym,
              vec=vec, obj=obj)
    _f["pr_str"] = bl.core("pr-str")
    _f["read_string"] = bl.core("read-string")
    _f["read_seq"] = bl.core("read-seq")
    V = lambda n: runtime.Var.find(sym.symbol(n, ns="basilisp.core"))
    _f["vars"] = [V("*print-dup*"), V("*print-meta*"), V("*print-namespace-maps*"), V("*print-readably*"),
                  V("*print-length*"), V("*print-level*")]
    _f["loc"] = {reader.READER_LINE_KW, reader.READER_COL_KW, reader.READER_END_LINE_KW, reader.READER_END_COL_KW}
    # read-seq hands (:eof opts) to the reader as its EOF sentinel: a private object, so that no form
    # of the text (nil!) is mistaken for the end of the input while the forms are counted
    _f["read_opts"] = lmap.map({kw.keyword("read"): reader.read_str, kw.keyword("eof"): object()})


def cps(s):
    return [ord(c) for c in s]


def txt(l):
    return "".join(chr(c) for c in l)


def big_int(text):
    """int(text) without CPython's 4300-digit limit (restored before the implementation runs)."""
    import sys
    old = sys.get_int_max_str_digits()
    sys.set_int_max_str_digits(0)
    try:
        return int(text)
    finally:
        sys.set_int_max_str_digits(old)


def big_str(n):
    import sys
    old = sys.get_int_max_str_digits()
    sys.set_int_max_str_digits(0)
    try:
        return str(n)
    finally:
        sys.set_int_max_str_digits(old)


# ---- JSON -> value ---------------------------------------------------------------------
def build(j):
    t = j[0]
    if t == "nil":
        return None
    if t == "b":
        return bool(j[1])
    if t == "i":
        return big_int(j[1])
    if t == "r":
        return fractions.Fraction(big_int(j[1]), big_int(j[2]))
    if t == "f":
        return float(j[1])
    if t == "d":
        return decimal.Decimal(j[1])
    if t == "j":
        return complex(0, float(j[1].lower()))
    if t == "s":
        return txt(j[1])
    if t == "k":
        return _f["kw"].keyword(j[2], ns=j[1])
    if t == "y":
        return _f["sym"].symbol(j[2], ns=j[1], meta=build_meta(j[3]))
    if t == "q":
        k, elems, meta = j[1], [build(e) for e in j[2]], build_meta(j[3])
        if k == "l":
            return _f["llist"].list(elems, meta=meta)
        if k == "v":
            return _f["vec"].vector(elems, meta=meta)
        if k == "s":
            return _f["lset"].set(elems, meta=meta)
        if k == "q":
            return _f["lqueue"].queue(elems, meta=meta)
        if k == "pl":
            return list(elems)
        if k == "pt":
            return tuple(elems)
        if k == "ps":
            return set(elems)
        raise ValueError(k)
    if t == "m":
        pairs = [(build(k), build(v)) for k, v in j[2]]
        if j[1]:
            return dict(pairs)
        return _f["lmap"].map(dict(pairs), meta=build_meta(j[3]))
    if t == "u":
        return uuid.UUID(j[1])
    if t == "t":
        return datetime.datetime.fromisoformat(j[1])
    if t == "re":
        return re.compile(txt(j[1]))
    if t == "by":
        return bytes(j[1])
    raise ValueError(t)


def build_meta(m):
    if m is None:
        return None
    return _f["lmap"].map({build(k): build(v) for k, v in m})


# ---- value -> JSON ---------------------------------------------------------------------
def ser_meta(m, strip):
    if m is None:
        return None
    ents = [[ser(k, strip), ser(v, strip)] for k, v in m.items() if not (strip and k in _f["loc"])]
    if strip and not ents:
        return None
    return ents


def ser_float(x):
    if math.isnan(x):
        return "nan"
    if math.isinf(x):
        return "inf" if x > 0 else "-inf"
    return repr(x)


def ser(o, strip=False):
    """strip: the value was produced by the reader (remove its location keys)."""
    kw, sym = _f["kw"], _f["sym"]
    if o is None:
        return ["nil"]
    if isinstance(o, bool):
        return ["b", o]
    if isinstance(o, int):
        return ["i", big_str(o)]
    if isinstance(o, fractions.Fraction):
        return ["r", big_str(o.numerator), big_str(o.denominator)]
    if isinstance(o, float):
        return ["f", ser_float(o)]
    if isinstance(o, decimal.Decimal):
        return ["d", str(o)]
    if isinstance(o, complex):
        if o.real == 0 and math.copysign(1.0, o.real) > 0:
            return ["j", repr(o).upper()[:-1]]
        return ["x", "complex " + repr(o)]
    if isinstance(o, str):
        return ["s", cps(o)]
    if isinstance(o, kw.Keyword):
        return ["k", o.ns, o.name]
    if isinstance(o, sym.Symbol):
        return ["y", o.ns, o.name, ser_meta(o.meta, strip)]
    if isinstance(o, _f["llist"].PersistentList):
        return ["q", "l", [ser(e, strip) for e in o], ser_meta(o.meta, strip)]
    if isinstance(o, _f["vec"].PersistentVector):
        return ["q", "v", [ser(e, strip) for e in o], ser_meta(o.meta, strip)]
    if isinstance(o, _f["lset"].PersistentSet):
        return ["q", "s", [ser(e, strip) for e in o], ser_meta(o.meta, strip)]
    if isinstance(o, _f["lqueue"].PersistentQueue):
        return ["q", "q", [ser(e, strip) for e in o], ser_meta(o.meta, strip)]
    if isinstance(o, _f["lmap"].PersistentMap):
        return ["m", False, [[ser(k, strip), ser(v, strip)] for k, v in o.items()], ser_meta(o.meta, strip)]
    if isinstance(o, list):
        return ["q", "pl", [ser(e, strip) for e in o], None]
    if isinstance(o, tuple):
        return ["q", "pt", [ser(e, strip) for e in o], None]
    if isinstance(o, (set, frozenset)):
        return ["q", "ps", [ser(e, strip) for e in o], None]
    if isinstance(o, dict):
        return ["m", True, [[ser(k, strip), ser(v, strip)] for k, v in o.items()], None]
    if isinstance(o, uuid.UUID):
        return ["u", str(o)]
    if isinstance(o, datetime.datetime):
        return ["t", o.isoformat()]
    if isinstance(o, re.Pattern):
        return ["re", cps(o.pattern)]
    if isinstance(o, bytes):
        return ["by", list(o)]
    return ["x", type(o).__name__]


def canon(j):
    """Order-insensitive normal form of a value description (sets, maps, metadata sorted)."""
    if not isinstance(j, list) or not j:
        return j
    t = j[0]

    def cmeta(m):
        return None if not m else sorted(([canon(k), canon(v)] for k, v in m), key=json.dumps)
    if t == "y":
        return ["y", j[1], j[2], cmeta(j[3])]
    if t == "q":
        elems = [canon(e) for e in j[2]]
        if j[1] in ("s", "ps"):
            elems.sort(key=json.dumps)
        return ["q", j[1], elems, cmeta(j[3])]
    if t == "m":
        return ["m", j[1], sorted(([canon(k), canon(v)] for k, v in j[2]), key=json.dumps), cmeta(j[3])]
    return j


def erase_meta(j):
    if not isinstance(j, list) or not j:
        return j
    t = j[0]
    if t == "y":
        return ["y", j[1], j[2], None]
    if t == "q":
        return ["q", j[1], [erase_meta(e) for e in j[2]], None]
    if t == "m":
        return ["m", j[1], [[erase_meta(k), erase_meta(v)] for k, v in j[2]], None]
    return j


# ---- the round trip --------------------------------------------------------------------
def printer(via, pc, lim=(None, None)):
    dup, meta, nsmaps = pc
    length, level = lim
    if via == 0:
        lrepr = _f["obj"].lrepr
        return lambda v: lrepr(v, human_readable=False, print_dup=dup, print_length=length, print_level=level,
                               print_meta=meta, print_namespace_maps=nsmaps, print_readably=True)
    binds = dict(zip(_f["vars"], [dup, meta, nsmaps, True, length, level]))

    def pr(v):
        with _f["runtime"].bindings(binds):
            return _f["pr_str"](v)
    return pr


def run(case):
    reader = _f["reader"]
    v = build(case["v"])
    walk = ser(v)
    if canon(walk) != canon(case["v"]):
        return {"__error__": "build/ser disagree", "msg": json.dumps([walk, case["v"]])[:300]}
    lim = case.get("lim") or [None, None]
    if any(x is not None and (isinstance(x, bool) or not isinstance(x, int)) for x in lim):
        return {"__error__": "limit is neither null nor an integer"}
    pr = printer(case["via"], case["pc"], lim)
    try:
        text = pr(v)
        text2 = pr(v)
    except ValueError:
        return {"perr": 2, "walk": walk}
    except Exception as e:  # noqa
        return {"perr": 3, "walk": walk, "exc": type(e).__name__}
    try:
        if case["via"] == 0:
            forms = list(reader.read_str(text))
        else:
            forms = list(_f["read_seq"](_f["read_opts"], text))
            if forms:
                forms[0] = _f["read_string"](text)
    except reader.SyntaxError:
        return {"text": cps(text), "rerr": 1, "walk": walk}
    except Exception as e:  # noqa
        return {"text": cps(text), "rerr": 2, "walk": walk, "exc": type(e).__name__}
    if not forms:
        return {"text": cps(text), "n": 0, "walk": walk}
    back = forms[0]
    sback = ser(back, strip=True)
    try:
        again = pr(back)
        refix = 1 if again == text else 0
    except Exception:  # noqa
        refix = 0
    if refix == 0:
        # the same value walked in another order: nothing can be said about the text
        a, b = erase_meta(sback), erase_meta(walk)
        if canon(a) == canon(b) and a != b:
            refix = 2
    return {"text": cps(text), "n": len(forms), "back": sback, "refix": refix, "det": text == text2, "walk": walk}
