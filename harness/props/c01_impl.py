"""C01/C02 implementation side: compile and run a program with the real compiler."""
from harness.vlib import bl

_state = {}


def setup():
    from basilisp.lang import runtime, symbol as sym
    ns = bl.fresh_ns("verif.c01.")
    log = []

    def t(x):
        log.append(x)
        return x

    runtime.Var.intern(ns, sym.symbol("t"), t)
    _state.update(ns=ns, log=log)


EXC_IDS = {"ValueError": 1, "TypeError": 2, "NameError": 3, "UnboundLocalError": 3, "KeyError": 4,
           "Exception": 0}


def canon(v):
    from basilisp.lang import vector as vec, runtime
    if v is None or v is True or v is False:
        return v
    if isinstance(v, int):
        return v
    if isinstance(v, vec.PersistentVector):
        return ["vec"] + [canon(x) for x in v]
    if isinstance(v, runtime.Var):
        name = v.name.name if hasattr(v.name, "name") else str(v.name)
        from harness.props.c01_full import GLOBALS
        return {"var": GLOBALS.index(name)} if name in GLOBALS else {"other": "Var"}
    if isinstance(v, BaseException):
        cls = EXC_IDS.get(type(v).__name__, 99)
        return {"excv": cls, "payload": canon(v.args[0]) if v.args else None}
    if callable(v):
        return {"fn": 1}
    return {"other": type(v).__name__}


def run(case):
    from basilisp.lang import compiler, reader, runtime, symbol as sym
    from basilisp.lang.compiler.exception import CompilerException
    ns, log = _state["ns"], _state["log"]
    del log[:]
    ind, inl, auto = case["opts"]
    opts = compiler.compiler_opts(use_var_indirection=ind, inline_functions=inl, generate_auto_inlines=auto)
    ctx = compiler.CompilerContext("<verif>", opts=opts)
    nsvar = runtime.Var.find(sym.symbol("*ns*", ns="basilisp.core"))
    try:
        with runtime.bindings({nsvar: ns}):
            forms = list(reader.read_str(case["lisp"], runtime.resolve_alias))
            res = None
            for form in forms:
                try:
                    res = compiler.compile_and_exec_form(form, ctx, ns)
                except CompilerException as e:
                    return {"compile_error": str(e)[:300]}
    except RecursionError:
        return {"__timeout__": True}
    except Exception as e:
        return {"exc": EXC_IDS.get(type(e).__name__, 99), "cls": type(e).__name__, "trace": [canon(x) for x in log]}
    return {"val": canon(res), "trace": [canon(x) for x in log]}
