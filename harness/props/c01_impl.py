"""C01/C02 implementation side: compile and run a program with the real compiler."""
from harness.vlib import bl

_state = {}


def setup():
    from basilisp.lang import runtime, symbol as sym
    ns = bl.fresh_ns("verif.c01.")
    log = []

    def t(x):
        log.append(x)
        return x

    runtime.Var.intern(ns, sym.symbol("t"), t)
    _state.update(ns=ns, log=log)


EXC_IDS = {"ValueError": 1, "TypeError": 2, "NameError": 3, "UnboundLocalError": 3, "KeyError": 4,
           "Exception": 0}


def canon(v):
    from basilisp.lang import vector as vec, runtime
    if v is None or v is True or v is False:
        return v
    if isinstance(v, int):
        return v
    if isinstance(v, vec.PersistentVector):
        return ["vec"] + [canon(x) for x in v]
    if isinstance(v, (list, tuple)):
        # a `#py [...]` / `#py (...)` literal: compared as the sequence of its elements
        return ["vec"] + [canon(x) for x in v]
    if isinstance(v, runtime.Var):
        name = v.name.name if hasattr(v.name, "name") else str(v.name)
        from harness.props.c01_full import GLOBALS
        return {"var": GLOBALS.index(name)} if name in GLOBALS else {"other": "Var"}
    if isinstance(v, BaseException):
        cls = EXC_IDS.get(type(v).__name__, 99)
        return {"excv": cls, "payload": canon(v.args[0]) if v.args else None}
    if callable(v):
        return {"fn": 1}
    return {"other": type(v).__name__}


def _parse_printed(text):
    """Parse the tiny subset of printed values used by the importer-path programs."""
    pos = [0]

    def ws():
        while pos[0] < len(text) and text[pos[0]] in " ,\n":
            pos[0] += 1

    def val():
        ws()
        c = text[pos[0]]
        if c == "[":
            pos[0] += 1
            items = ["vec"]
            while True:
                ws()
                if text[pos[0]] == "]":
                    pos[0] += 1
                    return items
                items.append(val())
        if c == "#" and text.startswith("#'", pos[0]):
            j = pos[0]
            while j < len(text) and text[j] not in " ,]\n":
                j += 1
            name = text[pos[0] + 2:j].split("/")[-1]
            pos[0] = j
            from harness.props.c01_full import GLOBALS
            return {"var": GLOBALS.index(name)} if name in GLOBALS else {"other": "Var"}
        if c == "<":
            depth, j = 0, pos[0]
            while j < len(text):
                if text[j] == "<":
                    depth += 1
                elif text[j] == ">":
                    depth -= 1
                    if depth == 0:
                        break
                j += 1
            pos[0] = j + 1
            return {"fn": 1}
        j = pos[0]
        while j < len(text) and text[j] not in " ,]\n":
            j += 1
        tok = text[pos[0]:j]
        pos[0] = j
        if tok == "nil":
            return None
        if tok == "true":
            return True
        if tok == "false":
            return False
        try:
            return int(tok)
        except ValueError:
            pass
        import re as _re
        m = _re.match(r"^(\w+)\((.*)\)$", tok)
        if m and m.group(1) in EXC_IDS:
            inner = m.group(2)
            return {"excv": EXC_IDS[m.group(1)], "payload": _parse_printed(inner) if inner else None}
        return {"other": tok[:30]}

    return val()


def run_via_importer(case):
    """The same program through `basilisp run <file>` (importer path) in a child interpreter."""
    import os, subprocess, sys, tempfile
    from harness.vlib import paths
    prog = ('(def t (fn* [x] (println "T" (pr-str x)) x))\n'
            '(println "R" (pr-str ' + case["lisp"] + '))\n')
    with tempfile.TemporaryDirectory(prefix="verif-c01-") as td:
        path = os.path.join(td, "prog.lpy")
        open(path, "w").write(prog)
        env = dict(os.environ, PYTHONPATH=paths.REPO_SRC, PYTHONHASHSEED="0",
                   BASILISP_DO_NOT_CACHE_NAMESPACES="true", PYTHONDONTWRITEBYTECODE="1")
        p = subprocess.run([sys.executable, "-m", "basilisp.cli", "run", path], capture_output=True, text=True,
                           env=env, timeout=300, cwd=td)
    trace, res = [], None
    for line in p.stdout.splitlines():
        if line.startswith("T "):
            trace.append(_parse_printed(line[2:]))
        elif line.startswith("R "):
            res = ("val", _parse_printed(line[2:]))
    if res is not None and p.returncode == 0:
        return {"val": res[1], "trace": trace}
    last = [l for l in p.stderr.strip().splitlines() if l.strip()]
    cls = "Unknown"
    for l in reversed(last):
        m = __import__("re").match(r"^(?:[\w.]*\.)?(\w+)(?::|$)", l.strip())
        if m and (m.group(1).endswith("Error") or m.group(1).endswith("Exception") or m.group(1) in EXC_IDS):
            cls = m.group(1)
            break
    if "CompilerException" in p.stderr and cls not in EXC_IDS:
        return {"compile_error": p.stderr[-300:]}
    return {"exc": EXC_IDS.get(cls, 99), "cls": cls, "trace": trace}


def run(case):
    if case.get("via") == "importer":
        try:
            # a child interpreter has to bootstrap basilisp first (10-40 s depending on load): replace the
            # worker's per-case soft alarm by a generous one for this case
            import signal
            signal.setitimer(signal.ITIMER_REAL, 280)
            return run_via_importer(case)
        except Exception as e:
            return {"__error__": type(e).__name__, "msg": str(e)[:200]}
    from basilisp.lang import compiler, reader, runtime, symbol as sym
    from basilisp.lang.compiler.exception import CompilerException
    ns, log = _state["ns"], _state["log"]
    del log[:]
    ind, inl, auto = case["opts"]
    opts = compiler.compiler_opts(use_var_indirection=ind, inline_functions=inl, generate_auto_inlines=auto)
    ctx = compiler.CompilerContext("<verif>", opts=opts)
    nsvar = runtime.Var.find(sym.symbol("*ns*", ns="basilisp.core"))
    try:
        with runtime.bindings({nsvar: ns}):
            forms = list(reader.read_str(case["lisp"], runtime.resolve_alias))
            res = None
            for form in forms:
                try:
                    res = compiler.compile_and_exec_form(form, ctx, ns)
                except CompilerException as e:
                    return {"compile_error": str(e)[:300]}
    except RecursionError:
        return {"__timeout__": True}
    except Exception as e:
        return {"exc": EXC_IDS.get(type(e).__name__, 99), "cls": type(e).__name__, "trace": [canon(x) for x in log]}
    return {"val": canon(res), "trace": [canon(x) for x in log]}
