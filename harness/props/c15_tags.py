"""Tag numbers of the generic tree encoding of Python ASTs (shared with coq/theories/C15/Tags.v,
which is generated from this table by `python -m harness.props.c15_tags`)."""
import hashlib

TAGS = {
    "LIST": 1, "NONE": 2, "Module": 3, "Expr": 4, "Constant": 5, "Name": 6, "Call": 7, "Attribute": 8,
    "If": 9, "While": 10, "Try": 11, "ExceptHandler": 12, "FunctionDef": 13, "AsyncFunctionDef": 14,
    "Global": 15, "Break": 16, "Continue": 17, "Raise": 18, "Return": 19, "BinOp": 20, "UnaryOp": 21,
    "Compare": 22, "Subscript": 23, "Delete": 24, "Not": 25, "Load": 26, "Del": 27, "In": 28, "Is": 29,
    "IsNot": 30, "Eq": 31, "NotEq": 32, "TryStar": 33, "ClassDef": 34, "Lambda": 35, "Store": 36,
    "Lt": 37, "LtE": 38, "Gt": 39, "GtE": 40, "Add": 41, "BitAnd": 42, "FloorDiv": 43, "LShift": 44,
    "Mod": 45, "Mult": 46, "MatMult": 47, "BitOr": 48, "Pow": 49, "RShift": 50, "Sub": 51, "Div": 52,
    "BitXor": 53, "Invert": 54, "UAdd": 55, "USub": 56, "NotIn": 57, "Assign": 58, "For": 59, "With": 60,
    "AsyncFor": 61, "AsyncWith": 62, "AnnAssign": 63, "AugAssign": 64, "BoolOp": 65, "Or": 66, "And": 67,
    "Pass": 68,
}
UNKNOWN_BASE = 1000

# field layout the Coq model relies on (checked against the running Python on every run)
FIELDS = {
    "Module": ("body", "type_ignores"),
    "Expr": ("value",),
    "Name": ("id", "ctx"),
    "Call": ("func", "args", "keywords"),
    "Attribute": ("value", "attr", "ctx"),
    "If": ("test", "body", "orelse"),
    "While": ("test", "body", "orelse"),
    "Try": ("body", "handlers", "orelse", "finalbody"),
    "ExceptHandler": ("type", "name", "body"),
    "FunctionDef": ("name", "args", "body", "decorator_list", "returns", "type_comment", "type_params"),
    "AsyncFunctionDef": ("name", "args", "body", "decorator_list", "returns", "type_comment", "type_params"),
    "Global": ("names",),
    "BinOp": ("left", "op", "right"),
    "UnaryOp": ("op", "operand"),
    "Compare": ("left", "ops", "comparators"),
    "Subscript": ("value", "slice", "ctx"),
    "Delete": ("targets",),
}


# Reference meaning of the operator-module functions (part of the SPECIFICATION of C15:
# operator.add(a, b) is a + b, ... ; operand order as written).
REF_BINOPS = {"add": "Add", "and_": "BitAnd", "floordiv": "FloorDiv", "lshift": "LShift", "mod": "Mod",
              "mul": "Mult", "matmul": "MatMult", "or_": "BitOr", "pow": "Pow", "rshift": "RShift",
              "sub": "Sub", "truediv": "Div", "xor": "BitXor"}
REF_UNARYOPS = {"not_": "Not", "inv": "Invert", "invert": "Invert", "neg": "USub", "pos": "UAdd"}
REF_COMPAREOPS = {"lt": "Lt", "le": "LtE", "eq": "Eq", "ne": "NotEq", "gt": "Gt", "ge": "GtE"}
REF_ISOPS = {"is_": "Is", "is_not": "IsNot"}


def h(s: str) -> int:
    return int.from_bytes(hashlib.sha1(s.encode("utf-8")).digest()[:7], "big")


H_OPERATOR = h("<operator-module-alias>")


def main():
    import os
    out = ["(** GENERATED from harness/props/c15_tags.py (python -m harness.props.c15_tags). *)",
           "From Coq Require Import NArith List.", "Import ListNotations.", "Local Open Scope N_scope.", ""]
    for k, v in TAGS.items():
        out.append(f"Definition T_{k} : N := {v}.")
    out.append(f"Definition H_OPERATOR : N := {H_OPERATOR}.")
    for name in ("contains", "getitem", "delitem", "is_", "is_not"):
        out.append(f"Definition H_{name} : N := {h('id:' + name)}.")
    for nm, tbl in (("ref_binops", REF_BINOPS), ("ref_unaryops", REF_UNARYOPS), ("ref_compareops", REF_COMPAREOPS),
                    ("ref_isops", REF_ISOPS)):
        rows = "; ".join(f"({h('id:' + k)}, {TAGS[v]})" for k, v in tbl.items())
        out.append(f"Definition {nm} : list (N * N) := [{rows}].")
    path = os.path.join(os.path.dirname(__file__), "..", "..", "coq", "theories", "C15", "Tags.v")
    open(path, "w").write("\n".join(out) + "\n")


if __name__ == "__main__":
    main()
