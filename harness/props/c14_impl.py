"""C14 implementation side.

Runs inside an implementation worker WITHOUT a basilisp bootstrap (BASILISP = False): the
functions of basilisp/importer.py and basilisp/lang/keyword.py that the decoding layer needs
are plain Python.  The full import path is driven through *child interpreters* (this same
file run as `python -m harness.props.c14_impl <json>`), which take the bytecode of
basilisp.core from a private, warm PYTHONPYCACHEPREFIX (never from or into /repo) so that a
child costs ~2 s instead of the 12 s of a cold bootstrap.

Case kinds (JSON):
  sweep   {"k","file":b64,"mtime","size"}            every truncation length of a real .lpyc
  batch   {"k","pay":b64,"variants":[{"hdr":[..],"cut":n|null,"mtime","size"},..]}
  kwops   {"k","ops":[["lit",name,variant]|["new",name], ...]}   keyword intern table, in process
  import  {"k","src","ns","pert":{...},"wseed","rseed", ...}     full import path, child interpreters
  xerr    {"k","src","ns","exc":...}                 valid cache whose execution raises
  hist    {"k","ns","dwb","again","mtime","pad","steps":[...]}   ONE child interpreter runs a whole
          history over one namespace file: ["import"] | ["reload", "importlib"|"ns"|"require"] |
          ["invalidate"] | ["setdwb", bool] | ["edit", version, mtime, pad] | ["touch", {pert}]; after every import /
          reload the child reports which version's definitions are visible, whether the cache
          was used, and what cache file is left behind
  shape   {"k"}                                      static: who stats the source (tr_importer)
"""
import base64
import importlib
import json
import os
import shutil
import subprocess
import sys
import tempfile

PYTHON = "/venv/bin/python"
VERIF = os.path.dirname(os.path.dirname(os.path.dirname(os.path.abspath(__file__))))
# C14_REPO_SRC points the child interpreters (and the `shape` case) at another copy of the
# sources, e.g. a scratch copy carrying a seeded change; /repo is never written either way
REPO_SRC = os.environ.get("C14_REPO_SRC") or os.path.join(os.environ.get("VERIF_REPO", "/repo"), "src")
PREFIX = os.environ.get("C14_PYCACHE_PREFIX", os.path.join(VERIF, ".cache", "c14", "pc"))
SRC_MTIME = 1_700_000_000        # every generated source file gets this mtime (seconds)
CLASSES = ("EOFError", "ImportError", "OSError", "ValueError", "TypeError")

_imp = {}


def setup():
    pass


def _importer():
    if "m" not in _imp:
        _imp["m"] = importlib.import_module("basilisp.importer")
    return _imp["m"]


def _cls(e):
    """Exception -> the class name the model distinguishes (subclasses folded into the
    class the loader's `except` clause names)."""
    for base, name in ((EOFError, "EOFError"), (ImportError, "ImportError"), (OSError, "OSError"),
                       (ValueError, "ValueError"), (TypeError, "TypeError")):
        if isinstance(e, base):
            return name
    return "Other:" + type(e).__name__


# ---------------------------------------------------------------------------------------
# decoding layer, in process
# ---------------------------------------------------------------------------------------
def _decode(data, mtime, size, expect_payload=None):
    imp = _importer()
    try:
        code = imp._get_basilisp_bytecode("c14", mtime, size, data)
    except BaseException as e:       # noqa: every class is an observable here
        return _cls(e)
    if expect_payload is not None:
        import marshal
        if code != marshal.loads(expect_payload):
            return "OK-DIFFERENT"    # loaded, but not the code objects that were written
    return "OK"


def run_sweep(case):
    data = base64.b64decode(case["file"])
    payload = data[12:]
    rle, msgs = [], {}
    for n in range(len(data) + 1):
        r = _decode(data[:n], case["mtime"], case["size"], payload if n == len(data) else None)
        if rle and rle[-1][1] == r:
            rle[-1][0] += 1
        else:
            rle.append([1, r])
    # raw marshal layer: classes (with messages) seen on every proper prefix of the payload
    import marshal
    for n in range(len(payload)):
        try:
            marshal.loads(payload[:n])
            key = "LOADED"
        except BaseException as e:  # noqa
            key = f"{type(e).__name__}: {e}"
        msgs[key] = msgs.get(key, 0) + 1
    return {"rle": rle, "len": len(data), "marshal_prefix_outcomes": msgs}


def run_batch(case):
    imp = _importer()
    payload = base64.b64decode(case["pay"])
    out = []
    for v in case["variants"]:
        data = bytes(v["hdr"]) + payload
        if v.get("cut") is not None:
            data = data[:v["cut"]]
        out.append(_decode(data, v["mtime"], v["size"]))
    # writer side: _basilisp_bytecode of (mtime, size) must produce exactly these 12 bytes
    hdrs = []
    for v in case.get("writes", []):
        b = imp._basilisp_bytecode(v["mtime"], v["size"], [])
        hdrs.append(list(b[:12]))
    return {"classes": out, "hdrs": hdrs}


_CODE = [compile("1 + 1", "<c14>", "eval")]


def run_stale(case):
    """Write a cache for stats (m, s) with the real _basilisp_bytecode, read it against (m2, s2)."""
    import marshal
    imp = _importer()
    data = imp._basilisp_bytecode(case["m"], case["s"], _CODE)
    return {"hdr": list(data[:12]),
            "stale": _decode(data, case["m2"], case["s2"], marshal.dumps(_CODE))}


# ---------------------------------------------------------------------------------------
# keyword intern table, in process (basilisp.lang.keyword is plain Python)
# ---------------------------------------------------------------------------------------
_kwctr = [0]


def run_kwops(case):
    from basilisp.lang import keyword as kw
    _kwctr[0] += 1
    tag = f"c14-{os.getpid()}-{_kwctr[0]}-"       # fresh names: the table is process global
    objs, ids, res = [], {}, []
    for op in case["ops"]:
        name = tag + op[1]
        if op[0] == "lit":
            # a keyword literal of compiled code: keyword_from_hash(<hash at compile time>, name)
            # variant 0 = compiled by this process; v > 0 = compiled under another hash seed
            h = kw.hash_kw(name, None)
            if op[2]:
                h = (h ^ (0x5bd1e995 * op[2])) + op[2]
            k = kw.keyword_from_hash(h, name)
        else:
            k = kw.keyword(name)
        if id(k) not in ids:
            ids[id(k)] = len(ids)
            objs.append(k)
        ref = kw.Keyword(name)     # a throw-away instance: what name/hash a correct keyword has
        res.append([ids[id(k)], k.name == name and k.ns is None, hash(k) == hash(ref), k == ref,
                    {ref: 1}.get(k) == 1])
    return {"kw": res}


# ---------------------------------------------------------------------------------------
# full import path: child interpreters
# ---------------------------------------------------------------------------------------
def child_env(seed, srcdir):
    env = {k: v for k, v in os.environ.items()
           if k not in ("PYTHONDONTWRITEBYTECODE", "BASILISP_DO_NOT_CACHE_NAMESPACES")}
    env["PYTHONPYCACHEPREFIX"] = PREFIX
    env["PYTHONPATH"] = os.pathsep.join([REPO_SRC, srcdir, VERIF])
    env["PYTHONHASHSEED"] = str(seed)
    return env


def run_child(args, seed, srcdir, timeout=400):
    p = subprocess.run([PYTHON, "-m", "harness.props.c14_impl", json.dumps(args)],
                       env=child_env(seed, srcdir), cwd=VERIF, capture_output=True, text=True,
                       timeout=timeout)
    for line in reversed(p.stdout.splitlines()):
        if line.startswith("C14CHILD "):
            rep = json.loads(line[len("C14CHILD "):])
            rep["stdout"] = [l for l in p.stdout.splitlines() if l.startswith("C14OUT ")]
            return rep
    return {"child_failed": True, "rc": p.returncode, "stderr": p.stderr[-800:], "stdout_tail": p.stdout[-300:]}


def cache_path(src_file):
    """Where a child with PYTHONPYCACHEPREFIX=PREFIX puts the .lpyc of src_file."""
    tag = sys.implementation.cache_tag
    d, f = os.path.split(os.path.abspath(src_file))
    return os.path.join(PREFIX, d.lstrip(os.sep), os.path.splitext(f)[0] + "." + tag + ".lpyc")


def ensure_warm(timeout=900):
    """One cold child compiles basilisp.core into the private prefix (once per /repo state)."""
    os.makedirs(PREFIX, exist_ok=True)
    td = tempfile.mkdtemp(prefix="c14-warm-")
    try:
        return run_child({"mode": "warm"}, 1, td, timeout=timeout)
    finally:
        shutil.rmtree(td, ignore_errors=True)


def _observe(imp, nsname, events):
    """Wrap the loader's stages with pure observers (every exception is re-raised)."""
    L = imp.BasilispImporter
    orig_cached, orig_exec, orig_get = L._exec_cached_module, L._exec_module, imp._get_basilisp_bytecode

    def w_cached(self, fullname, *r):
        try:
            res = orig_cached(self, fullname, *r)
        except BaseException as e:   # noqa: observation only, re-raised
            if fullname == nsname:
                events.append(["cached-raised", _cls(e)])
            raise
        if fullname == nsname:
            events.append(["cached-ok"])
        return res

    def w_exec(self, fullname, *r):
        if fullname == nsname:
            events.append(["compile-from-source"])
        return orig_exec(self, fullname, *r)

    def w_get(fullname, *r):
        try:
            res = orig_get(fullname, *r)
        except BaseException as e:   # noqa
            if fullname == nsname:
                events.append(["decode-raised", _cls(e)])
            raise
        if fullname == nsname:
            events.append(["decode-ok"])
        return res

    orig_data = L.get_data
    tail = nsname.split(".")[-1] + "." + sys.implementation.cache_tag + ".lpyc"

    def w_data(self, path):
        try:
            return orig_data(self, path)
        except BaseException as e:   # noqa
            if os.path.basename(path) == tail:
                events.append(["decode-raised", _cls(e)])
            raise

    L._exec_cached_module, L._exec_module, imp._get_basilisp_bytecode = w_cached, w_exec, w_get
    L.get_data = w_data


# ---------------------------------------------------------------------------------------
# in-process histories over one namespace file
# ---------------------------------------------------------------------------------------
def hist_src(ns, ver, pad):
    """Version `ver` (1..9: one digit, so two versions with equal `pad` have equal size) of
    the namespace file of a history; every definition tells the version apart."""
    return (f'(ns {ns} "history case of C14")\n'
            f'(def version {ver})\n'
            f'(def marker "c14h-v{ver};")\n'
            f'(def data {{:v {ver} :kw [:c14/q "s{ver}"]}})\n'
            f'(defn probe [] (+ version 100))\n'
            f'(defmacro vmac [] {ver})\n'
            f'(defn viamac [] (vmac))\n' + ";" * pad + "\n")


def _touch_bytes(data, pert, cur_mtime, cur_size):
    """The damage kinds of the `import` cases, on the cache file as it is now (mirrors
    touch_bytes of Corr.v)."""
    kind = pert["kind"]
    if kind == "missing":
        return None
    if kind == "trunc":
        return data[:pert["n"]]
    if kind == "trunc_pay":
        return data if len(data) < 12 else data[:12 + (len(data) - 12) * pert["num"] // pert["den"]]
    if kind == "trunc_tail":
        return data[:max(0, len(data) - pert["n"])]
    if kind == "magic":
        return bytes(pert["bytes"]) + data[4:]
    if kind == "hdr_mtime":
        return data[:4] + _w_long(cur_mtime + pert["delta"]) + data[8:]
    if kind == "hdr_size":
        return data[:8] + _w_long(cur_size + pert["delta"]) + data[12:]
    raise ValueError(kind)


def _cache_describes(data, ver, mtime, size):
    """Spec level: is `data` the cache of version `ver` of the source with these stats?
    (header bytes, a payload marshal accepts, and the marker string of that version -- and
    of no other -- among its constants)"""
    import re
    if not _valid_cache(data, mtime, size):
        return False
    marks = set(re.findall(rb"c14h-v(\d+);", data[12:]))
    return marks == {str(ver).encode()}


def child_hist(a, rep, imp):
    """Runs in the child: the whole history in this one process."""
    import re
    import types
    from basilisp.lang import runtime, symbol as sym, keyword as kw
    nsname, f, cpath = a["ns"], a["f"], a["cpath"]
    srcdir = a["srcdir"]
    events = []
    _observe(imp, nsname, events)
    if a.get("dwb"):
        sys.dont_write_bytecode = True
    rep["dwb"] = sys.dont_write_bytecode
    obs = []

    def cur():
        text = open(f, encoding="utf-8").read()
        st = os.stat(f)
        return int(re.search(r"\(def version (\d+)\)", text).group(1)), int(st.st_mtime), st.st_size

    def visible():
        """The version every definition of the namespace shows (255: they disagree)."""
        ns = runtime.Namespace.get(sym.symbol(nsname))
        if ns is None:
            return 0, "no namespace"

        def val(n):
            v = ns.find(sym.symbol(n))
            return None if v is None else v.value
        try:
            seen = [val("version"), int(re.fullmatch(r"c14h-v(\d+);", val("marker")).group(1)),
                    val("data").val_at(kw.keyword("v")), val("probe")() - 100, val("viamac")(),
                    getattr(sys.modules[nsname], "version", None)]
        except BaseException as e:   # noqa
            return 255, f"{type(e).__name__}: {e}"[:200]
        return (seen[0], None) if len(set(seen)) == 1 and isinstance(seen[0], int) else (255, repr(seen))

    def load(fn):
        del events[:]
        raised = None
        try:
            fn()
        except BaseException as e:   # noqa
            raised = f"{type(e).__name__}: {e}"[:200]
        ev = [e[0] for e in events]
        ver, mtime, size = cur()
        v, why = visible()
        o = {"t": "load", "ver": v, "cur": ver,
             "used": "decode-ok" in ev and "cached-ok" in ev,
             "recompiled": "compile-from-source" in ev,
             "decode_exc": next((e[1] for e in events if e[0] == "decode-raised"), None),
             "cva": _cache_describes(_read(cpath), ver, mtime, size),
             "raised": raised, "events": ev}
        if why:
            o["why"] = why
        obs.append(o)

    for st in a["steps"]:
        op = st[0]
        if op == "import":
            if nsname in sys.modules:
                importlib.import_module(nsname)          # a sys.modules hit: nothing may run
                obs.append({"t": "already", "ver": visible()[0]})
            else:
                load(lambda: importlib.import_module(nsname))
        elif op == "reload":
            via = st[1] if len(st) > 1 else "importlib"
            mod = sys.modules.get(nsname)
            if mod is None:
                try:
                    importlib.reload(types.ModuleType(nsname))
                    obs.append({"t": "reload-of-nothing-succeeded"})
                except ImportError:
                    obs.append({"t": "notloaded"})
            elif via == "ns":
                load(lambda: runtime.Namespace.get(sym.symbol(nsname)).reload())
            elif via == "require":
                from harness.vlib import bl
                load(lambda: bl.ev(f"(require '{nsname} :reload)"))
            else:
                load(lambda: importlib.reload(mod))
        elif op == "invalidate":
            importlib.invalidate_caches()
        elif op == "setdwb":
            sys.dont_write_bytecode = bool(st[1])
        elif op == "edit":
            _write_src(srcdir, nsname, hist_src(nsname, st[1], st[3]), st[2])
        elif op == "touch":
            data = _read(cpath)
            if data is not None:
                _, mtime, size = cur()
                new = _touch_bytes(data, st[1], mtime, size)
                if new is None:
                    os.unlink(cpath)
                else:
                    with open(cpath, "wb") as fh:
                        fh.write(new)
        else:
            obs.append({"t": "bad-step"})
    rep["obs"] = obs


def child_main(argv):
    """Runs in the child interpreter."""
    a = json.loads(argv[0])
    rep = {"seed": os.environ.get("PYTHONHASHSEED"), "prefix": sys.pycache_prefix,
           "dwb": sys.dont_write_bytecode}
    from basilisp import main as bmain, importer as imp
    bmain.init()
    importlib.import_module("basilisp.core")
    if a.get("mode") == "warm":
        print("C14CHILD " + json.dumps(rep))
        return
    if a.get("mode") == "hist":
        child_hist(a, rep, imp)
        print("C14CHILD " + json.dumps(rep))
        return
    events = []
    _observe(imp, a["ns"], events)
    if a.get("from_source"):
        # the reference load: straight through _exec_module, no cache consulted
        os.environ["BASILISP_DO_NOT_CACHE_NAMESPACES"] = "true"
    if a.get("no_write"):
        sys.dont_write_bytecode = True
    for k, v in a.get("env", {}).items():
        os.environ[k] = v
    try:
        mod = importlib.import_module(a["ns"])
        rep["import"] = "ok"
    except BaseException as e:       # noqa
        rep["import"] = _cls(e)
        rep["import_msg"] = f"{type(e).__name__}: {e}"[:300]
        mod = None
    rep["events"] = events
    if mod is not None:
        from basilisp.lang import runtime, symbol as sym, keyword as kw, reader
        core = runtime.Namespace.get(sym.symbol("basilisp.core"))

        def c(n):
            return core.find(sym.symbol(n)).value
        ns = runtime.Namespace.get(sym.symbol(a["ns"].replace("_", "-")))
        pub = {}
        for s, v in (c("ns-publics")(ns) or {}).items():
            m = v.meta or {}
            val = v.value
            ent = {"fn": callable(val) and not isinstance(val, kw.Keyword),
                   "doc": m.val_at(kw.keyword("doc")), "line": m.val_at(kw.keyword("line")),
                   "macro": bool(m.val_at(kw.keyword("macro"))),
                   "arglists": c("pr-str")(m.val_at(kw.keyword("arglists")))}
            if not ent["fn"]:
                ent["pr"] = c("pr-str")(val)
            pub[s.name] = ent
        rep["publics"] = pub
        # values printed by the reference load are read back here and compared with `=`
        eqs = {}
        for name, printed in (a.get("expect") or {}).items():
            v = ns.find(sym.symbol(name))
            if v is None:
                eqs[name] = False
                continue
            try:
                want = list(reader.read_str(printed, runtime.resolve_alias))[0]
                eqs[name] = bool(c("=")(want, v.value))
            except BaseException as e:  # noqa
                eqs[name] = f"{type(e).__name__}"
        rep["eqs"] = eqs
        pv = ns.find(sym.symbol("probe"))
        if pv is not None:
            try:
                got = pv.value()
                rep["probe"] = c("pr-str")(got)
                if a.get("expect_probe") is not None:
                    want = list(reader.read_str(a["expect_probe"], runtime.resolve_alias))[0]
                    rep["probe_eq"] = bool(c("=")(want, got))
            except BaseException as e:  # noqa
                rep["probe"] = "raised " + type(e).__name__
        kv = ns.find(sym.symbol("kwchecks"))
        if kv is not None:
            rep["kwchecks"] = [bool(x) for x in kv.value()]
        rep["hash_kw"] = kw.hash_kw("kw", None)
    print("C14CHILD " + json.dumps(rep))


def _write_src(srcdir, ns, text, mtime=SRC_MTIME):
    parts = ns.split(".")
    d = os.path.join(srcdir, *parts[:-1])
    os.makedirs(d, exist_ok=True)
    f = os.path.join(d, parts[-1] + ".lpy")
    with open(f, "w", encoding="utf-8") as fh:
        fh.write(text)
    os.utime(f, (mtime, mtime))
    return f


def _w_long(x):
    return (int(x) & 0xFFFFFFFF).to_bytes(4, "little")


def _valid_cache(data, mtime, size):
    """Spec-level validity of a cache file for the given source stats (independent of the
    importer's own decoder): right header and a payload marshal accepts."""
    import marshal
    if data is None or data[:12] != b"\x7d\x04\r\n" + _w_long(mtime) + _w_long(size):
        return False
    try:
        v = marshal.loads(data[12:])
    except BaseException:  # noqa
        return False
    return isinstance(v, list)


def _read(path):
    try:
        with open(path, "rb") as f:
            return f.read()
    except OSError:
        return None


def _same_as(ref, rep, cross_seed):
    """Is the load reported by `rep` observationally the from-source load `ref`?"""
    if rep.get("import") != "ok" or ref.get("import") != "ok":
        return False
    a, b = ref["publics"], rep["publics"]
    if sorted(a) != sorted(b):
        return False
    for n in a:
        for fld in ("fn", "doc", "line", "macro", "arglists"):
            if a[n][fld] != b[n][fld]:
                return False
        if not cross_seed and a[n].get("pr") != b[n].get("pr"):
            return False
    if any(v is not True for v in (rep.get("eqs") or {}).values()):
        return False
    if len(rep.get("eqs") or {}) != sum(1 for n in a if not a[n]["fn"]):
        return False
    if cross_seed:
        return rep.get("probe_eq", ref.get("probe") is None) is True
    return ref.get("probe") == rep.get("probe")


_memo = {}


def scratch_root():
    """(directory, owned): children of one check share C14_SCRATCH (removed by the parent
    at the end of the check); a stand-alone call gets its own directory."""
    root = os.environ.get("C14_SCRATCH")
    if root:
        os.makedirs(root, exist_ok=True)
        return root, False
    return tempfile.mkdtemp(prefix="c14-"), True


def cleanup(root):
    shutil.rmtree(root, ignore_errors=True)
    shutil.rmtree(os.path.join(PREFIX, os.path.abspath(root).lstrip(os.sep)), ignore_errors=True)


def golden(ns, src, wseed, root):
    """Compile `src` from source in a child (the reference load) and keep what it wrote."""
    key = (ns, src, wseed, root)
    if key not in _memo:
        d = os.path.join(root, f"g{os.getpid()}-{len(_memo)}")
        srcdir = os.path.join(d, "src")
        f = _write_src(srcdir, ns, src)
        cpath = cache_path(f)
        if os.path.exists(cpath):
            os.unlink(cpath)
        ref = run_child({"ns": ns, "from_source": True}, wseed, srcdir)
        _memo[key] = {"srcdir": srcdir, "f": f, "cpath": cpath, "ref": ref, "golden": _read(cpath),
                      "size": os.stat(f).st_size}
    return _memo[key]


def _expect(ref):
    return {n: e["pr"] for n, e in ref["publics"].items() if not e["fn"]}


def run_import(case):
    ns, src = case["ns"], case["src"]
    wseed, rseed = case.get("wseed", 1), case.get("rseed", 1)
    pert = case["pert"]
    root, owned = scratch_root()
    out = {}
    try:
        # 1. reference: compiled from source (cache written) under the writer's seed
        g = golden(ns, src, wseed, root)
        ref, gold, f, cpath, srcdir, size = g["ref"], g["golden"], g["f"], g["cpath"], g["srcdir"], g["size"]
        if ref.get("import") != "ok":
            return {"err": "reference-load-failed", "detail": ref}
        if gold is None:
            return {"err": "no-cache-written", "detail": ref}
        out["written_valid"] = _valid_cache(gold, SRC_MTIME, size)
        out["golden_len"] = len(gold)
        _write_src(srcdir, ns, src)                 # restore the pristine state
        with open(cpath, "wb") as fh:
            fh.write(gold)
        # 2. perturb
        kind = pert["kind"]
        cur_mtime = SRC_MTIME
        data = gold
        if kind == "none":
            pass
        elif kind == "missing":
            os.unlink(cpath)
            data = None
        elif kind == "trunc":            # keep n bytes (n < 12: inside the header)
            data = gold[:pert["n"]]
        elif kind == "trunc_pay":        # keep 12 + floor(paylen * num / den) bytes
            data = gold[:12 + (len(gold) - 12) * pert["num"] // pert["den"]]
        elif kind == "trunc_tail":       # drop the last n bytes
            data = gold[:len(gold) - pert["n"]]
        elif kind == "magic":
            data = bytes(pert["bytes"]) + gold[4:]
        elif kind == "hdr_mtime":        # the header says the cache was made for another mtime
            data = gold[:4] + _w_long(SRC_MTIME + pert["delta"]) + gold[8:]
        elif kind == "hdr_size":
            data = gold[:8] + _w_long(size + pert["delta"]) + gold[12:]
        elif kind == "touch":            # the source got a new mtime, same content
            cur_mtime = SRC_MTIME + pert["delta"]
            os.utime(f, (cur_mtime, cur_mtime))
        elif kind == "edit":             # the source was edited: new content, size and mtime
            cur_mtime = SRC_MTIME + pert.get("delta", 0)
            _write_src(srcdir, ns, src + pert["append"], cur_mtime)
        else:
            return {"err": "bad-case"}
        if data is not None and data is not gold:
            with open(cpath, "wb") as fh:
                fh.write(data)
        out["pert_len"] = None if data is None else len(data)
        cur_size = os.stat(f).st_size
        # 3. when the source changed, the reference is a from-source load of the NEW source
        if kind == "edit":
            saved = _read(cpath)
            ref = run_child({"ns": ns, "from_source": True, "no_write": True}, wseed, srcdir)
            if _read(cpath) != saved:
                return {"err": "reference-load-wrote-cache"}
            if ref.get("import") != "ok":
                return {"err": "reference-load-failed", "detail": ref}
        expect = _expect(ref)
        args = {"ns": ns, "expect": expect, "expect_probe": ref.get("probe"),
                "no_write": bool(case.get("no_write"))}
        # 4. the load under test
        rep = run_child(args, rseed, srcdir)
        if rep.get("child_failed"):
            return {"err": "child-failed", "detail": rep}
        ev = [e[0] for e in rep.get("events", [])]
        out["loaded"] = rep.get("import") == "ok"
        out["import"] = rep.get("import")
        out["recompiled"] = "compile-from-source" in ev
        out["decode_exc"] = next((e[1] for e in rep["events"] if e[0] == "decode-raised"), None)
        out["ran_cached"] = "decode-ok" in ev
        out["same"] = _same_as(ref, rep, cross_seed=(wseed != rseed))
        out["kwchecks"] = rep.get("kwchecks")
        out["hash_differs"] = rep.get("hash_kw") != g["ref"].get("hash_kw")
        after = _read(cpath)
        out["cache_valid_after"] = _valid_cache(after, cur_mtime, cur_size)
        out["cache_rewritten"] = after != data
        # 5. and the cache left behind is used, unchanged, by the next process
        if case.get("again"):
            rep2 = run_child(args, rseed, srcdir)
            ev2 = [e[0] for e in rep2.get("events", [])]
            out["again_from_cache"] = ("cached-ok" in ev2 and "compile-from-source" not in ev2
                                       and _same_as(ref, rep2, cross_seed=(wseed != rseed))
                                       and _read(cpath) == after)
        return out
    finally:
        if owned:
            cleanup(root)


XERR_SRC = """(ns {ns} (:import os builtins))
(println "C14OUT tick")
(when (os/getenv "C14_RAISE")
  (throw ((python/getattr builtins (os/getenv "C14_RAISE")) "boom")))
(def x 1)
"""


def run_xerr(case):
    """A VALID cache whose execution raises an exception of a class the fallback catches:
    how many times do the top-level forms before the raise run?"""
    ns = case.get("ns", "c14x.boom")
    src = XERR_SRC.format(ns=ns)
    root, owned = scratch_root()
    try:
        g = golden(ns, src, 1, root)
        if g["ref"].get("import") != "ok" or g["golden"] is None:
            return {"err": "reference-load-failed", "detail": g["ref"]}
        _write_src(g["srcdir"], ns, src)
        with open(g["cpath"], "wb") as fh:
            fh.write(g["golden"])
        env = {"C14_RAISE": case["exc"]}
        ref = run_child({"ns": ns, "from_source": True, "no_write": True, "env": env}, 1, g["srcdir"])
        rep = run_child({"ns": ns, "env": env}, 1, g["srcdir"])
        if rep.get("child_failed") or ref.get("child_failed"):
            return {"err": "child-failed", "detail": [ref, rep]}
        return {"ref_import": ref.get("import"), "ref_ticks": len(ref.get("stdout", [])),
                "import": rep.get("import"), "ticks": len(rep.get("stdout", [])),
                "events": [e[0] for e in rep.get("events", [])]}
    finally:
        if owned:
            cleanup(root)


_hctr = [0]


def run_hist(case):
    """One child interpreter runs the whole history; with `again` a second, fresh one then
    imports the namespace as it was left."""
    ns = case["ns"]
    root, owned = scratch_root()
    _hctr[0] += 1
    d = os.path.join(root, f"h{os.getpid()}-{_hctr[0]}")
    srcdir = os.path.join(d, "src")
    try:
        f = _write_src(srcdir, ns, hist_src(ns, 1, case["pad"]), case["mtime"])
        cpath = cache_path(f)
        if os.path.exists(cpath):
            os.unlink(cpath)
        args = {"mode": "hist", "ns": ns, "f": f, "cpath": cpath, "srcdir": srcdir,
                "dwb": bool(case.get("dwb")), "steps": case["steps"]}
        rep = run_child(args, case.get("seed", 1), srcdir)
        if rep.get("child_failed") or "obs" not in rep:
            return {"err": "child-failed", "detail": rep}
        obs = rep["obs"]
        if case.get("again"):
            rep2 = run_child(dict(args, steps=[["import"]]), case.get("seed2", 1), srcdir)
            if rep2.get("child_failed") or "obs" not in rep2:
                return {"err": "child-failed", "detail": rep2}
            obs = obs + rep2["obs"]
        return {"hist": obs, "child_dwb": rep.get("dwb")}
    finally:
        shutil.rmtree(d, ignore_errors=True)
        shutil.rmtree(os.path.join(PREFIX, os.path.abspath(d).lstrip(os.sep)), ignore_errors=True)
        if owned:
            cleanup(root)


def run_shape(case):
    """Static: which method stats the source file (harness/tr/tr_importer.stats_in_spec_shape)."""
    from harness.tr import tr_importer
    from harness.tr.gen_tables import Refuse
    try:
        text = open(os.path.join(REPO_SRC, "basilisp", "importer.py"), encoding="utf-8").read()
        return {"shape": tr_importer.stats_in_spec_shape(text)}
    except (Refuse, SyntaxError, OSError) as e:
        return {"shape": None, "refused": f"{type(e).__name__}: {e}"[:300]}


def run(case):
    k = case["k"]
    if k == "sweep":
        return run_sweep(case)
    if k == "batch":
        return run_batch(case)
    if k == "stale":
        return run_stale(case)
    if k == "kwops":
        return run_kwops(case)
    if k == "import":
        return run_import(case)
    if k == "xerr":
        return run_xerr(case)
    if k == "hist":
        return run_hist(case)
    if k == "shape":
        return run_shape(case)
    return {"err": "bad-case"}


if __name__ == "__main__":
    child_main(sys.argv[1:])
