"""C19 implementation side: drives basilisp.contrib.bencode, basilisp.edn, basilisp.json and
basilisp.core/read-string of /repo's working tree and canonicalises what they return."""
from harness.vlib import bl

_f = {}


def setup():
    ns = bl.fresh_ns()
    bl.ev("(require '[basilisp.contrib.bencode :as bc] '[basilisp.edn :as edn] '[basilisp.json :as json])", ns)
    _f["ns"] = ns
    _f["benc"] = bl.ev("bc/encode", ns)
    _f["bdecall"] = bl.ev("bc/decode-all", ns)
    _f["ednw"] = bl.ev("edn/write-string", ns)
    _f["ednr"] = bl.ev("edn/read-string", ns)
    _f["lispr"] = bl.core("read-string")
    _f["jsonw"] = bl.ev("json/write-str", ns)
    _f["jsonr"] = bl.ev("json/read-str", ns)
    _f["="] = bl.core("=")


# ---- bencode -------------------------------------------------------------------------
def b_build(j):
    from basilisp.lang import map as lmap, vector as vec
    if j is None:
        return None
    if "i" in j:
        return int(j["i"])
    if "s" in j:
        return bytes(j["s"])
    if "l" in j:
        return vec.vector([b_build(e) for e in j["l"]])
    if "d" in j:
        return lmap.map({bytes(k).decode("utf-8"): b_build(v) for k, v in j["d"]})
    raise ValueError(j)


def b_canon(x):
    from basilisp.lang.interfaces import IPersistentMap, IPersistentVector
    if x is None:
        return None
    if isinstance(x, bool):
        return {"other": "bool"}
    if isinstance(x, int):
        return {"i": x}
    if isinstance(x, bytes):
        return {"s": list(x)}
    if isinstance(x, IPersistentVector):
        return {"l": [b_canon(e) for e in x]}
    if isinstance(x, IPersistentMap):
        ents = []
        for k, v in x.items():
            if not isinstance(k, bytes):
                return {"other": "key:" + type(k).__name__}
            ents.append([list(k), b_canon(v)])
        ents.sort(key=lambda e: e[0])
        return {"d": ents}
    return {"other": type(x).__name__}


def b_decode_all(data):
    res = _f["bdecall"](data)
    items, rest = res[0], res[1]
    if rest is not None and not isinstance(rest, bytes):
        return {"err": "RestType:" + type(rest).__name__}
    return {"items": [b_canon(i) for i in items], "rest": list(rest or b"")}


# ---- EDN / JSON values ------------------------------------------------------------------
def e_build(j):
    from basilisp.lang import keyword as kw, symbol as sym, vector as vec, map as lmap, set as lset, list as llist
    if j is None:
        return None
    if "b" in j:
        return bool(j["b"])
    if "i" in j:
        return int(j["i"])
    if "f" in j:
        return float(j["f"])
    if "by" in j:
        return bytes(j["by"])
    if "s" in j:
        return j["s"]
    if "kw" in j:
        return kw.keyword(j["kw"][1], ns=j["kw"][0])
    if "sym" in j:
        return sym.symbol(j["sym"][1], ns=j["sym"][0])
    if "v" in j:
        return vec.vector([e_build(e) for e in j["v"]])
    if "l" in j:
        return llist.list([e_build(e) for e in j["l"]])
    if "set" in j:
        return lset.set([e_build(e) for e in j["set"]])
    if "m" in j:
        return lmap.map({e_build(k): e_build(v) for k, v in j["m"]})
    raise ValueError(j)


def _sk(j):
    import json
    return json.dumps(j, sort_keys=True)


def e_canon(x):
    from basilisp.lang import keyword as kw, symbol as sym
    from basilisp.lang.interfaces import IPersistentMap, IPersistentVector, IPersistentSet, IPersistentList, ISeq
    if x is None:
        return None
    if isinstance(x, bool):
        return {"b": x}
    if isinstance(x, int):
        return {"i": x}
    if isinstance(x, float):
        return {"f": repr(x)}
    if isinstance(x, str):
        return {"s": x}
    if isinstance(x, kw.Keyword):
        return {"kw": [x.ns, x.name]}
    if isinstance(x, sym.Symbol):
        return {"sym": [x.ns, x.name]}
    if isinstance(x, IPersistentVector):
        return {"v": [e_canon(e) for e in x]}
    if isinstance(x, IPersistentMap):
        return {"m": sorted(([e_canon(k), e_canon(v)] for k, v in x.items()), key=_sk)}
    if isinstance(x, IPersistentSet):
        return {"set": sorted((e_canon(e) for e in x), key=_sk)}
    if isinstance(x, (IPersistentList, ISeq)):
        return {"l": [e_canon(e) for e in x]}
    return {"other": type(x).__name__}


def _read(rd, text):
    from basilisp.lang import reader as lreader
    from basilisp.lang.exception import ExceptionInfo
    try:
        v = (_f["ednr"] if rd == 0 else _f["lispr"])(text)
    except Exception as e:
        own = ExceptionInfo if rd == 0 else lreader.SyntaxError
        return {"rerr": 1 if isinstance(e, own) else 2, "cls": type(e).__name__}
    return {"back": e_canon(v)}


def run(case):
    k = case["k"]
    try:
        if k == "edn":
            text = _f["ednw"](e_build(case["v"]))
            r = _read(case["rd"], text)
            r["text"] = text
            return r
        if k == "ednt":
            return _read(case["rd"], case["text"])
        if k == "json":
            text = _f["jsonw"](e_build(case["v"]))
            return {"jback": e_canon(_f["jsonr"](text)), "text": text}
        if k == "bstream":
            data = b"".join(_f["benc"](b_build(m)) for m in case["msgs"])
            cuts = []
            for cut in range(len(data) + 1):
                r = b_decode_all(data[:cut])
                if "err" in r:
                    return r
                cuts.append([r["items"], r["rest"]])
            return {"cuts": cuts}
        if k == "braw":
            return b_decode_all(bytes(case["data"]))
        if k == "blisp":
            return b_decode_all(_f["benc"](e_build(case["v"])))
        if k == "benc":
            return {"bytes": list(_f["benc"](b_build(case["v"])))}
    except Exception as e:  # an escaping exception is an observable
        return {"err": type(e).__name__}
    return {"err": "BadCase"}
