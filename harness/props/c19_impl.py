"""C19 implementation side: drives basilisp.contrib.bencode, basilisp.edn, basilisp.json and
basilisp.core/read-string of /repo's working tree and canonicalises what they return."""
from harness.vlib import bl

_f = {}


def setup():
    ns = bl.fresh_ns()
    bl.ev("(require '[basilisp.contrib.bencode :as bc] '[basilisp.edn :as edn] '[basilisp.json :as json])", ns)
    _f["ns"] = ns
    _f["benc"] = bl.ev("bc/encode", ns)
    _f["bdecall"] = bl.ev("bc/decode-all", ns)
    _f["ednw"] = bl.ev("edn/write-string", ns)
    _f["ednr"] = bl.ev("edn/read-string", ns)
    _f["lispr"] = bl.core("read-string")
    _f["jsonw"] = bl.ev("json/write-str", ns)
    _f["jsonr"] = bl.ev("json/read-str", ns)
    _f["="] = bl.core("=")


# ---- bencode -------------------------------------------------------------------------
def b_build(j):
    from basilisp.lang import map as lmap, vector as vec
    if j is None:
        return None
    if "i" in j:
        return int(j["i"])
    if "s" in j:
        return bytes(j["s"])
    if "l" in j:
        return vec.vector([b_build(e) for e in j["l"]])
    if "d" in j:
        return lmap.map({bytes(k).decode("utf-8"): b_build(v) for k, v in j["d"]})
    raise ValueError(j)


def b_canon(x):
    from basilisp.lang.interfaces import IPersistentMap, IPersistentVector
    if x is None:
        return None
    if isinstance(x, bool):
        return {"other": "bool"}
    if isinstance(x, int):
        return {"i": x}
    if isinstance(x, bytes):
        return {"s": list(x)}
    if isinstance(x, IPersistentVector):
        return {"l": [b_canon(e) for e in x]}
    if isinstance(x, IPersistentMap):
        ents = []
        for k, v in x.items():
            if not isinstance(k, bytes):
                return {"other": "key:" + type(k).__name__}
            ents.append([list(k), b_canon(v)])
        ents.sort(key=lambda e: e[0])
        return {"d": ents}
    return {"other": type(x).__name__}


def b_decode_all(data):
    res = _f["bdecall"](data)
    items, rest = res[0], res[1]
    if rest is not None and not isinstance(rest, bytes):
        return {"err": "RestType:" + type(rest).__name__}
    return {"items": [b_canon(i) for i in items], "rest": list(rest or b"")}


def run(case):
    k = case["k"]
    try:
        if k == "bstream":
            data = b"".join(_f["benc"](b_build(m)) for m in case["msgs"])
            cuts = []
            for cut in range(len(data) + 1):
                r = b_decode_all(data[:cut])
                if "err" in r:
                    return r
                cuts.append([r["items"], r["rest"]])
            return {"cuts": cuts}
        if k == "braw":
            return b_decode_all(bytes(case["data"]))
        if k == "benc":
            return {"bytes": list(_f["benc"](b_build(case["v"])))}
    except Exception as e:  # an escaping exception is an observable
        return {"err": type(e).__name__}
    return {"err": "BadCase"}
