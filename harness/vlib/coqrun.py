"""Everything that talks to Coq: incremental build, Print Assumptions, case evaluation."""
import fcntl
import os
import re
import subprocess
import tempfile
import time
from concurrent.futures import ThreadPoolExecutor

from . import paths

COQFLAGS = ["-Q", os.path.join(paths.COQ, "theories"), "Verif"]

# Axioms of Coq's own standard library that a theorem may depend on (named in the
# trusted base of the evidence whenever they occur).
ALLOWED_AXIOMS = {
    "functional_extensionality_dep", "FunctionalExtensionality.functional_extensionality_dep",
    "proof_irrelevance", "ProofIrrelevance.proof_irrelevance",
    "Eqdep.Eq_rect_eq.eq_rect_eq", "eq_rect_eq", "JMeq_eq", "JMeq.JMeq_eq",
    "classic", "Classical_Prop.classic", "propositional_extensionality",
}


class Lock:
    """exclusive for builds; shared for evaluations that only read the compiled files"""
    def __init__(self, shared=False):
        self.shared = shared

    def __enter__(self):
        self.f = open(os.path.join(paths.CACHE, "coq.lock"), "a")
        fcntl.flock(self.f, fcntl.LOCK_SH if self.shared else fcntl.LOCK_EX)
        return self

    def __exit__(self, *a):
        fcntl.flock(self.f, fcntl.LOCK_UN)
        self.f.close()


def project_text():
    files = []
    for dp, dn, fn in os.walk(paths.THEORIES):
        dn.sort()
        for f in sorted(fn):
            if f.endswith(".v"):
                files.append(os.path.relpath(os.path.join(dp, f), paths.COQ))
    gen = "theories/Gen/Tables.v"
    if gen not in files:
        files.append(gen)
    return "-Q theories Verif\n" + "\n".join(sorted(files)) + "\n"


def ensure_makefile():
    """_CoqProject lists every .v under theories/ (regenerated when the set changes)."""
    mk = os.path.join(paths.COQ, "Makefile")
    proj = os.path.join(paths.COQ, "_CoqProject")
    text = project_text()
    old = open(proj).read() if os.path.exists(proj) else None
    if old != text:
        open(proj, "w").write(text)
    if (not os.path.exists(mk)) or old != text or os.path.getmtime(mk) < os.path.getmtime(proj):
        subprocess.run(["coq_makefile", "-f", "_CoqProject", "-o", "Makefile"],
                       cwd=paths.COQ, check=True, capture_output=True)


def build(targets, timeout=1500):
    """make the given .vo targets (and what they depend on). Returns (ok, log)."""
    with Lock():
        ensure_makefile()
        cmd = ["timeout", str(timeout), "make", "-j4"] + list(targets)
        p = subprocess.run(cmd, cwd=paths.COQ, capture_output=True, text=True)
        out = p.stdout[-6000:] + p.stderr[-6000:]
        if p.returncode != 0 and "inconsistent assumptions" in out:
            # a shared .vo was replaced by another build while this one ran: remove the stale
            # object named in the message and make again (once)
            m = re.search(r"\(in file ([^)]+\.vo)\) makes inconsistent assumptions", out)
            if m and os.path.exists(m.group(1)):
                os.remove(m.group(1))
            p = subprocess.run(cmd, cwd=paths.COQ, capture_output=True, text=True)
            out = p.stdout[-6000:] + p.stderr[-6000:]
        return p.returncode == 0, out


def failing_file(log):
    m = re.search(r'File "\./([^"]+)", line (\d+)', log)
    return (m.group(1), int(m.group(2))) if m else None


def assumptions(prop_file_rel):
    """Re-compile theories/Properties/Cxx.v by itself (it only contains `exact` proofs and
    Print Assumptions) and parse what each theorem depends on.
    Returns (ok, [(theorem, [axioms])], raw)."""
    src = os.path.join(paths.COQ, prop_file_rel)
    text = open(src).read()
    names = re.findall(r"^\s*Print Assumptions\s+([A-Za-z0-9_'.]+)\s*\.", text, re.M)
    theorems = re.findall(r"^\s*(?:Theorem|Lemma|Corollary|Example)\s+([A-Za-z0-9_']+)", text, re.M)
    with tempfile.TemporaryDirectory(prefix="verif-pa-") as td:
        # compile a copy under another logical name so the project's .vo is not clobbered
        tmp = os.path.join(td, "PA.v")
        open(tmp, "w").write(text)
        p = subprocess.run(["timeout", "600", "coqc"] + COQFLAGS + ["-o", os.path.join(td, "PA.vo"), tmp],
                           capture_output=True, text=True, cwd=td)
    raw = p.stdout + p.stderr
    if p.returncode != 0:
        return False, [], theorems, raw
    # output blocks, in order of the Print Assumptions commands
    blocks = re.split(r"(?=Closed under the global context|Axioms:)", p.stdout)
    blocks = [b for b in blocks if b.startswith("Closed under") or b.startswith("Axioms:")]
    res = []
    for name, blk in zip(names, blocks):
        if blk.startswith("Closed"):
            res.append((name, []))
        else:
            axs = re.findall(r"^([A-Za-z0-9_'.]+)\s*:", blk, re.M)
            res.append((name, [a for a in axs if a != "Axioms"]))
    if len(res) != len(names):
        return False, res, theorems, raw
    return True, res, theorems, raw


def _eval_shard(args):
    idx, header, body, workdir = args[:4]
    path = os.path.join(workdir, f"cases_{idx}.v")
    with open(path, "w") as f:
        f.write(header)
        f.write(body)
    p = subprocess.run(["timeout", "900", "coqc"] + COQFLAGS + [path],
                       capture_output=True, text=True, cwd=workdir)
    return idx, p.returncode, p.stdout, p.stderr


def classify(corr_module, coq_cases, shard=400, extra_require="", tagged=False):
    """coq_cases: list of Gallina terms of type (case * out).
    Evaluates Verif.Common.Corr.run on them with the property's spec_ok/model/out_eqb and
    returns {index: code} for the non-zero codes (bit0: impl<>spec, bit1: impl<>model),
    plus a list of shard errors."""
    header = (f"From Coq Require Import List ZArith NArith QArith String.\nImport ListNotations.\n"
              f"From Verif Require Import Common.Corr.\nRequire Import {corr_module}.\n{extra_require}\n"
              f"Local Open Scope N_scope.\nSet Printing Width 1000000.\n")
    jobs = []
    workdir = tempfile.mkdtemp(prefix="verif-cases-", dir=paths.CACHE)
    for k in range(0, len(coq_cases), shard):
        chunk = coq_cases[k:k + shard]
        body = ("Definition cs : list (case * out) := [\n  " + ";\n  ".join(chunk) + "\n].\n"
                + ("Definition rs := Corr.run_tagged spec_ok model out_eqb tag cs.\n" if tagged else
                   "Definition rs := Corr.run spec_ok model out_eqb cs.\n")
                + "Eval vm_compute in (VERIF_BEGIN, rs, VERIF_END).\n"
                + "Eval vm_compute in (VERIF_COUNT, N.of_nat (List.length rs), N.of_nat (List.length cs)).\n")
        jobs.append((k // shard, header, body, workdir, chunk))
    codes, errors = {}, []
    with Lock(shared=True), ThreadPoolExecutor(max_workers=int(os.environ.get("VERIF_COQ_JOBS", "4"))) as ex:
        for idx, rc, out, err in ex.map(_eval_shard, jobs):
            if rc != 0:
                errors.append((idx, (out + err)[-2000:]))
                continue
            m = re.search(r"VERIF_BEGIN,(.*),\s*VERIF_END", out, re.S)
            if not m:
                errors.append((idx, "unparsable: " + out[-500:]))
                continue
            # tolerant of any line wrapping Coq's printer may choose
            found = re.findall(r"\(\s*(\d+)(?:%N)?\s*,\s*(\d+)(?:%N)?\s*\)", m.group(1))
            # cross-check against the counts Coq computed itself: nothing may be lost in parsing
            mc = re.search(r"VERIF_COUNT,\s*(\d+)(?:%N)?\s*,\s*(\d+)(?:%N)?", out)
            if not mc or int(mc.group(1)) != len(found) or int(mc.group(2)) != len(jobs[idx][4]):
                errors.append((idx, f"result count mismatch: parsed {len(found)} entries, Coq says "
                                    f"{mc.groups() if mc else None}, sent {len(jobs[idx][4])} cases"))
                continue
            for i, c in found:
                codes[idx * shard + int(i)] = int(c)
    try:
        import shutil
        if not errors or not os.environ.get("VERIF_KEEP"):
            shutil.rmtree(workdir, ignore_errors=True)
    except Exception:
        pass
    return codes, errors


def eval_terms(corr_module, terms, extra_require=""):
    """Evaluate a few Gallina terms and return Coq's printed output verbatim (for replays)."""
    header = (f"From Coq Require Import List ZArith NArith QArith String.\nImport ListNotations.\n"
              f"From Verif Require Import Common.Corr.\nRequire Import {corr_module}.\n{extra_require}\n")
    with tempfile.TemporaryDirectory(prefix="verif-ev-", dir=paths.CACHE) as td:
        path = os.path.join(td, "ev.v")
        with open(path, "w") as f:
            f.write(header)
            for t in terms:
                f.write(f"Eval vm_compute in ({t}).\n")
        p = subprocess.run(["timeout", "300", "coqc"] + COQFLAGS + [path],
                           capture_output=True, text=True, cwd=td)
    return p.stdout + p.stderr
