"""The check driver shared by all properties.

A property module (harness/props/cXX.py) provides:

  ID                 "C17"
  TITLE              one line
  CORR               Coq module with `case`, `out`, `spec_ok`, `model`, `out_eqb`
  TARGETS            .vo targets under coq/ that must build (model, proofs, properties)
  CORR_TARGETS       .vo targets needed to *run* the model (no proofs)
  PROPERTIES_FILE    theories/Properties/CXX.v
  IMPL               python module run inside the implementation workers (run(case) -> JSON)
  cases(tier, rng)   iterable of JSON cases
  coq_case(case)     Gallina term : case
  coq_out(out)       Gallina term : out   (must handle __hang__/__timeout__/__error__)
  FINDINGS           {finding id: predicate(case, out) -> bool}  signature of each finding
  nontrivial(case, out) -> bool
  RULE               text for the evidence
  TRUSTED, ASSUMPTIONS   lists of strings
  optional: shrink(case) -> iterable of smaller cases; TABLE_DEPS (names of generated
  tables this property's proofs depend on); WORKER_ENV; HARD_TIMEOUT; BASILISP (bool);
  extra_evidence(cases, outs) -> dict
"""
import hashlib
import importlib
import json
import os
import random
import sys
import time

from . import coqrun, paths, pool, findings as fnd, native


def _sig(prop, fid, c, o, code):
    """Does case c (with implementation output o) match the signature of finding fid?"""
    f = getattr(prop, "FINDINGS", {})[fid]
    if getattr(prop, "TAGGED", False):
        return f(c, o, code >> 2)
    return f(c, o)


def _jd(x):
    return json.dumps(x, sort_keys=True, ensure_ascii=True)


def load_corpus(pid):
    d = os.path.join(paths.CORPUS, pid)
    out = []
    if os.path.isdir(d):
        for fn in sorted(os.listdir(d)):
            if fn.endswith(".json"):
                data = json.load(open(os.path.join(d, fn)))
                out.extend(data if isinstance(data, list) else [data])
    return out


_POOLS = {}


def impl_eval(prop, cases):
    key = prop.ID
    if key not in _POOLS:
        _POOLS[key] = pool.Pool(
            prop.IMPL,
            hard_timeout=getattr(prop, "HARD_TIMEOUT", 60),
            env_extra=getattr(prop, "WORKER_ENV", None),
            basilisp=getattr(prop, "BASILISP", True),
            nworkers=getattr(prop, "NWORKERS", None))
    return _POOLS[key].map(cases)


def close_pools():
    for p in _POOLS.values():
        p.close()
    _POOLS.clear()


def classify(prop, cases, outs):
    if hasattr(prop, "coq_pair"):
        terms = [prop.coq_pair(c, o) for c, o in zip(cases, outs)]
    else:
        terms = [f"({prop.coq_case(c)}, {prop.coq_out(o)})" for c, o in zip(cases, outs)]
    return coqrun.classify(prop.CORR, terms, shard=getattr(prop, "SHARD", 400),
                           extra_require=getattr(prop, "EXTRA_REQUIRE", ""),
                           tagged=getattr(prop, "TAGGED", False))


def write_replay(pid, name, payload):
    path = os.path.join(paths.REPLAYS, f"{pid}-{name}.json")
    with open(path, "w") as f:
        json.dump(payload, f, indent=1, sort_keys=True)
    return path


def shrink_case(prop, case, still_bad, budget=60):
    """Greedy delta debugging with the property's own shrinker."""
    if not hasattr(prop, "shrink"):
        return case
    cur = case
    improved = True
    while improved and budget > 0:
        improved = False
        cands = list(prop.shrink(cur))[:16]
        if not cands:
            break
        budget -= len(cands)
        bad = still_bad(cands)
        for c, isbad in zip(cands, bad):
            if isbad:
                cur = c
                improved = True
                break
    return cur


def run_check(prop, tier="quick", seed=0, replay=None):
    t0 = time.time()
    pid = prop.ID
    lines = []
    violations = []          # (replay path, suffix)
    notes = []

    # ---- 0. native extension from /repo/rust ---------------------------------------
    if getattr(prop, "BASILISP", True):
        nat = native.ensure_overlay()
        notes.append(f"native: {nat}")

    # ---- 1. regenerate tables from /repo, 2. build proofs ---------------------------
    from harness.tr import gen_tables
    tr = gen_tables.regenerate()
    corr_targets = list(prop.CORR_TARGETS)
    if "theories/Common/Corr.vo" not in corr_targets:
        corr_targets.append("theories/Common/Corr.vo")      # the runner every evaluation loads
    corr_ok, corr_log = coqrun.build(corr_targets)
    ok, log = coqrun.build(prop.TARGETS) if corr_ok else (False, corr_log)
    proof_break = None
    theorems, assum, pa_raw = [], [], ""
    if ok:
        pa_ok, assum, theorems, pa_raw = coqrun.assumptions(prop.PROPERTIES_FILE)
        if not pa_ok:
            ok = False
            log = pa_raw
    if not ok:
        ff = coqrun.failing_file(log)
        proof_break = {"file": ff[0] if ff else None, "line": ff[1] if ff else None,
                       "log": log[-3000:]}
    obligations = len(theorems) + len(getattr(prop, "TABLE_DEPS", []))
    bad_axioms = {}
    discharged = 0
    if ok:
        for name, axs in assum:
            extra = [a for a in axs if a.split(".")[-1] not in
                     {x.split(".")[-1] for x in coqrun.ALLOWED_AXIOMS}]
            if extra:
                bad_axioms[name] = extra
            else:
                discharged += 1
        # theorems without a Print Assumptions line are not counted as discharged
        refused = [t for t in getattr(prop, "TABLE_DEPS", []) if t in tr.get("refused", {})]
        discharged += len(getattr(prop, "TABLE_DEPS", [])) - len(refused)
    if bad_axioms:
        proof_break = {"file": prop.PROPERTIES_FILE, "line": None,
                       "log": f"theorems depend on axioms outside the allowed set: {bad_axioms}"}

    # ---- 3. cases -------------------------------------------------------------------
    t_impl_start = time.time()
    rng = random.Random(seed)
    eff_tier = tier
    if replay:
        rp = json.load(open(replay))
        cases = [rp["case"]] if "case" in rp else []
    else:
        cases = load_corpus(pid) + list(prop.cases(tier, rng))
        if proof_break and tier == "quick":
            # the finder searches harder when a proof no longer checks: add a seeded sample
            # of the thorough generators (bounded, so that the quick tier stays quick)
            more = list(prop.cases("thorough", random.Random(seed + 1)))
            k = min(len(more), 2 * len(cases) + 200)
            cases = cases + random.Random(seed + 2).sample(more, k)
            eff_tier = "quick+finder"
    known = fnd.load(pid)
    n_corpus = 0
    # witnesses of the listed findings always run
    wit = []
    if not replay:
        for f in known:
            for w in f.get("witnesses", []):
                wit.append((f["id"], w))
    all_cases = [w for _, w in wit] + cases
    t_impl = time.time()
    outs = impl_eval(prop, all_cases) if all_cases else []
    t_impl = time.time() - t_impl
    t_coq = time.time()

    codes, errors = ({}, [])
    if corr_ok and all_cases:
        codes, errors = classify(prop, all_cases, outs)
        if errors and any("inconsistent assumptions" in e[1] for e in errors):
            # another build changed a shared .vo between our build and the evaluation: rebuild, retry once
            coqrun.build(corr_targets)
            codes, errors = classify(prop, all_cases, outs)
    elif not corr_ok:
        errors = [(0, "model does not build: " + corr_log[-1500:])]

    t_coq = time.time() - t_coq
    notes.append(f"timing: build+assumptions {t_impl_start - t0:.1f}s impl {t_impl:.1f}s coq-classify {t_coq:.1f}s")
    # ---- 4. verdicts ----------------------------------------------------------------
    open_ids = {f["id"] for f in known if f["status"] == "open"}
    sig = getattr(prop, "FINDINGS", {})
    reproduced = {}
    counts = {"ok": 0, "known": 0, "violation": 0, "drift": 0}
    per_finding = {}
    unexplained = []
    for i, (c, o) in enumerate(zip(all_cases, outs)):
        code = codes.get(i, 0)
        if code & 1 == 0:
            if code & 2:
                counts["drift"] += 1
                if len(notes) < 30:
                    notes.append(f"impl agrees with spec but not with model on {_jd(c)[:200]}")
            else:
                counts["ok"] += 1
            continue
        expl = None
        if code & 2 == 0:
            for fid in sig:
                if fid in open_ids and _sig(prop, fid, c, o, code):
                    expl = fid
                    break
        if expl:
            counts["known"] += 1
            per_finding[expl] = per_finding.get(expl, 0) + 1
        else:
            counts["violation"] += 1
            unexplained.append(i)
    for k, (fid, w) in enumerate(wit):
        code = codes.get(k, 0)
        if code & 1:
            reproduced[fid] = True
        else:
            reproduced.setdefault(fid, False)

    if replay:
        for i, (c, o) in enumerate(zip(all_cases, outs)):
            code = codes.get(i, 0)
            print(f"case  = {_jd(c)}")
            print(f"impl  = {_jd(o)}")
            print(f"impl==spec: {code & 1 == 0}   impl==model: {code & 2 == 0}")
            print(coqrun.eval_terms(prop.CORR, [f"model {prop.coq_case(c)}"],
                                    getattr(prop, "EXTRA_REQUIRE", "")))
        if rp.get("broken"):
            print("recorded proof/correspondence break:", _jd(rp["broken"])[:2000])

    # shrink + write replays for unexplained failures (at most 5 reported in detail)
    def still_bad(cands):
        o2 = impl_eval(prop, cands)
        c2, e2 = classify(prop, cands, o2)
        res = []
        for j, (c, o) in enumerate(zip(cands, o2)):
            code = c2.get(j, 0)
            isbad = bool(code & 1)
            if isbad and code & 2 == 0:
                for fid in sig:
                    if fid in open_ids and _sig(prop, fid, c, o, code):
                        isbad = False
            res.append(isbad)
        return res

    if os.environ.get("VERIF_DUMP") and unexplained:
        with open(os.path.join(paths.REPLAYS, f"{pid}-ALL.jsonl"), "w") as f:
            for i in unexplained:
                f.write(_jd({"case": all_cases[i], "impl_out": outs[i], "code": codes.get(i)}) + "\n")
    for n_, i in enumerate(unexplained[:5]):
        c = all_cases[i]
        if n_ < 2 and not replay:
            try:
                c = shrink_case(prop, c, still_bad)
            except Exception as e:  # shrinking is best effort
                notes.append(f"shrink failed: {e}")
        h = hashlib.sha1(_jd(c).encode()).hexdigest()[:10]
        path = write_replay(pid, h, {
            "property": pid, "seed": seed, "tier": tier, "case": c,
            "original_case": all_cases[i], "impl_out": outs[i], "code": codes.get(i),
            "meaning": "code bit0: implementation differs from the property's spec; "
                       "bit1: implementation differs from the Coq model of the code",
            "describe": prop.describe(c) if hasattr(prop, "describe") else None})
        violations.append((path, ""))

    if errors:
        # a shard the model could not evaluate: the correspondence did not run there
        path = write_replay(pid, "correspondence-error", {
            "property": pid, "broken": {"what": "correspondence evaluation failed",
                                        "errors": [e[1] for e in errors[:3]]}})
        if not violations:
            violations.append((path, " no-failing-input-found"))
    if proof_break and not violations:
        path = write_replay(pid, "proof-break", {
            "property": pid, "broken": {"what": "a proof obligation no longer checks",
                                        **proof_break,
                                        "translator": tr},
            "searched": len(all_cases)})
        violations.append((path, " no-failing-input-found"))

    # ---- 5. report ------------------------------------------------------------------
    for f in known:
        if f["status"] == "open" and reproduced.get(f["id"]):
            print(f"KNOWN-FINDING: property={pid} {f['id']} {f['what']}")
        elif f["status"] == "open" and not replay:
            notes.append(f"listed finding {f['id']} did not reproduce on its witnesses")
    for path, suffix in violations:
        print(f"VIOLATION property={pid} replay={path}{suffix}")

    distinct = set()
    for c, o in zip(all_cases, outs):
        try:
            if prop.nontrivial(c, o):
                distinct.add(_jd(c))
        except Exception:
            pass
    samples = []
    step = max(1, len(all_cases) // 6)
    for i in range(0, len(all_cases), step):
        samples.append({"case": all_cases[i], "impl": outs[i], "code": codes.get(i, 0)})
    samples = samples[:8]
    for name in theorems[:6]:
        samples.append({"obligation": name})
    cov = {
        "obligations": obligations, "discharged": discharged if not proof_break else min(discharged, max(0, obligations - 1)),
        "checker_cmd": f"cd /verif/coq && make {' '.join(prop.TARGETS)} && coqc -Q theories Verif {prop.PROPERTIES_FILE}",
        "trusted_base": list(getattr(prop, "TRUSTED", [])) + [
            "Coq 8.16.1 kernel and vm_compute (no native_compute)",
            "harness/tr/gen_tables.py (source -> Gen/Tables.v translator)",
            "harness correspondence run (generators, canonicalisation, Gallina literal printer)",
            "axioms per theorem: " + _jd({n: a for n, a in assum})],
        "theorems": theorems,
        "evaluations": len(all_cases),
        "distinct_nontrivial": len(distinct),
        "rule": prop.RULE,
        "samples": samples,
        "verdict_counts": counts,
        "known_finding_hits": per_finding,
        "findings_reproduced": reproduced,
        "translator": {k: v for k, v in tr.items() if k != "text"},
        "proof_break": proof_break,
        "notes": notes[:40],
        "exhaustive": bool(getattr(prop, "EXHAUSTIVE", {}).get(eff_tier, False)),
    }
    if hasattr(prop, "extra_evidence"):
        try:
            cov.update(prop.extra_evidence(all_cases, outs))
        except Exception as e:
            cov["extra_evidence_error"] = str(e)
    ev = {
        "property_id": pid, "tier": tier, "seed": seed, "level": "proof",
        "coverage": cov,
        "assumptions": list(getattr(prop, "ASSUMPTIONS", [])),
        "wall_s": round(time.time() - t0, 2),
        "violations": len(violations),
    }
    if not replay:
        with open(os.path.join(paths.EVIDENCE, f"{pid}.json"), "w") as f:
            json.dump(ev, f, indent=1, sort_keys=True)
    print(f"[{pid}] tier={tier} seed={seed} theorems={len(theorems)} discharged={discharged}/{obligations} "
          f"cases={len(all_cases)} {counts} wall={ev['wall_s']}s")
    return 1 if violations else 0


def main(argv):
    import argparse
    ap = argparse.ArgumentParser()
    ap.add_argument("prop")
    ap.add_argument("--tier", default=os.environ.get("VERIF_TIER", "quick"))
    ap.add_argument("--replay")
    a = ap.parse_args(argv)
    seed = int(os.environ.get("VERIF_SEED", "0"))
    prop = importlib.import_module(f"harness.props.{a.prop.lower()}")
    try:
        return run_check(prop, a.tier, seed, a.replay)
    finally:
        close_pools()
