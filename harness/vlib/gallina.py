"""Emit Gallina literals from Python values (used to write cases.v files)."""


def z(n: int) -> str:
    if abs(n) >= 10 ** 30:      # Coq parses long decimal literals slowly (quadratic); hex is linear
        return f"(-0x{-n:x})%Z" if n < 0 else f"(0x{n:x})%Z"
    return f"({n})%Z"


def n(k: int) -> str:
    assert k >= 0
    if k >= 10 ** 30:
        return f"0x{k:x}%N"
    return f"{k}%N"


def nat(k: int) -> str:
    assert 0 <= k < 5000, "no large nat literals"
    return f"{k}%nat"


def b(v: bool) -> str:
    return "true" if v else "false"


def lst(items, ty=None) -> str:
    items = list(items)
    if not items:
        return f"(@nil {ty})" if ty else "[]"
    return "[" + "; ".join(items) + "]"


def opt(v, f, ty=None) -> str:
    if v is None:
        return f"(@None {ty})" if ty else "None"
    return f"(Some {f(v)})"


def s(text: str) -> str:
    """A Python str as a list of code points (list N)."""
    if not text:
        return "(@nil N)"
    return "[" + "; ".join(f"{ord(c)}%N" for c in text) + "]"


def bs(data: bytes) -> str:
    if not data:
        return "(@nil N)"
    return "[" + "; ".join(f"{c}%N" for c in data) + "]"


def pair(a, b_) -> str:
    return f"({a}, {b_})"


def app(ctor: str, *args) -> str:
    if not args:
        return ctor
    return "(" + ctor + " " + " ".join(args) + ")"
