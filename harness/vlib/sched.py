"""Deterministic scheduler for Python threads (used by C12, C13; reusable by C11, C06).

What it does
------------
`run(bodies, files, ...)` starts one Python thread per callable in `bodies` with
`sys.settrace` installed *in those threads only*.  At every `line` event whose code object
lives in one of `files` (absolute paths; e.g. atom.py, reference.py, delay.py, promise.py)
the thread *parks* on its own semaphore and hands control to the controller (the calling
thread).  The controller then picks the thread that executes the next line: from an
explicit schedule (a list of thread ids), or from a chooser object (DFS with a pre-emption
bound: `explore`; seeded random: `random_runs`).  Exactly one worker thread runs at a time,
so a run is a function of the list of choices and can be replayed exactly.

Blocking.  Two mechanisms, usable together:

* generic (no cooperation from the code under test): a thread that does not reach its next
  line event within `grace` seconds after being released is marked *blocked* (it is inside
  `Lock.acquire` / `Condition.wait`); another thread is chosen; the blocked thread becomes
  runnable again when it reports its next line event.  This is timing dependent when the
  machine is loaded (a slow thread looks blocked), so use a generous `grace`.
* exact: `SchedRLock` / `SchedCondition` are drop-in replacements for `threading.RLock` /
  `threading.Condition` (`with instrumented_threading(): obj = Atom(0)` makes the
  constructors of the code under test pick them up).  `SchedRLock` still takes a *real*
  `threading.RLock` for mutual exclusion, but never blocks in it: when the real lock is
  busy it reports "blocked on L" to the controller and parks; it is enabled again when L is
  free.  `SchedCondition.wait` parks as "waiting"; `notify`/`notify_all` enable waiters; a
  *timed* wait may additionally be chosen by the controller while un-notified, which means
  "its timeout elapses now" (a scripted clock: timeouts are scheduling choices, no
  wall-clock is involved).  With these wrappers no timing enters a run at all.

A run never hangs the caller: if no thread is enabled and some are not finished the result
is `deadlock`; if a released thread reports nothing for `hang_timeout` seconds the result
is `hang`; every *operation* has a budget of line events (`step_budget`; call
`op_begin()` at the start of each operation inside a body) and exceeding it raises
`BudgetExhausted` inside that thread, so a retry loop that never terminates is reported by
budget, not by waiting.  Threads still parked at the end are unwound with `_Abort`.

Recorded schedule
-----------------
`Result.trace` is a list of `Event(tid, loc, kind, func)`: `loc` = "basename:line" of the
line the thread was parked at when chosen, `kind` says what the step did:

    "run"     executed that line up to the next line event (or to the end of the thread)
    "block"   tried to take a SchedRLock held by another thread; no progress
    "wait"    entered SchedCondition.wait (lock released) during that line
    "wake"    was waiting and had been notified: leaves the wait, re-takes the lock and runs
              to the next line event
    "timeout" was waiting un-notified on a timed wait: the wait times out now; then as "wake"
    "wake+block" / "timeout+block"   as above but the lock was busy: now blocked on it
    "gblock"  did not report within `grace` (generic blocked detection)

`Result.choices` is the bare list of thread ids; feeding it back as `schedule=` replays
the run.  `Result.status` is "ok" | "deadlock" | "hang" | "maxsteps" | "diverged"
("diverged": an explicit schedule named a thread that was not enabled; strict replays only).

Small API
---------
    run(bodies, files, schedule=None, chooser=None, **opts) -> Result
    explore(factory, files, preemptions=2, limit=None, **opts) -> iterator of Result
    random_runs(factory, files, n, rng, **opts)            -> iterator of Result
    op_begin()                 inside a body: start of an operation (resets the step budget)
    current_tid()              inside a body: the scheduler's id of the calling thread
    op_steps()                 inside a body: line events of the current operation so far
    SchedRLock, SchedCondition, instrumented_threading()
    BudgetExhausted            BaseException raised in a thread whose operation exceeded the budget

`factory()` must build fresh shared state and return `bodies` or `(bodies, collect)`;
`collect()` is called after the run and stored in `Result.obs`.
"""
import os
import random as _random
import sys
import threading
from contextlib import contextmanager

__all__ = ["run", "explore", "random_runs", "op_begin", "op_steps", "current_tid", "SchedRLock",
           "SchedCondition", "instrumented_threading", "BudgetExhausted", "Result", "Event"]

_real_RLock = threading.RLock
_real_Condition = threading.Condition
_real_Lock = threading.Lock

_tls = threading.local()        # .tid, .run  for controlled threads


class BudgetExhausted(BaseException):
    """The current operation of this thread used more line events than `step_budget`."""


class _Abort(BaseException):
    """Raised inside parked threads when a run is torn down."""


class Event(tuple):
    """(tid, loc, kind, func)"""
    __slots__ = ()

    def __new__(cls, tid, loc, kind, func):
        return tuple.__new__(cls, (tid, loc, kind, func))

    tid = property(lambda s: s[0])
    loc = property(lambda s: s[1])
    kind = property(lambda s: s[2])
    func = property(lambda s: s[3])


class Result:
    __slots__ = ("status", "trace", "choices", "results", "obs", "steps", "preemptions",
                 "nondet", "leaked")

    def __init__(self):
        self.status = "ok"
        self.trace = []
        self.choices = []
        self.results = []
        self.obs = None
        self.steps = []
        self.preemptions = 0
        self.nondet = False
        self.leaked = 0

    def __repr__(self):
        return f"<Result {self.status} steps={len(self.trace)} choices={self.choices}>"


class _Th:
    __slots__ = ("tid", "go", "status", "loc", "func", "steps", "op_steps", "waiting_on",
                 "timed", "notified", "timed_out", "result", "thread", "yielded")

    def __init__(self, tid):
        self.tid = tid
        self.go = threading.Semaphore(0)
        self.status = "new"      # new parked running blocked waiting gblocked done
        self.loc = "<start>"
        self.func = ""
        self.steps = 0
        self.op_steps = 0
        self.waiting_on = None
        self.timed = False
        self.notified = False
        self.timed_out = False
        self.result = None
        self.thread = None
        self.yielded = False


# ---------------------------------------------------------------------------------------
# choosers
# ---------------------------------------------------------------------------------------
class _Default:
    """Continue the current thread when it can continue, else the lowest enabled id."""

    def choose(self, enabled, cur, can_continue):
        if cur is not None and cur in enabled:
            return cur
        return enabled[0]


class _Explicit:
    def __init__(self, schedule, strict=False):
        self.schedule = list(schedule)
        self.i = 0
        self.strict = strict
        self.diverged = False
        self.fallback = _Default()

    def choose(self, enabled, cur, can_continue):
        if self.i < len(self.schedule):
            t = self.schedule[self.i]
            self.i += 1
            if t in enabled:
                return t
            self.diverged = True
            if self.strict:
                return None
        return self.fallback.choose(enabled, cur, can_continue)


class _Dfs:
    """Follows `prefix`, then the default policy; records every decision point."""

    def __init__(self, prefix):
        self.prefix = prefix
        self.points = []       # (enabled tuple, chosen, cur, can_continue)
        self.fallback = _Default()
        self.nondet = False

    def choose(self, enabled, cur, can_continue):
        i = len(self.points)
        if i < len(self.prefix) and self.prefix[i] in enabled:
            t = self.prefix[i]
        else:
            if i < len(self.prefix):
                self.nondet = True
            t = self.fallback.choose(enabled, cur, can_continue)
        self.points.append((tuple(enabled), t, cur, can_continue))
        return t


class _Random:
    def __init__(self, rng, stay=0.7):
        self.rng = rng
        self.stay = stay

    def choose(self, enabled, cur, can_continue):
        if cur in enabled and self.rng.random() < self.stay:
            return cur
        return self.rng.choice(enabled)


# ---------------------------------------------------------------------------------------
# one run
# ---------------------------------------------------------------------------------------
class _Run:
    def __init__(self, bodies, files, chooser, grace, hang_timeout, step_budget, max_steps,
                 points):
        self.files = {os.path.abspath(f) for f in files}
        self.base = {f: os.path.basename(f) for f in self.files}
        self.chooser = chooser
        self.grace = grace
        self.hang_timeout = hang_timeout
        self.step_budget = step_budget
        self.max_steps = max_steps
        self.points = points
        self.cv = threading.Condition(_real_Lock())
        self.th = [_Th(i) for i in range(len(bodies))]
        self.bodies = bodies
        self.aborting = False
        self.res = Result()

    # ---- worker side ---------------------------------------------------------------
    def _report(self, th, status):
        with self.cv:
            th.status = status
            self.cv.notify_all()

    def _park(self, th, status="parked"):
        if self.aborting:            # unwinding after teardown: never park again
            raise _Abort()
        self._report(th, status)
        th.go.acquire()
        if self.aborting:
            raise _Abort()

    def _make_tracer(self, th):
        files, base, points = self.files, self.base, self.points

        def local(frame, event, arg):
            if event == "line":
                if self.aborting:
                    return None
                th.steps += 1
                th.op_steps += 1
                if th.op_steps > self.step_budget:
                    raise BudgetExhausted()
                code = frame.f_code
                if points is not None and not points(code.co_filename, frame.f_lineno, code.co_name):
                    return local
                th.loc = f"{base[code.co_filename]}:{frame.f_lineno}"
                th.func = code.co_name
                self._park(th)
            return local

        def glob(frame, event, arg):
            if event == "call" and frame.f_code.co_filename in files:
                return local
            return None

        return glob

    def _bootstrap(self, th, body):
        _tls.tid = th.tid
        _tls.run = self
        _tls.th = th
        tracer = self._make_tracer(th)
        _tls.tracer = tracer
        try:
            self._park(th)                     # "<start>": the controller decides who begins
            sys.settrace(tracer)
            try:
                th.result = ("ok", body())
            finally:
                sys.settrace(None)
        except _Abort:
            th.result = ("aborted", None)
        except BudgetExhausted:
            th.result = ("budget", None)
        except BaseException as e:   # noqa: BLE001 - the outcome of the body is an observation
            th.result = ("exc", e)
        finally:
            _tls.run = None
            self._report(th, "done")

    # ---- controller side -----------------------------------------------------------
    def _enabled(self, th):
        s = th.status
        if s == "parked":
            return True
        if s == "blocked":
            return th.waiting_on.owner is None
        if s == "waiting":
            return th.notified or th.timed
        return False

    def execute(self):
        res = self.res
        for th, body in zip(self.th, self.bodies):
            th.thread = threading.Thread(target=self._bootstrap, args=(th, body), daemon=True,
                                         name=f"sched-{th.tid}")
            th.thread.start()
        with self.cv:
            ok = self.cv.wait_for(lambda: all(t.status != "new" for t in self.th),
                                  timeout=self.hang_timeout)
        if not ok:
            res.status = "hang"
        cur = None
        total = 0
        while res.status == "ok":
            enabled = [t.tid for t in self.th if self._enabled(t)]
            if not enabled:
                if all(t.status == "done" for t in self.th):
                    break
                if any(t.status in ("gblocked", "running") for t in self.th):
                    # threads inside real blocking calls: give them time to report
                    with self.cv:
                        woke = self.cv.wait_for(
                            lambda: any(self._enabled(t) for t in self.th)
                            or all(t.status == "done" for t in self.th),
                            timeout=self.hang_timeout)
                    if woke:
                        continue
                    res.status = "hang"
                    break
                res.status = "deadlock"
                break
            if total >= self.max_steps:
                res.status = "maxsteps"
                break
            can_continue = cur is not None and cur in enabled and not self.th[cur].yielded
            tid = self.chooser.choose(enabled, cur, can_continue)
            if tid is None:
                res.status = "diverged"
                break
            if can_continue and tid != cur:
                res.preemptions += 1
            th = self.th[tid]
            loc, func = th.loc, th.func
            kind = "run"
            was_waiting = th.status == "waiting"
            if was_waiting:
                kind = "wake"
                if not th.notified:
                    th.timed_out = True
                    kind = "timeout"
            th.status = "running"
            th.yielded = False
            th.go.release()
            with self.cv:
                reported = self.cv.wait_for(lambda: th.status != "running", timeout=self.grace)
            if not reported:
                with self.cv:
                    if th.status == "running":
                        th.status = "gblocked"
                        th.yielded = True
                        kind = "gblock"
            elif th.status == "blocked":
                kind = kind + "+block" if was_waiting else "block"
                th.yielded = True
            elif th.status == "waiting":
                kind = kind + "+wait" if was_waiting else "wait"
                th.yielded = True
            res.trace.append(Event(tid, loc, kind, func))
            res.choices.append(tid)
            cur = tid
            total += 1
        self._teardown()
        res.results = [t.result for t in self.th]
        res.steps = [t.steps for t in self.th]
        if isinstance(self.chooser, _Explicit) and self.chooser.diverged and res.status == "ok":
            res.nondet = True
        return res

    def _teardown(self):
        self.aborting = True
        for t in self.th:
            if t.status != "done":
                t.go.release()
        for t in self.th:
            t.thread.join(timeout=1.0)
            if t.thread.is_alive():
                self.res.leaked += 1
                if t.result is None:
                    t.result = ("stuck", None)


# ---------------------------------------------------------------------------------------
# instrumented primitives
# ---------------------------------------------------------------------------------------
class SchedRLock:
    """threading.RLock whose blocking acquire is visible to the controller.  Mutual
    exclusion is still provided by a real RLock; this wrapper only turns "would block"
    into "report blocked and park"."""

    def __init__(self):
        self._real = _real_RLock()
        self.owner = None        # tid or "ext" (a thread not under the scheduler)
        self.count = 0

    def acquire(self, blocking=True, timeout=-1):
        run = getattr(_tls, "run", None)
        if run is None:
            ok = self._real.acquire(blocking, timeout)
            if ok:
                self.owner, self.count = "ext", self.count + 1
            return ok
        th = _tls.th
        while not self._real.acquire(False):
            if not blocking:
                return False
            th.waiting_on = self
            run._park(th, "blocked")
        th.waiting_on = None
        self.owner = th.tid
        self.count += 1
        return True

    def release(self):
        if self.count <= 0:
            run = getattr(_tls, "run", None)
            if run is not None and run.aborting:
                return               # unwinding a wait that was torn down: nothing is held
        self.count -= 1
        if self.count == 0:
            self.owner = None
        self._real.release()

    __enter__ = acquire

    def __exit__(self, *a):
        self.release()

    def _is_owned(self):
        run = getattr(_tls, "run", None)
        me = _tls.th.tid if run is not None else "ext"
        return self.count > 0 and self.owner == me

    def _release_save(self):
        n = self.count
        for _ in range(n):
            self.release()
        return n

    def _acquire_restore(self, n):
        for _ in range(n):
            self.acquire()


class SchedCondition:
    """threading.Condition over a SchedRLock with waits visible to the controller; a timed
    wait times out when (and only when) the controller chooses the waiter while it has not
    been notified."""

    def __init__(self, lock=None):
        self._lock = lock if lock is not None else SchedRLock()
        self._waiters = []
        self.acquire = self._lock.acquire
        self.release = self._lock.release

    def __enter__(self):
        return self._lock.acquire()

    def __exit__(self, *a):
        self._lock.release()

    def wait(self, timeout=None):
        if not self._lock._is_owned():
            raise RuntimeError("cannot wait on un-acquired lock")
        run = getattr(_tls, "run", None)
        if run is None:
            raise RuntimeError("SchedCondition.wait outside a scheduled thread")
        th = _tls.th
        th.waiting_on = self
        th.timed = timeout is not None
        th.notified = False
        th.timed_out = False
        self._waiters.append(th)
        saved = self._lock._release_save()
        try:
            run._park(th, "waiting")
        finally:
            if th in self._waiters:
                self._waiters.remove(th)
            th.waiting_on = None
            if not run.aborting:
                self._lock._acquire_restore(saved)
        return not th.timed_out

    def wait_for(self, predicate, timeout=None):
        result = predicate()
        expired = False
        while not result:
            if expired:
                break
            if not self.wait(timeout):
                expired = True
            result = predicate()
        return result

    def notify(self, n=1):
        if not self._lock._is_owned():
            raise RuntimeError("cannot notify on un-acquired lock")
        for th in self._waiters[:n]:
            th.notified = True
        del self._waiters[:n]

    def notify_all(self):
        self.notify(len(self._waiters))


@contextmanager
def instrumented_threading():
    """While active, `threading.RLock()` and `threading.Condition()` build the instrumented
    primitives (construct the objects under test inside this block)."""
    old = threading.RLock, threading.Condition
    threading.RLock, threading.Condition = SchedRLock, SchedCondition
    try:
        yield
    finally:
        threading.RLock, threading.Condition = old


# ---------------------------------------------------------------------------------------
# public API
# ---------------------------------------------------------------------------------------
def op_begin():
    """Start of an operation in the calling scheduled thread: resets its step budget and
    re-arms tracing (CPython drops a trace function that raised)."""
    th = getattr(_tls, "th", None)
    if th is not None and getattr(_tls, "run", None) is not None:
        th.op_steps = 0
        if sys.gettrace() is None:
            sys.settrace(_tls.tracer)


def current_tid():
    """Thread id (0..n-1) of the calling scheduled thread, None outside a run."""
    return getattr(_tls, "tid", None) if getattr(_tls, "run", None) is not None else None


def op_steps():
    th = getattr(_tls, "th", None)
    return th.op_steps if th is not None else 0


def run(bodies, files, schedule=None, chooser=None, *, strict=False, grace=1.0,
        hang_timeout=3.0, step_budget=400, max_steps=5000, points=None, collect=None):
    """Run `bodies` (callables, one thread each) under the scheduler.  `schedule`: list of
    thread ids (after it is exhausted: continue the current thread, else lowest id).
    `points(filename, lineno, funcname) -> bool` optionally restricts the line events at
    which threads park (others still count for the budget)."""
    if chooser is None:
        chooser = _Explicit(schedule, strict) if schedule is not None else _Default()
    r = _Run(list(bodies), files, chooser, grace, hang_timeout, step_budget, max_steps, points)
    res = r.execute()
    if collect is not None:
        res.obs = collect()
    return res


def _unpack(made):
    if isinstance(made, tuple) and len(made) == 2 and callable(made[1]):
        return made
    return made, None


def explore(factory, files, preemptions=2, limit=None, **opts):
    """Depth-first enumeration of all schedules with at most `preemptions` pre-emptions
    (switching away from a thread that could have continued).  Switches forced by a thread
    finishing, blocking or waiting are free.  Stateless: every schedule re-executes
    `factory()` from scratch.  Yields a Result per schedule; stops after `limit`."""
    stack = []          # per decision point of the current prefix: [enabled, tried set, cur, can_continue, pre_before]
    prefix = []
    n = 0
    while True:
        ch = _Dfs(prefix)
        bodies, collect = _unpack(factory())
        res = run(bodies, files, chooser=ch, collect=collect, **opts)
        res.nondet = res.nondet or ch.nondet
        n += 1
        yield res
        if limit is not None and n >= limit:
            return
        # extend the stack with the points discovered beyond the prefix
        pre = stack[-1][4] + _cost(stack[-1], prefix[-1]) if stack else 0
        for i in range(len(stack), len(ch.points)):
            enabled, chosen, cur, can_continue = ch.points[i]
            entry = [enabled, {chosen}, cur, can_continue, pre]
            stack.append(entry)
            pre += _cost(entry, chosen)
        # backtrack to the deepest point with an affordable untried alternative
        choices = [p[1] for p in ch.points]
        while stack:
            enabled, tried, cur, can_continue, pre_before = stack[-1]
            alt = None
            for t in enabled:
                if t in tried:
                    continue
                c = 1 if (can_continue and t != cur) else 0
                if pre_before + c <= preemptions:
                    alt = t
                    break
            if alt is not None:
                tried.add(alt)
                prefix = choices[:len(stack) - 1] + [alt]
                break
            stack.pop()
        if not stack:
            return


def _cost(entry, chosen):
    return 1 if (entry[3] and chosen != entry[2]) else 0


def random_runs(factory, files, n, rng=None, stay=0.7, **opts):
    """`n` runs under seeded random scheduling (for sizes beyond the exhaustive bound)."""
    rng = rng or _random.Random(0)
    for _ in range(n):
        bodies, collect = _unpack(factory())
        yield run(bodies, files, chooser=_Random(rng, stay), collect=collect, **opts)
