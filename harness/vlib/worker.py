"""Implementation-side worker.

Started as:  python -m harness.vlib.worker <impl module> [--no-basilisp]
Reads one JSON case per line on stdin, writes one JSON result per line on the original
stdout (fd 1 is redirected to stderr afterwards so that prints of the code under test do
not corrupt the protocol).  The basilisp that is imported is the one of /repo's working
tree (PYTHONPATH is set by the pool), with the native extension taken from the overlay
built from /repo/rust.
"""
import importlib
import json
import os
import signal
import sys
import traceback


class CaseTimeout(BaseException):
    pass


def _alarm(signum, frame):
    raise CaseTimeout()


def bootstrap_basilisp():
    overlay = os.environ.get("VERIF_OVERLAY")
    import basilisp

    if overlay and os.path.isdir(os.path.join(overlay, "basilisp")):
        basilisp.__path__.insert(0, os.path.join(overlay, "basilisp"))
    from basilisp import main as bmain

    bmain.init()
    importlib.import_module("basilisp.core")


def main():
    modname = sys.argv[1]
    out = os.fdopen(os.dup(1), "w", buffering=1)
    os.dup2(2, 1)
    if "--no-basilisp" not in sys.argv:
        bootstrap_basilisp()
    mod = importlib.import_module(modname)
    if hasattr(mod, "setup"):
        mod.setup()
    signal.signal(signal.SIGALRM, _alarm)
    soft = float(os.environ.get("VERIF_CASE_SOFT_TIMEOUT", "10"))
    out.write(json.dumps({"ready": True}) + "\n")
    for line in sys.stdin:
        line = line.strip()
        if not line:
            continue
        case = json.loads(line)
        try:
            signal.setitimer(signal.ITIMER_REAL, soft)
            try:
                res = mod.run(case)
            finally:
                signal.setitimer(signal.ITIMER_REAL, 0)
        except CaseTimeout:
            res = {"__timeout__": True}
        except BaseException as e:  # harness bug or escaped exception
            res = {"__error__": type(e).__name__, "msg": str(e)[:300],
                   "tb": traceback.format_exc()[-1500:]}
        out.write(json.dumps(res) + "\n")


if __name__ == "__main__":
    main()
