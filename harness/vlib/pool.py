"""Pool of implementation workers (one interpreter each, ~12 s basilisp bootstrap)."""
import json
import os
import select
import subprocess
import sys
import threading
import time

from . import paths


class Worker:
    def __init__(self, modname, env_extra=None, basilisp=True, hashseed="0"):
        self.modname = modname
        self.env_extra = env_extra or {}
        self.basilisp = basilisp
        self.hashseed = hashseed
        self.proc = None
        self.start()

    def start(self):
        env = dict(os.environ)
        env["PYTHONPATH"] = paths.REPO_SRC + os.pathsep + paths.VERIF
        env["PYTHONHASHSEED"] = str(self.hashseed)
        env["PYTHONDONTWRITEBYTECODE"] = "1"
        env["BASILISP_DO_NOT_CACHE_NAMESPACES"] = "true"
        env[paths.GUARD] = "1"
        env["VERIF_OVERLAY"] = paths.OVERLAY
        env.update(self.env_extra)
        args = [paths.PYTHON, "-m", "harness.vlib.worker", self.modname]
        if not self.basilisp:
            args.append("--no-basilisp")
        self.proc = subprocess.Popen(
            args, stdin=subprocess.PIPE, stdout=subprocess.PIPE,
            stderr=subprocess.DEVNULL, env=env, cwd=paths.VERIF, text=True, bufsize=1)
        self.ready = False

    def wait_ready(self, timeout=900):
        if self.ready:
            return True
        line = self._readline(timeout)
        if line is None:
            return False
        self.ready = json.loads(line).get("ready", False)
        return self.ready

    def _readline(self, timeout):
        deadline = time.time() + timeout
        fd = self.proc.stdout.fileno()
        buf = getattr(self, "_buf", b"")
        while True:
            if b"\n" in buf:
                line, buf = buf.split(b"\n", 1)
                self._buf = buf
                return line.decode()
            left = deadline - time.time()
            if left <= 0:
                self._buf = buf
                return None
            r, _, _ = select.select([fd], [], [], min(left, 1.0))
            if r:
                chunk = os.read(fd, 1 << 16)
                if not chunk:
                    self._buf = buf
                    return None
                buf += chunk
            elif self.proc.poll() is not None:
                self._buf = buf
                return None

    def call(self, case, hard_timeout):
        if not self.wait_ready():
            self.kill()
            self.start()
            if not self.wait_ready():
                return {"__error__": "worker-start-failed"}
        try:
            self.proc.stdin.write(json.dumps(case) + "\n")
            self.proc.stdin.flush()
        except BrokenPipeError:
            self.kill(); self.start()
            return {"__error__": "worker-died"}
        line = self._readline(hard_timeout)
        if line is None:
            died = self.proc.poll() is not None
            self.kill()
            self.start()
            return {"__died__": True} if died else {"__hang__": True}
        return json.loads(line)

    def kill(self):
        try:
            self.proc.kill()
            self.proc.wait(timeout=5)
        except Exception:
            pass
        self._buf = b""

    def close(self):
        try:
            self.proc.stdin.close()
        except Exception:
            pass
        self.kill()


class Pool:
    """Persistent set of workers; `map` evaluates cases in order of submission."""

    def __init__(self, modname, nworkers=None, hard_timeout=30, env_extra=None,
                 basilisp=True, hashseed="0"):
        if nworkers is None:
            nworkers = int(os.environ.get("VERIF_WORKERS", "3"))
        self.args = dict(modname=modname, env_extra=env_extra, basilisp=basilisp, hashseed=hashseed)
        self.nworkers = max(1, nworkers)
        self.hard_timeout = hard_timeout
        self.workers = []

    def _ensure(self, n):
        while len(self.workers) < n:
            a = self.args
            self.workers.append(Worker(a["modname"], env_extra=a["env_extra"],
                                       basilisp=a["basilisp"], hashseed=a["hashseed"]))

    def map(self, cases):
        cases = list(cases)
        if not cases:
            return []
        n = max(1, min(self.nworkers, (len(cases) + 19) // 20))
        self._ensure(n)
        results = [None] * len(cases)
        lock = threading.Lock()
        nxt = [0]

        def loop(w):
            while True:
                with lock:
                    i = nxt[0]
                    if i >= len(cases):
                        return
                    nxt[0] += 1
                results[i] = w.call(cases[i], self.hard_timeout)

        threads = [threading.Thread(target=loop, args=(w,), daemon=True) for w in self.workers[:n]]
        for t in threads:
            t.start()
        for t in threads:
            t.join()
        return results

    def close(self):
        for w in self.workers:
            w.close()
        self.workers = []


def run_cases(modname, cases, nworkers=None, hard_timeout=30, env_extra=None,
              basilisp=True, hashseed="0", progress=None):
    """One-shot convenience wrapper around Pool."""
    p = Pool(modname, nworkers, hard_timeout, env_extra, basilisp, hashseed)
    try:
        return p.map(cases)
    finally:
        p.close()
