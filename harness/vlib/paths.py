"""Fixed locations used by every check."""
import os

VERIF = os.path.dirname(os.path.dirname(os.path.dirname(os.path.abspath(__file__))))
REPO = os.environ.get("VERIF_REPO", "/repo")
REPO_SRC = os.path.join(REPO, "src")
COQ = os.path.join(VERIF, "coq")
THEORIES = os.path.join(COQ, "theories")
CACHE = os.path.join(VERIF, ".cache")
OVERLAY = os.path.join(CACHE, "overlay")
EVIDENCE = os.path.join(VERIF, "evidence")
REPLAYS = os.path.join(VERIF, "replays")
CORPUS = os.path.join(VERIF, "corpus")
FINDINGS = os.path.join(VERIF, "known_findings.json")
PYTHON = "/venv/bin/python"
GUARD = "BASILISP_VERIF"

for d in (CACHE, EVIDENCE, REPLAYS):
    os.makedirs(d, exist_ok=True)
