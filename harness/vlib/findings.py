"""known_findings.json: committed, never written at run time."""
import json
import os

from . import paths


def load(pid):
    if not os.path.exists(paths.FINDINGS):
        return []
    data = json.load(open(paths.FINDINGS))
    return [f for f in data.get("findings", [])
            if f.get("property") == pid or pid in f.get("properties", [])]
