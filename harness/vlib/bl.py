"""Worker-side helpers for driving the basilisp of /repo's working tree."""
import importlib
import itertools

_counter = itertools.count()


def core(name):
    from basilisp.lang import runtime, symbol as sym
    v = runtime.Var.find(sym.symbol(name, ns="basilisp.core"))
    return v.value


def fresh_ns(prefix="verif.scratch"):
    from basilisp.lang import runtime, symbol as sym
    name = f"{prefix}{next(_counter)}"
    ns = runtime.Namespace.get_or_create(sym.symbol(name))
    core_ns = runtime.Namespace.get(sym.symbol("basilisp.core"))
    ns.refer_all(core_ns)
    return ns


def ev(code, ns=None, opts=None):
    """Read and evaluate every form of `code` in namespace `ns`; returns the last value."""
    from basilisp.lang import compiler, reader, runtime, symbol as sym
    if ns is None:
        ns = fresh_ns()
    ctx = compiler.CompilerContext("<verif>", opts=opts)
    last = None
    nsvar = runtime.Var.find(sym.symbol("*ns*", ns="basilisp.core"))
    with runtime.bindings({nsvar: ns}):
        for form in reader.read_str(code, runtime.resolve_alias):
            last = compiler.compile_and_exec_form(form, ctx, runtime.get_current_ns())
    return last


def exc_class(e):
    return type(e).__name__
