"""Rebuild the Rust extension from /repo/rust whenever its sources change, into an overlay
directory that implementation workers put in front of basilisp.__path__."""
import fcntl
import hashlib
import os
import shutil
import subprocess

from . import paths


def rust_hash():
    h = hashlib.sha256()
    root = os.path.join(paths.REPO, "rust")
    for dp, dn, fn in sorted(os.walk(root)):
        dn[:] = sorted(d for d in dn if d != "target")
        for f in sorted(fn):
            p = os.path.join(dp, f)
            h.update(p.encode())
            h.update(open(p, "rb").read())
    return h.hexdigest()


def ensure_overlay():
    want = rust_hash()
    stamp = os.path.join(paths.OVERLAY, "rust.sha256")
    so = os.path.join(paths.OVERLAY, "basilisp", "_lang.abi3.so")
    if os.path.exists(stamp) and os.path.exists(so) and open(stamp).read().strip() == want:
        return "overlay up to date"
    os.makedirs(paths.CACHE, exist_ok=True)
    with open(os.path.join(paths.CACHE, "rust.lock"), "w") as lk:
        fcntl.flock(lk, fcntl.LOCK_EX)
        if os.path.exists(stamp) and os.path.exists(so) and open(stamp).read().strip() == want:
            return "overlay up to date"
        target = os.path.join(paths.CACHE, "rust-target")
        env = dict(os.environ, CARGO_TARGET_DIR=target, CARGO_NET_OFFLINE="true",
                   PYO3_PYTHON=paths.PYTHON)
        p = subprocess.run(["cargo", "build", "--release", "--offline"],
                           cwd=os.path.join(paths.REPO, "rust"), env=env,
                           capture_output=True, text=True)
        if p.returncode != 0:
            raise RuntimeError("cargo build failed:\n" + p.stderr[-3000:])
        os.makedirs(os.path.dirname(so), exist_ok=True)
        shutil.copy(os.path.join(target, "release", "libbasilisp_native.so"), so + ".tmp")
        os.replace(so + ".tmp", so)
        open(stamp, "w").write(want)
    return "rebuilt from /repo/rust"
